"""Fail-closed matching of Python source against a template and translation of the
bound sub-expressions to Gallina.

A template is ordinary Python source in which names starting with ``H_`` are holes.
``unify(template_ast, actual_ast)`` succeeds only if the two trees are identical
everywhere except at holes, where the actual subtree is bound to the hole name.
Docstrings and annotations are ignored.  Anything else raises ``Mismatch`` - the tie is
then reported as broken rather than silently passing.
"""
import ast


class Mismatch(Exception):
    pass


def strip_doc(body):
    if body and isinstance(body[0], ast.Expr) and isinstance(getattr(body[0], 'value', None), ast.Constant) \
            and isinstance(body[0].value.value, str):
        return body[1:]
    return body


IGNORED_FIELDS = {'lineno', 'col_offset', 'end_lineno', 'end_col_offset', 'ctx', 'type_comment',
                  'returns', 'annotation', 'decorator_list', 'type_params', 'kind'}


def unify(t, a, b, path=''):
    if isinstance(t, ast.Name) and t.id.startswith('H_'):
        if t.id in b:
            if ast.dump(b[t.id]) != ast.dump(a):
                raise Mismatch('%s: hole %s bound twice to different code' % (path, t.id))
        else:
            b[t.id] = a
        return
    if isinstance(t, ast.Expr) and isinstance(t.value, ast.Name) and t.value.id.startswith('HS_'):
        # statement hole: binds one statement
        b[t.value.id] = a
        return
    if type(t) is not type(a):
        raise Mismatch('%s: expected %s, found %s (%s)' % (path, type(t).__name__, type(a).__name__,
                                                         _src(a)))
    if isinstance(t, ast.AST):
        for f in t._fields:
            if f in IGNORED_FIELDS:
                continue
            tv, av = getattr(t, f, None), getattr(a, f, None)
            if f == 'body' and isinstance(tv, list):
                tv, av = strip_doc(tv), strip_doc(av)
            unify(tv, av, b, path + '.' + f)
    elif isinstance(t, list):
        if len(t) != len(a):
            raise Mismatch('%s: expected %d items, found %d' % (path, len(t), len(a)))
        for i, (x, y) in enumerate(zip(t, a)):
            unify(x, y, b, '%s[%d]' % (path, i))
    else:
        if t != a:
            raise Mismatch('%s: expected %r, found %r' % (path, t, a))


def _src(n):
    try:
        return ast.unparse(n)[:80]
    except Exception:
        return '?'


def find_def(tree, name, cls=None):
    """Return the FunctionDef `name` (inside class `cls` if given), searched at any depth."""
    for n in ast.walk(tree):
        if cls is not None:
            if isinstance(n, ast.ClassDef) and n.name == cls:
                for m in n.body:
                    if isinstance(m, ast.FunctionDef) and m.name == name:
                        return m
        elif isinstance(n, ast.FunctionDef) and n.name == name:
            return n
    raise Mismatch('definition %s%s not found' % ((cls + '.') if cls else '', name))


def match_function(src_tree, name, template_src, cls=None):
    f = find_def(src_tree, name, cls)
    t = ast.parse(template_src).body[0]
    b = {}
    # arguments: names must agree
    ta = [x.arg for x in t.args.args]
    fa = [x.arg for x in f.args.args]
    if ta != fa:
        raise Mismatch('%s: arguments %r, expected %r' % (name, fa, ta))
    if f.args.vararg or f.args.kwarg or f.args.kwonlyargs:
        raise Mismatch('%s: unexpected argument kinds' % name)
    unify(strip_doc(t.body), strip_doc(f.body), b, name)
    return b


# ---------------------------------------------------------------------------
# expressions -> Gallina (Z arithmetic, bool conditions)

CMP = {ast.Lt: 'Z.ltb', ast.LtE: 'Z.leb', ast.Gt: 'Z.gtb', ast.GtE: 'Z.geb', ast.Eq: 'Z.eqb'}
BIN = {ast.Add: 'Z.add', ast.Sub: 'Z.sub', ast.Mult: 'Z.mul', ast.FloorDiv: 'Z.div', ast.Mod: 'Z.modulo'}


def zexpr(n, env):
    """integer-valued expression -> Gallina term of type Z"""
    key = ast.unparse(n)
    if key in env:
        return env[key]
    if isinstance(n, ast.Constant) and isinstance(n.value, int) and not isinstance(n.value, bool):
        return '(%d)%%Z' % n.value
    if isinstance(n, ast.UnaryOp) and isinstance(n.op, ast.USub):
        return '(Z.opp %s)' % zexpr(n.operand, env)
    if isinstance(n, ast.BinOp) and type(n.op) in BIN:
        return '(%s %s %s)' % (BIN[type(n.op)], zexpr(n.left, env), zexpr(n.right, env))
    raise Mismatch('cannot translate integer expression %r' % key)


def bexpr(n, env):
    """boolean-valued expression -> Gallina term of type bool"""
    key = ast.unparse(n)
    if key in env:
        return env[key]
    if isinstance(n, ast.Constant) and isinstance(n.value, bool):
        return 'true' if n.value else 'false'
    if isinstance(n, ast.UnaryOp) and isinstance(n.op, ast.Not):
        return '(negb %s)' % bexpr(n.operand, env)
    if isinstance(n, ast.BoolOp):
        op = 'andb' if isinstance(n.op, ast.And) else 'orb'
        parts = [bexpr(v, env) for v in n.values]
        out = parts[-1]
        for p in reversed(parts[:-1]):
            out = '(%s %s %s)' % (op, p, out)
        return out
    if isinstance(n, ast.Compare):
        parts = []
        left = n.left
        for op, right in zip(n.ops, n.comparators):
            if type(op) in CMP:
                parts.append('(%s %s %s)' % (CMP[type(op)], zexpr(left, env), zexpr(right, env)))
            elif isinstance(op, ast.NotEq):
                parts.append('(negb (Z.eqb %s %s))' % (zexpr(left, env), zexpr(right, env)))
            else:
                raise Mismatch('cannot translate comparison %r' % key)
            left = right
        out = parts[-1]
        for p in reversed(parts[:-1]):
            out = '(andb %s %s)' % (p, out)
        return out
    raise Mismatch('cannot translate boolean expression %r' % key)


def const_int(tree, name):
    for n in tree.body:
        if isinstance(n, ast.Assign) and len(n.targets) == 1 and isinstance(n.targets[0], ast.Name) \
                and n.targets[0].id == name:
            if isinstance(n.value, ast.Constant) and isinstance(n.value.value, int):
                return n.value.value
            raise Mismatch('%s is not an integer literal' % name)
    raise Mismatch('constant %s not found' % name)
