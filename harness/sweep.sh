#!/bin/bash
# harness/sweep.sh "<seeds>" [tier] [ids...]: run every check for each seed, print one line per run (alarms shown in full)
cd "$(dirname "$0")/.."
seeds=${1:-"1 2 3"}; tier=${2:-quick}; shift; shift
ids=${@:-$(python3 -c "import json;print(' '.join(c['property_id'] for c in json.load(open('MANIFEST.json'))['checks']))")}
./setup.sh | tail -1
run() { s=$1; id=$2; out=$(VERIF_SEED=$s timeout 3000 ./check $id --tier $tier 2>&1); rc=$?; echo "seed=$s $id rc=$rc $(echo "$out" | tail -1)"; if [ $rc -ne 0 ]; then echo "$out" | grep -A1 VIOLATION | head -8; fi; }
export -f run; export tier
for s in $seeds; do for id in $ids; do echo "$s $id"; done; done | xargs -P 5 -L 1 bash -c 'run $0 $1'
