#!/venv/bin/python
"""./check <ID> [--tier quick|thorough] [--replay <path>]   (cwd /verif)"""
import argparse
import importlib
import json
import os
import re
import sys
import time
import traceback

HERE = os.path.dirname(os.path.abspath(__file__))
sys.path.insert(0, HERE)
import lib  # noqa: E402

sys.path.insert(0, lib.REPO)


def dep_closure(prop):
    """.v files Props/<prop>.v depends on (via coqdep), for counting supporting lemmas."""
    rc, out = lib.sh('coqdep -Q . %s -sort Props/%s.v 2>/dev/null' % (lib.COQ_LOGICAL, prop), cwd=lib.COQ, timeout=120)
    files = [f for f in out.split() if f.endswith('.v')]
    files = [os.path.normpath(f) for f in files]
    return files


def count_lemmas(files):
    n = 0
    for f in files:
        try:
            txt = open(os.path.join(lib.COQ, f)).read()
        except OSError:
            continue
        n += len(re.findall(r'(?m)^\s*(?:Theorem|Lemma|Corollary|Example|Fact|Remark)\s+\w+', txt))
    return n


def _scale_timers():
    """Hang detection in the harnesses uses signal timers with limits tuned for an idle machine. On a loaded machine
    (several checks in parallel) a fixed limit turns slowness into a false 'hang' verdict, so every timer is stretched
    by the current load (>= 1x, re-evaluated at each call)."""
    import signal
    ncpu = os.cpu_count() or 1

    def factor():
        try:
            return max(1.0, 3.0 * os.getloadavg()[0] / ncpu)
        except OSError:
            return 1.0
    _setitimer, _alarm = signal.setitimer, signal.alarm

    def setitimer(which, seconds, interval=0.0):
        return _setitimer(which, seconds * factor() if seconds else seconds, interval)

    def alarm(seconds):
        return _alarm(int(seconds * factor() + 0.999) if seconds else 0)
    signal.setitimer, signal.alarm = setitimer, alarm


def _limit_memory():
    """A runaway generator or a pathological lark construction must fail loudly instead of exhausting the machine."""
    import resource
    lim = int(os.environ.get('VERIF_MEM_GB', '24')) * (1 << 30)
    try:
        resource.setrlimit(resource.RLIMIT_AS, (lim, lim))
    except (ValueError, OSError):
        pass


def main():
    _scale_timers()
    _limit_memory()
    ap = argparse.ArgumentParser()
    ap.add_argument('prop')
    ap.add_argument('--tier', default=os.environ.get('VERIF_TIER', 'quick'))
    ap.add_argument('--replay')
    ap.add_argument('--no-build', action='store_true', help='developer shortcut: skip make (never used in MANIFEST)')
    a = ap.parse_args()
    prop = a.prop
    tier = a.tier if a.tier in ('quick', 'thorough') else 'quick'
    seed = int(os.environ.get('VERIF_SEED', '0') or 0)
    ctx = lib.Ctx(prop, tier, seed)
    mod = importlib.import_module('props.' + prop)
    try:
        if a.replay:
            case = json.load(open(a.replay))
            ok = mod.replay(ctx, case)
            print('REPLAY property=%s reproduces=%s' % (prop, bool(ok)))
            return 1 if ok else 0
        return run(ctx, mod, a)
    finally:
        ctx.cleanup()


def run(ctx, mod, a):
    prop = ctx.prop
    proof_broken = []     # (what, detail)
    tie_broken = []

    # 1. regeneration from source -------------------------------------------------
    try:
        regen = lib.regenerate()
    except Exception:
        regen = {'__translator__': (False, traceback.format_exc()[-1500:])}
    for stem in getattr(mod, 'GEN_DEPS', []):
        ok, msg = regen.get(stem, (False, 'translator produced nothing for ' + stem))
        if not ok:
            tie_broken.append(('regeneration:Gen/%s.v' % stem, msg))
    if '__translator__' in regen and getattr(mod, 'GEN_DEPS', []):
        tie_broken.append(('regeneration:translator', regen['__translator__'][1]))

    # 2. build --------------------------------------------------------------------
    build_log = ''
    if not a.no_build:
        ok, build_log, failed = lib.build_coq()
    if not lib.vo_uptodate('Props/' + prop):
        m = re.findall(r'File "\./([^"]+)", line (\d+), characters [\d-]+:\s*\n((?:.*\n){0,12}?)(?=File|make|COQC|$)', build_log)
        det = '; '.join('%s:%s %s' % (f, l, ' '.join(t.split())[:300]) for f, l, t in m[:4]) or build_log[-1200:]
        proof_broken.append(('build:Props/%s.vo' % prop, det))

    # 3. assumptions ----------------------------------------------------------------
    assum = {}
    thms = lib.theorem_names(prop)
    required = list(getattr(mod, 'THEOREMS', []))
    missing = [t for t in required if t not in thms]
    if missing:
        proof_broken.append(('theorems-missing', ','.join(missing)))
    if not proof_broken:
        ok, assum, raw = lib.props_assumptions(prop)
        if not ok:
            proof_broken.append(('coqc:Props/%s.v' % prop, raw[-1200:]))
        allowed = set(getattr(mod, 'ALLOWED_AXIOMS', []))
        for th, txt in assum.items():
            if th == '__mismatch__':
                proof_broken.append(('print-assumptions', txt))
            elif not txt.startswith('Closed under the global context'):
                names = set(re.findall(r'(?m)^\s*([\w\.]+)\s*:', txt))
                if not names <= allowed:
                    proof_broken.append(('axioms:' + th, ' '.join(txt.split())[:400]))
    # 4. forbidden tokens -------------------------------------------------------------
    hits = lib.scan_forbidden() + lib.section_free_variables()
    if hits:
        proof_broken.append(('forbidden-tokens', '; '.join(hits[:5])))

    ctx.proof_broken = proof_broken
    ctx.tie_broken = tie_broken
    ctx.widen = bool(proof_broken or tie_broken)

    # 5. correspondence + failing-input search ----------------------------------------
    try:
        mod.correspond(ctx)
    except Exception:
        ctx.violation('harness-exception', {'traceback': traceback.format_exc()[-3000:]}, False,
                      'the correspondence harness itself raised')
    # 6. broken obligations without a concrete failing input ---------------------------
    known = lib.load_known()
    # a listed known finding reproducing is not "a failing input was found" for a broken obligation
    any_found = any(v['found'] and lib.match_known(prop, v, known) is None for v in ctx.violations)
    for what, det in proof_broken + tie_broken:
        if not any_found:
            ctx.violation(what, {'no_longer_checks': what, 'detail': det}, False, det)
        else:
            ctx.note('broken obligation %s (a failing input was found)' % what)

    # 7. thorough: independent re-check ------------------------------------------------
    coqchk_txt = None
    if ctx.thorough() and not proof_broken:
        rc, out = lib.sh('coqchk -silent -o -Q . %s %s.Props.%s' % (lib.COQ_LOGICAL, lib.COQ_LOGICAL, prop),
                         cwd=lib.COQ, timeout=1800)
        coqchk_txt = out[-3000:]
        if rc != 0:
            ctx.violation('coqchk:Props/%s.vo' % prop, {'no_longer_checks': 'coqchk', 'detail': out[-1500:]}, False, out[-600:])

    # 8. report ------------------------------------------------------------------------
    printed = 0
    unlisted = 0
    seen = set()
    for v in ctx.violations:
        k = lib.match_known(prop, v, known)
        if k is not None:
            tag = (k['id'],)
            if tag not in seen:
                seen.add(tag)
                print('KNOWN-FINDING: property=%s %s: %s' % (prop, k['id'], k['what']))
            ctx.known_hits.append(k['id'])
            continue
        unlisted += 1
        if printed < 10:
            p = lib.write_replay(prop, v)
            tail = '' if v['found'] else ' no-failing-input-found'
            print('VIOLATION property=%s replay=%s stage=%s%s' % (prop, p, v['stage'], tail)
                  if False else 'VIOLATION property=%s replay=%s%s' % (prop, p, tail))
            print('  stage: %s  detail: %s' % (v['stage'], str(v['detail'])[:300]))
            printed += 1
    # findings listed for this property but whose exotic witness did not reproduce: say so (not an alarm)
    for k in known:
        if k.get('status') == 'finding' and k.get('property') == prop and k['id'] not in ctx.known_hits:
            ctx.note('listed finding %s did not show in this run' % k['id'])

    files = dep_closure(prop)
    n_prop_thms = len(thms)
    n_support = count_lemmas(files)
    discharged = 0 if proof_broken else n_prop_thms + n_support
    ev = {
        'property_id': prop, 'tier': ctx.tier, 'seed': ctx.seed, 'level': 'proof',
        'coverage': {
            'obligations': n_prop_thms + n_support,
            'discharged': discharged,
            'property_theorems': thms,
            'supporting_lemmas_in_dependency_closure': n_support,
            'checker_cmd': 'make -f Makefile.coq (coqc 8.16.1, full .vo) && coqc -Q . LV Props/%s.v (Print Assumptions)%s'
                           % (prop, ' && coqchk -o' if ctx.thorough() else ''),
            'print_assumptions': assum,
            'coqchk': coqchk_txt,
            'trusted_base': getattr(mod, 'TRUSTED_BASE', []) + [
                'Coq 8.16.1 kernel + vm_compute (no native_compute)',
                'translator/gen.py (fail-closed Python-ast extractor) for coq/Gen/*.v',
                'harness/props/%s.py correspondence harness (generators, canonicalisers, comparison by vm_compute in generated cases files)' % prop,
            ],
            'model_files': files,
            'evaluations': ctx.evaluations,
            'distinct_nontrivial': len(ctx.nontrivial),
            'rule': getattr(mod, 'RULE', ''),
            'samples': ctx.samples or [{'note': 'no correspondence samples recorded'}],
            'streams': ctx.streams,
            'histogram': ctx.histo,
            'coq_case_files': ctx.coq_case_files,
            'coq_cases_checked': ctx.coq_cases_checked,
            'known_findings_seen': sorted(set(ctx.known_hits)),
            'broken_obligations': [w for w, _ in proof_broken + tie_broken],
            'notes': ctx.notes,
            **ctx.extra,
        },
        'assumptions': getattr(mod, 'ASSUMPTIONS', []),
        'wall_s': round(time.time() - ctx.t0, 2),
        'violations': unlisted,
    }
    os.makedirs(os.path.join(lib.VERIF, 'evidence'), exist_ok=True)
    json.dump(ev, open(os.path.join(lib.VERIF, 'evidence', prop + '.json'), 'w'), indent=1, default=repr)
    print('%s tier=%s seed=%d theorems=%d support=%d evaluations=%d nontrivial=%d coq_cases=%d violations=%d known=%d wall=%.1fs'
          % (prop, ctx.tier, ctx.seed, n_prop_thms, n_support, ctx.evaluations, len(ctx.nontrivial),
             ctx.coq_cases_checked, unlisted, len(set(ctx.known_hits)), time.time() - ctx.t0))
    return 1 if unlisted else 0


if __name__ == '__main__':
    sys.exit(main())
