#!/venv/bin/python
"""Regenerates MANIFEST.json from harness/claims.json (one entry per claimed property) and properties.jsonl."""
import json, os
V = os.path.dirname(os.path.dirname(os.path.abspath(__file__)))
claims = json.load(open(os.path.join(V, 'harness', 'claims.json')))
claims['claimed'] = {}
D = os.path.join(V, 'harness', 'claims.d')
for f in sorted(os.listdir(D)):
    if f.endswith('.json'):
        claims['claimed'][f[:-5]] = json.load(open(os.path.join(D, f)))
props = [json.loads(l)['id'] for l in open(os.path.join(V, 'properties.jsonl'))]
checks = []
for pid in props:
    c = claims['claimed'].get(pid)
    if not c:
        continue
    checks.append({
        'property_id': pid,
        'quick_cmd': './check %s --tier quick' % pid,
        'thorough_cmd': './check %s --tier thorough' % pid,
        'evidence_file': '/verif/evidence/%s.json' % pid,
        'replay_cmd_template': './check %s --replay {path}' % pid,
        'engine': 'coq-proof+correspondence',
        'level_claimed': {'category': 'proof', 'text': c['text'], 'design_ref': 'DESIGN.md section 4, ' + pid},
        'level_note': c['note'],
        'technique': c['technique'],
    })
na = [{'property_id': p, 'reason': claims['not_applicable'].get(p, 'not yet covered by a theorem and a checked tie in this development; no check is claimed')}
      for p in props if p not in claims['claimed']]
m = {
    'version': 1,
    'setup_cmd': './setup.sh',
    'hooks': {'guard': 'LARK_VERIF', 'enable': 'none needed: checks import lark from /repo and observe it by run-time wrapping; no source hook commits',
              'baseline_off_cmd': 'cd /repo && /venv/bin/python -m pytest -ra -q -p no:cacheprovider --timeout=900 --continue-on-collection-errors',
              'source_commits': claims.get('source_commits', []), 'add_only': True},
    'engines': [{'name': 'coq-proof+correspondence', 'path': '/verif/check',
                 'serves_properties': [c['property_id'] for c in checks],
                 'kind_free_text': 'Coq 8.16.1 theorems about hand-written/regenerated Gallina models (coq/), tied to /repo by translator/gen.py (regeneration) and harness/props/*.py (model evaluated by vm_compute on the cases the implementation ran)'}],
    'checks': checks,
    'notes': claims.get('notes', ''),
    'not_applicable': na,
}
json.dump(m, open(os.path.join(V, 'MANIFEST.json'), 'w'), indent=1)
print('claimed', [c['property_id'] for c in checks], 'not claimed', len(na))
