#!/bin/bash
# Applies every kept seeded change to /repo itself (one at a time), runs the property's quick check, undoes it.
# Output: seeded/RESULTS.tsv  (seed, property, check exit code, first violation stage)
cd "$(dirname "$0")/.."
git -C /repo diff --quiet || { echo "/repo has local changes"; exit 2; }
: > seeded/RESULTS.tsv
for d in seeded/*/; do
  n=$(basename $d); [ -f $d/patch.diff ] || continue
  prop=$(python3 -c "import json;print(json.load(open('$d/meta.json'))['property'])")
  git -C /repo apply $PWD/$d/patch.diff || { echo -e "$n\t$prop\tapply-failed\t-" >> seeded/RESULTS.tsv; continue; }
  out=$(timeout 3000 ./check $prop 2>&1); rc=$?
  git -C /repo checkout -- .
  stage=$(echo "$out" | grep -m1 "^  stage:" | sed 's/^  stage: //' | cut -c1-150)
  nf=$(echo "$out" | grep -c "no-failing-input-found")
  echo -e "$n\t$prop\t$rc\t$stage\tno-failing-input-lines=$nf" >> seeded/RESULTS.tsv
  echo "$n $prop rc=$rc $stage"
done
/venv/bin/python translator/gen.py /repo > /dev/null
git -C /repo status --short | head -3
