#!/venv/bin/python
"""Validate a seeded change and run the property's check against it.

  harness/seedtest.py <dir with patch.diff, demo.py, meta.json> [--no-suite] [--tier quick]

Works in a scratch worktree of /repo (removed afterwards); /repo itself is never touched.
Prints one JSON line with: demo_clean (exit code on pristine), demo_mutant, suite (exit code
of the full test suite with the change), check_rc, violation lines.
"""
import json
import os
import subprocess
import sys
import tempfile

V = os.path.dirname(os.path.dirname(os.path.abspath(__file__)))


def sh(cmd, **kw):
    p = subprocess.run(cmd, shell=True, stdout=subprocess.PIPE, stderr=subprocess.STDOUT, text=True, **kw)
    return p.returncode, p.stdout


def main():
    d = os.path.abspath(sys.argv[1])
    suite = '--no-suite' not in sys.argv
    tier = 'quick'
    if '--tier' in sys.argv:
        tier = sys.argv[sys.argv.index('--tier') + 1]
    meta = json.load(open(os.path.join(d, 'meta.json')))
    prop = meta['property']
    wt = tempfile.mkdtemp(prefix='sv_', dir='/var/tmp')
    os.rmdir(wt)
    out = {'dir': d, 'property': prop}
    try:
        rc, o = sh('git -C /repo worktree add --detach %s HEAD' % wt)
        assert rc == 0, o
        env = dict(os.environ, PYTHONPATH=wt, PYTHONDONTWRITEBYTECODE='1', PYTHONHASHSEED='0')
        rc, o = sh('timeout 600 /venv/bin/python %s' % os.path.join(d, 'demo.py'), env=env, cwd=wt)
        out['demo_clean'] = rc
        rc, o = sh('git -C %s apply %s' % (wt, os.path.join(d, 'patch.diff')))
        out['apply'] = rc
        if rc != 0:
            out['apply_out'] = o[-500:]
            print(json.dumps(out))
            return
        rc, o = sh('timeout 600 /venv/bin/python %s' % os.path.join(d, 'demo.py'), env=env, cwd=wt)
        out['demo_mutant'] = rc
        out['demo_out'] = o[-400:]
        if suite:
            rc, o = sh('timeout 1800 /venv/bin/python -m pytest -q -p no:cacheprovider --timeout=900 tests/ -x -q', env=env, cwd=wt)
            out['suite'] = rc
        env2 = dict(os.environ, VERIF_REPO=wt)
        evp = os.path.join(V, 'evidence', prop + '.json')
        saved = open(evp).read() if os.path.exists(evp) else None
        rc, o = sh('timeout 3000 ./check %s --tier %s' % (prop, tier), env=env2, cwd=V)
        if saved is not None:
            open(evp, 'w').write(saved)       # evidence must come from runs against /repo itself
        out['check_rc'] = rc
        lines = [l for l in o.split('\n') if l.startswith('VIOLATION') or l.startswith('  stage')]
        out['violations'] = lines[:6]
        out['tail'] = o.strip().split('\n')[-1][:300]
        print(json.dumps(out))
    finally:
        sh('git -C /repo worktree remove --force %s' % wt)
        # restore regenerated files to the real tree's state
        sh('/venv/bin/python translator/gen.py /repo', cwd=V)


if __name__ == '__main__':
    main()
