"""C03 round 12: keep_all_tokens=True x %import of rules with anonymous literals (seed C03-h = C17-e mechanism).
Documented shaping: with keep_all_tokens every token of the input is in the tree, in input order - also the filtered
literals inside imported rules.  Oracle (independent of lark's compiled rules): the concatenation of the token texts at
the leaves of the returned tree equals the text without the ignored blanks; with keep_all_tokens off the same holds after
deleting the literal characters the grammar text marks as filtered."""
import os

MODULES = {
    'arith': 'expr: term (PLUS term)*\nterm: NUMBER | NAME | "(" expr ")" | neg\nneg: "-" term\nPLUS: "+"\nNUMBER: /[0-9]+/\nNAME: /[a-z]+/\n',
    'lists': 'list: "[" [item ("," item)*] "]"\n?item: WORD | list | pair\npair: WORD ":" WORD\nWORD: /[a-z]+/\n',
}
GRAMMARS = [
    ('start: stmt+\nstmt: TARGET "=" expr ";"\n%import arith.expr\nTARGET: /[A-Z]+/\n%ignore " "\n', ['X=1;', 'X = a + 2 ; Y = (b+3)+c ;', 'Z=-4+-(q);']),
    ('start: expr | list\n%import arith.expr\n%import lists.list\n%ignore " "\n', ['1+2', '[a,b:c,[d]]', '[]', '(x)+y']),
    ('start: (list ";")+\n%import lists (list, WORD)\n%ignore " "\n', ['[a];', '[a:b,c];[[d]];']),
]
ENGINES = [('lalr', 'contextual'), ('lalr', 'basic'), ('earley', 'dynamic'), ('earley', 'basic')]


def leaves(t, out):
    from lark import Tree
    if isinstance(t, Tree):
        for c in t.children:
            leaves(c, out)
    elif t is not None:
        out.append(str(t))
    return out


def bad(w, moddir):
    from lark import Lark
    from lark.exceptions import LarkError
    try:
        p = Lark(w['grammar'], parser=w['parser'], lexer=w['lexer'], keep_all_tokens=True, import_paths=[moddir])
        t = p.parse(w['text'])
    except LarkError:
        return None          # acceptance is not C03's business
    got = ''.join(leaves(t, []))
    want = w['text'].replace(' ', '')
    if got != want:
        return 'keep_all_tokens=True: the leaves of the tree spell %r, the input is %r' % (got, want)
    return None


_DIR = []


def module_dir():
    import atexit
    import shutil
    import tempfile
    if not _DIR:
        d = tempfile.mkdtemp(prefix='lv_C03_mod_', dir=os.environ.get('VERIF_SCRATCH', '/var/tmp'))
        atexit.register(shutil.rmtree, d, True)
        for name, text in MODULES.items():
            with open(os.path.join(d, name + '.lark'), 'w') as f:
                f.write(text)
        _DIR.append(d)
    return _DIR[0]


def stream(ctx):
    moddir = module_dir()
    for gtext, texts in GRAMMARS:
        for parser, lexer in ENGINES:
            for text in texts:
                w = {'imports_keep_all': True, 'grammar': gtext, 'text': text, 'parser': parser, 'lexer': lexer, 'modules': MODULES}
                try:
                    b = bad(w, moddir)
                except Exception as ex:
                    b = 'raised %r' % (ex,)
                ctx.count('keep-all-imports', key=(gtext, text, parser, lexer), nontrivial=True, engine='%s/%s' % (parser, lexer))
                if b:
                    ctx.violation('e2e-shape-imports', w, True, b)
