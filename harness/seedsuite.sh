#!/bin/bash
# harness/seedsuite.sh <seed dir>...: confirm for each seeded change that the full test suite passes with it and that
# demo.py exits 0 without / 1 with it; record the result in the seed's meta.json (validated_suite).
cd "$(dirname "$0")/.."
one() {
  d=$1; wt=$(mktemp -d /var/tmp/ss_XXXX); rmdir $wt
  git -C /repo worktree add --detach -q $wt HEAD || exit 1
  export PYTHONPATH=$wt PYTHONDONTWRITEBYTECODE=1
  ( cd $wt; timeout 600 /venv/bin/python $OLDPWD/$d/demo.py >/dev/null 2>&1; c=$?
    git apply $OLDPWD/$d/patch.diff; a=$?
    timeout 600 /venv/bin/python $OLDPWD/$d/demo.py >/dev/null 2>&1; m=$?
    timeout 1800 /venv/bin/python -m pytest -q -p no:cacheprovider --timeout=900 tests/ -x -q >/dev/null 2>&1; s=$?
    echo "$d demo_clean=$c apply=$a demo_mutant=$m suite=$s"
    python3 - "$OLDPWD/$d/meta.json" $c $a $m $s <<'PY'
import json,sys
p=sys.argv[1]; m=json.load(open(p))
m['validated_suite']={'demo_clean':int(sys.argv[2]),'apply':int(sys.argv[3]),'demo_mutant':int(sys.argv[4]),'suite':int(sys.argv[5])}
json.dump(m,open(p,'w'),indent=1)
PY
  )
  git -C /repo worktree remove --force $wt
}
export -f one
printf '%s\n' "$@" | xargs -P 4 -I{} bash -c 'one {}'
