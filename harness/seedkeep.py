#!/venv/bin/python
"""harness/seedkeep.py <seed dir> <name>: run seedtest and, if the change is valid (demo 0 -> 1, suite passes),
store it as /verif/seeded/<name>/ with the validation record added to meta.json."""
import json, os, shutil, subprocess, sys
V = os.path.dirname(os.path.dirname(os.path.abspath(__file__)))
d, name = sys.argv[1], sys.argv[2]
out = subprocess.run([os.path.join(V, 'harness', 'seedtest.py'), d] + sys.argv[3:], stdout=subprocess.PIPE, text=True).stdout
res = None
for l in out.split('\n'):
    try:
        res = json.loads(l)
    except Exception:
        pass
print(out[-1500:])
if not res:
    sys.exit(2)
valid = res.get('demo_clean') == 0 and res.get('demo_mutant') == 1 and res.get('suite', 0) == 0 and res.get('apply') == 0
dest = os.path.join(V, 'seeded', name)
if valid:
    os.makedirs(dest, exist_ok=True)
    for f in ('patch.diff', 'demo.py'):
        shutil.copy(os.path.join(d, f), dest)
    meta = json.load(open(os.path.join(d, 'meta.json')))
    meta['validated_by_coordinator'] = {k: res.get(k) for k in ('demo_clean', 'demo_mutant', 'suite', 'check_rc', 'violations', 'tail')}
    meta['caught'] = res.get('check_rc') == 1
    json.dump(meta, open(os.path.join(dest, 'meta.json'), 'w'), indent=1)
    print('KEPT', name, 'caught' if meta['caught'] else 'MISSED')
else:
    print('INVALID seed', name, {k: res.get(k) for k in ('demo_clean', 'demo_mutant', 'suite', 'apply')})
