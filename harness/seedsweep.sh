#!/bin/bash
# harness/seedsweep.sh "<VERIF_SEED values>": every kept seeded change x every harness seed (sequential; scratch worktrees)
cd "$(dirname "$0")/.."
./setup.sh | tail -1
for d in seeded/*/; do
  n=$(basename $d); [ -f $d/patch.diff ] || continue
  for s in ${1:-0 1 2}; do
    out=$(VERIF_SEED=$s timeout 3000 harness/seedtest.py $d --no-suite 2>&1 | tail -1)
    rc=$(echo "$out" | python3 -c "import sys,json
try: print(json.loads(sys.stdin.read()).get('check_rc'))
except Exception: print('?')")
    echo "$n seed=$s check_rc=$rc"
  done
done
