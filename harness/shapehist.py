"""C16 round 12: transformer OBJECTS WITH A HISTORY, v_args adapters, DAG-shaped inputs.

(h) history family.  The property speaks about a transformer object T at the time of the comparison; nothing says the
object is fresh.  Every history below is applied to every sampled (tree | grammar, text) and base class, for every seed:
the object (or the object it was copied from) has already transformed the very tree / parsed text that is compared
afterwards, then it is copied / re-configured / given more callbacks (setattr of a bound method of a donor object,
delattr, merge_transformers, a class-level assignment) / has visit_tokens toggled.  Expected = the documented result for
the attribute state the object has NOW (python simulation of the state + the Coq traversal models under the symbolic
transformer of that state; merge_transformers also through Shape/GenTie.merge_T).
"""
import copy

import shapelib as sl
from lib import coq_list as L, coq_term_str as S

BASES = ['Transformer', 'Transformer_NonRecursive', 'Transformer_InPlace', 'Transformer_InPlaceRecursive']
RULE_POOL = ['a', 'b', 'c', 'm__a', 'm__c', 'start']
TOK_POOL = ['A', 'B', 'N']

# the systematic family; names: r0 = a rule name WITH a class-level callback, r1 = one WITHOUT, k0 / k1 the same for tokens
HISTORIES = [
    ('fresh', []),
    ('used', [('use',)]),
    ('copy-of-unused-reconfigured', [('copy',), ('cfg', 'y')]),
    ('used-copy-reconfigured', [('use',), ('copy',), ('cfg', 'y')]),
    ('used-deepcopy-reconfigured', [('use',), ('deepcopy',), ('cfg', 'y')]),
    ('used-reconfigured-in-place', [('use',), ('cfg', 'y')]),
    ('used-setattr-new-rule', [('use',), ('set', 'r1', 'z')]),
    ('used-setattr-over-rule', [('use',), ('set', 'r0', 'z')]),
    ('used-setattr-token', [('use',), ('set', 'k1', 'z'), ('set', 'k0', 'w')]),
    ('set-used-delattr', [('set', 'r1', 'z'), ('set', 'r0', 'z'), ('use',), ('del', 'r1'), ('del', 'r0')]),
    ('used-merge', [('use',), ('merge', 'm')]),
    ('merge-used-copy-reconfigured', [('merge', 'm'), ('use',), ('copy',), ('cfg', 'y'), ('set', 'r1', 'q')]),
    ('used-visit-tokens-off', [('use',), ('vt', False)]),
    ('off-used-visit-tokens-on', [('vt', False), ('use',), ('vt', True)]),
    ('used-class-assignment', [('use',), ('clsset', 'r1'), ('clsset', 'k1')]),
    ('used-twice-copy-set-copy', [('use',), ('copy',), ('use',), ('set', 'r1', 'z'), ('copy',), ('cfg', 'v'), ('use',)]),
]


def base_class(name):
    import lark.visitors as v
    return getattr(v, name)


def hist_class(base, rules, toks, variant):
    """callbacks are METHODS that read self.cfg: the tag says which callback ran, bound to which configuration, and
    the node name it was handed"""
    from lark import v_args
    ns = {}

    def init(self, cfg='x', visit_tokens=True):
        base_class(base).__init__(self, visit_tokens)
        self.cfg = cfg
    ns['__init__'] = init
    for i, n in enumerate(rules):
        ns[n] = rule_callback(n, var_of(variant, i))
    for k in toks:
        ns[k] = tok_callback(k)
    return type('H', (base_class(base),), ns)


def var_of(variant, i):
    return variant if variant != 'mixed' else ['plain', 'inline', 'tree'][i % 3]


def rule_callback(n, var, mark=''):
    from lark import v_args
    if var == 'inline':
        def f(self, *ch):
            return ('%s%s@%s|' % (n, mark, self.cfg), tuple(ch))
        f.__name__ = n
        return v_args(inline=True)(f)
    if var == 'tree':
        def f(self, t):
            return ('%s%s@%s|%s' % (n, mark, self.cfg, t.data), tuple(t.children))
        f.__name__ = n
        return v_args(tree=True)(f)

    def f(self, ch):
        return ('%s%s@%s|' % (n, mark, self.cfg), tuple(ch))
    f.__name__ = n
    return f


def tok_callback(k, mark=''):
    def f(self, tok):
        return ('%s%s@%s|%s' % (k, mark, self.cfg, tok.type), (tok,))
    f.__name__ = k
    return f


def rule_tag(n, var, cfg, name, mark=''):
    return '%s%s@%s|%s' % (n, mark, cfg, name if var == 'tree' else '')


class State:
    """python simulation of the attribute state: what getattr(obj, name) finds NOW"""

    def __init__(self, rules, toks, variant):
        self.cfg, self.vt = 'x', True
        self.cls_rules = {n: (var_of(variant, i), '') for i, n in enumerate(rules)}     # class-level: bound at call time
        self.cls_toks = {k: '' for k in toks}
        self.inst_rules, self.inst_toks = {}, {}                                        # instance-level: (var, bound cfg, mark, defname)

    def rtag(self, name):
        if name in self.inst_rules:
            var, cfg, mark, dn = self.inst_rules[name]
            return rule_tag(dn, var, cfg, name, mark)
        if name in self.cls_rules:
            var, mark = self.cls_rules[name]
            return rule_tag(name, var, self.cfg, name, mark)
        return None

    def ttag(self, k):
        if k in self.inst_toks:
            cfg, mark, dn = self.inst_toks[k]
            return '%s%s@%s|%s' % (dn, mark, cfg, k)
        if k in self.cls_toks:
            return '%s%s@%s|%s' % (k, self.cls_toks[k], self.cfg, k)
        return None

    def tags(self, names, toknames):
        rt = {n: self.rtag(n) for n in names if self.rtag(n) is not None}
        tt = {k: self.ttag(k) for k in toknames if self.ttag(k) is not None}
        return rt, tt


def pick(rules, toks, all_rules, all_toks):
    """r0/k0: names with a class-level callback, r1/k1: names without (falling back sensibly)"""
    free_r = [n for n in all_rules if n not in rules and not n.startswith('m__')]
    free_k = [k for k in all_toks if k not in toks]
    return {'r0': rules[0] if rules else None, 'r1': free_r[0] if free_r else None,
            'k0': toks[0] if toks else None, 'k1': free_k[0] if free_k else None}


def build(base, rules, toks, variant, hist, use_tree, all_rules, all_toks, merged_rules=('a', 'c'), merged_toks=('A',)):
    """-> (object with the history, State, merge info or None).  use_tree() returns a fresh lark tree for ('use',)."""
    from lark.visitors import merge_transformers
    cls = hist_class(base, rules, toks, variant)
    obj = cls()
    st = State(rules, toks, variant)
    names = pick(rules, toks, all_rules, all_toks)
    merged = None
    for op in hist:
        if op[0] == 'use':
            obj.transform(use_tree())
        elif op[0] in ('copy', 'deepcopy'):
            obj = copy.copy(obj) if op[0] == 'copy' else copy.deepcopy(obj)
        elif op[0] == 'cfg':
            obj.cfg = op[1]
            st.cfg = op[1]
        elif op[0] == 'vt':
            obj.__visit_tokens__ = op[1]
            st.vt = op[1]
        elif op[0] == 'set':
            n = names[op[1]]
            if n is None:
                continue
            donor = type('Donor', (base_class(base),), {'d': (tok_callback(n, '+') if op[1][0] == 'k' else rule_callback(n, 'plain', '+'))})()
            donor.cfg = op[2]
            setattr(obj, n, donor.d)              # a bound method of ANOTHER object, configured differently
            if op[1][0] == 'k':
                st.inst_toks[n] = (op[2], '+', n)
            else:
                st.inst_rules[n] = ('plain', op[2], '+', n)
        elif op[0] == 'del':
            n = names[op[1]]
            if n is not None and n in obj.__dict__:
                delattr(obj, n)
                st.inst_rules.pop(n, None)
                st.inst_toks.pop(n, None)
        elif op[0] == 'clsset':
            n = names[op[1]]
            if n is None:
                continue
            if op[1][0] == 'k':
                setattr(type(obj), n, tok_callback(n, '!'))
                st.cls_toks[n] = '!'
            else:
                setattr(type(obj), n, rule_callback(n, 'plain', '!'))
                st.cls_rules[n] = ('plain', '!')
        elif op[0] == 'merge':
            sub_ns = {n: rule_callback(n, 'plain', '~') for n in merged_rules}
            sub_ns.update({k: tok_callback(k, '~') for k in merged_toks})
            sub = type('Sub', (base_class('Transformer'),), sub_ns)()
            sub.cfg = 's'
            try:
                merge_transformers(obj, **{op[1]: sub})
            except AttributeError:      # merged twice (a copy already has them): collision is documented
                continue
            for n in merged_rules:
                st.inst_rules['%s__%s' % (op[1], n)] = ('plain', 's', '~', n)
            for k in merged_toks:
                st.inst_toks['%s__%s' % (op[1], k)] = ('s', '~', k)
            merged = (op[1], {n: rule_tag(n, 'plain', 's', '', '~') for n in merged_rules},
                      {k: '%s~@s|%s__%s' % (k, op[1], k) for k in merged_toks})
    return obj, st, merged


def random_tree(rng, depth=0):
    x = rng.random()
    if depth >= 3 or x < 0.3 + 0.1 * depth:
        if rng.random() < 0.1:
            return None
        return ('t', rng.choice(TOK_POOL), rng.choice(['1', '2']))
    return ('T', rng.choice(RULE_POOL[:5]), tuple(random_tree(rng, depth + 1) for _ in range(rng.choice([0, 1, 2, 2, 3]))))


def ref_value(t, rt, tt, vt):
    if t is None:
        return None
    if t[0] == 't':
        return ('U', tt[t[1]], (t,)) if (vt and t[1] in tt) else t
    ch = tuple(ref_value(c, rt, tt, vt) for c in t[2])
    return ('U', rt[t[1]], ch) if t[1] in rt else ('T', t[1], ch)


def names_of(t, rules=None, toks=None):
    rules = set() if rules is None else rules
    toks = set() if toks is None else toks
    if t is not None:
        if t[0] == 't':
            toks.add(t[1])
        else:
            rules.add(t[1])
            for c in t[2]:
                names_of(c, rules, toks)
    return rules, toks


def tag_lit(d):
    return '(%s : list (string * string))' % L(['(%s, %s)' % (S(k), S(v)) for k, v in d.items()])


HIST_GRAMMARS = [
    ('start: a b m__a\na: A\nb: B a c\nc: \nm__a: A B\nA: "a"\nB: "b"\n', ['abaab']),
    ('start: (x | m__c)+\n?x: A -> a\n | B x -> b\nm__c: "(" start ")"\nA: "a"\nB: "b"\n', ['aba', '(a)ba(bba)']),
    ('start: _l ";" N\n_l: (a ",")*\na: N | "[" c "]"\nc: A?\nA: "a"\nN: /[0-9]/\n', ['1,[a],[],;2']),
]


def variants_hist_bad(w):
    """witness -> description of the failure or None"""
    t = _tup(w['tree'])
    hist = [tuple(o) for o in w['hist']]
    vals = []
    for b in BASES:
        try:
            obj, st, _ = build(b, w['rules'], w['toks'], w['variant'], hist, lambda: sl.to_lark(t), RULE_POOL, TOK_POOL)
            vals.append((sl.value_of(obj.transform(sl.to_lark(t))), st))
        except Exception as ex:
            return '%s raised %r' % (b, ex)
    st = vals[0][1]
    rn, tn = names_of(t)
    rt, tt = st.tags(rn, tn)
    want = ref_value(t, rt, tt, st.vt)
    for b, (v, _) in zip(BASES, vals):
        if v != want:
            return ('%s on an object with history %s returns %s; for the attributes the object has now the documented '
                    'result is %s' % (b, w['hname'], sl.show_v(v), sl.show_v(want)))
    return None


def embedded_hist_bad(w):
    from lark import Lark
    hist = [tuple(o) for o in w['hist']]
    kw = dict(parser='lalr', lexer=w.get('lexer', 'contextual'))
    plain = Lark(w['grammar'], **kw)
    tree = plain.parse(w['text'])
    t = sl.stree_of(tree)
    all_rules = sorted({r.origin.name for r in plain.rules if not r.origin.name.startswith('_')} |
                       {r.alias for r in plain.rules if r.alias})
    all_toks = sorted(x.name for x in plain.terminals if not x.name.startswith('__'))
    try:
        obj, st, _ = build(w['base'], w['rules'], w['toks'], w['variant'], hist, lambda: plain.parse(w['text']), all_rules, all_toks)
    except Exception as ex:
        return 'building the history raised %r' % (ex,)
    res = {}
    for order in (('embedded', 'afterwards'), ('afterwards', 'embedded')):
        for what in order:
            try:
                if what == 'embedded':
                    v = sl.value_of(Lark(w['grammar'], transformer=obj, **kw).parse(w['text']))
                else:
                    v = sl.value_of(obj.transform(plain.parse(w['text'])))
            except Exception as ex:
                v = ('exc', repr(ex)[:160])
            res.setdefault(what, v)
            if res[what] != v:
                return '%s gives %s and then %s on the same object' % (what, sl.show_v(res[what]), sl.show_v(v))
    rn, tn = names_of(t)
    rt, tt = st.tags(rn, tn)
    want = ref_value(t, rt, tt, st.vt)
    if res['embedded'] != res['afterwards']:
        return 'object with history %s: embedded gives %s, transforming afterwards gives %s' % (
            w['hname'], sl.show_v(res['embedded']), sl.show_v(res['afterwards']))
    if res['embedded'] != want:
        return 'object with history %s: both give %s; for the attributes the object has now the documented result is %s' % (
            w['hname'], sl.show_v(res['embedded']), sl.show_v(want))
    return None


def history_stream(ctx, deferred):
    """appends (coq term, (kind, witness)) to deferred"""
    from lark import Lark
    rng = ctx.rng
    ntree = ctx.scale(5, 25) * (3 if ctx.widen else 1)
    trees = []
    for _ in range(ntree):
        t = ('T', 'start', tuple(random_tree(rng, 1) for _ in range(rng.choice([1, 2, 3, 4]))))
        rules = [n for n in RULE_POOL if not n.startswith('m__') and rng.random() < 0.6]
        toks = [k for k in TOK_POOL if rng.random() < 0.6]
        trees.append((t, rules, toks, rng.choice(['plain', 'inline', 'tree', 'mixed'])))
    nbad = 0
    for hname, hist in HISTORIES:
        for t, rules, toks, variant in trees:
            w = {'hist_kind': 'variants', 'hname': hname, 'hist': [list(o) for o in hist], 'tree': t, 'rules': rules,
                 'toks': toks, 'variant': variant}
            bad = variants_hist_bad(w)
            ctx.count('history-variants', key=(hname, repr(t), tuple(rules), tuple(toks), variant), nontrivial=len(hist) >= 2,
                      history=hname)
            if bad:
                nbad += 1
                if nbad <= 4:
                    ctx.violation('variants-history', w, True, bad)
                continue
            # the Coq models under the symbolic transformer of the object's state NOW
            obj, st, merged = build('Transformer', rules, toks, variant, hist, lambda: sl.to_lark(t), RULE_POOL, TOK_POOL)
            rn, tn = names_of(t)
            rt, tt = st.tags(rn, tn)
            v = sl.value_of(obj.transform(sl.to_lark(t)))
            deferred.append(('(CaseHIST ((%s, %s, %s, %s, %s) : hist_case))' % (tag_lit(rt), tag_lit(tt), sl.B(st.vt), sl.stree_lit(t),
                                                                             sl.value_lit(v)), ('hist', w)))
            if merged is not None and hname == 'used-merge':
                # base state before the merge, the merged transformer's own tags, the prefix: Shape/GenTie.merge_T
                st0 = State(rules, toks, variant)
                rt0, tt0 = st0.tags(rn, tn)
                deferred.append(('(CaseMERGE ((%s, %s, %s, %s, %s, %s, %s, %s) : merge_case))' % (
                    tag_lit(rt0), tag_lit(tt0), S(merged[0]), tag_lit(merged[1]),
                    tag_lit({k: v_ for k, v_ in merged[2].items()}), sl.B(st.vt), sl.stree_lit(t), sl.value_lit(v)), ('merge', w)))
    # embedded vs afterwards on the SAME object
    grams = list(HIST_GRAMMARS)
    tried = 0
    while len(grams) < len(HIST_GRAMMARS) + ctx.scale(2, 10) and tried < 40:
        tried += 1
        G = sl.gen_grammar(rng)
        try:
            p = Lark(G.text, parser='lalr')
            texts = []
            for _ in range(6):
                try:
                    x = sl.gen_text(rng, G)
                except sl.TooDeep:
                    continue
                if len(x) <= 12:
                    p.parse(x)
                    texts.append(x)
                    break
        except Exception:
            continue
        if texts:
            grams.append((G.text, texts))
    nbad = 0
    for gtext, texts in grams:
        plain = Lark(gtext, parser='lalr')
        names = sorted({(r.alias or r.options.template_source or r.origin.name) for r in plain.rules})
        names = [n for n in names if not n.startswith('_') and not n.startswith('m__')]
        termnames = sorted(x.name for x in plain.terminals if not x.name.startswith('__'))
        for text in texts:
            for hname, hist in HISTORIES:
                rules = [n for n in names if rng.random() < 0.6]
                toks = [k for k in termnames if rng.random() < 0.5]
                w = {'hist_kind': 'embedded', 'hname': hname, 'hist': [list(o) for o in hist], 'grammar': gtext, 'text': text,
                     'rules': rules, 'toks': toks, 'variant': rng.choice(['plain', 'inline', 'tree', 'mixed']),
                     'base': rng.choice(['Transformer', 'Transformer', 'Transformer_NonRecursive', 'Transformer_InPlaceRecursive']),
                     'lexer': rng.choice(['contextual', 'basic'])}
                try:
                    bad = embedded_hist_bad(w)
                except Exception as ex:
                    bad = 'raised %r' % (ex,)
                ctx.count('history-embedded', key=(hname, gtext, text, tuple(rules), tuple(toks), w['variant'], w['base']),
                          nontrivial=len(hist) >= 2, history=hname)
                if bad:
                    nbad += 1
                    if nbad <= 4:
                        ctx.violation('embedded-vs-posthoc-history', w, True, bad)


# ---- v_args adapters against Shape/VArgs.v -----------------------------------------------------------------------------
def vargs_stream(ctx, deferred):
    """lark's own adapter code on recording functions: Transformer._call_userfunc (post-hoc) and
    parse_tree_builder.apply_visit_wrapper / inplace_transformer (embedded, as create_callback applies them), for the five
    wrapper kinds and undecorated callbacks; the recorded call shape must be the one of Shape/VArgs.v"""
    from lark import Tree, Token, v_args, Transformer
    from lark.visitors import Transformer_InPlace
    from lark.tree import Meta
    from lark import parse_tree_builder as ptb
    rng = ctx.rng
    kinds = {'plain': None, 'inline': dict(inline=True), 'tree': dict(tree=True), 'meta': dict(meta=True),
             'meta_inline': dict(meta=True, inline=True), 'custom': 'custom'}

    def classify(args):
        # children are Tokens / None only, so the call shapes are unambiguous
        if len(args) == 1 and isinstance(args[0], list):
            return ('list', '', list(args[0]))
        if len(args) == 1 and isinstance(args[0], Tree):
            return ('tree', str(args[0].data), list(args[0].children))
        if args and isinstance(args[0], Meta):
            if len(args) == 2 and isinstance(args[1], list):
                return ('meta', '', list(args[1]))
            return ('metastar', '', list(args[1:]))
        if len(args) >= 1 and args[0] == ('custom',):
            return ('custom', str(args[1]), list(args[2]))
        return ('star', '', list(args))

    def val(rec):
        if rec is None:
            return None
        kind, data, ch = rec
        return ('U', '%s:%s' % (kind, data), tuple(sl.value_of(c) for c in ch))
    for kind, spec in kinds.items():
        for rep in range(ctx.scale(4, 12)):
            n = rng.choice([0, 1, 1, 2, 3])
            children = [rng.choice([None, Token('A', '1'), Token('B', '2')]) for _ in range(n)]
            name = rng.choice(['a', 'b', 'x__y'])
            rec = []

            def f(self, *args):
                rec.append(classify(args))
                return rec[-1]
            f.__name__ = 'fn_' + name
            if spec == 'custom':
                g = v_args(wrapper=lambda fn, data, ch, meta: fn(('custom',), data, ch))(f)
            elif spec is None:
                g = f
            else:
                g = v_args(**spec)(f)
            results = {}
            for base in (Transformer, Transformer_InPlace):
                T = type('V', (base,), {name: g})()
                # post-hoc: the real _call_userfunc on a node named `name`
                del rec[:]
                try:
                    T._call_userfunc(Tree(name, list(children)), list(children))
                    post = rec[-1]
                except Exception as ex:
                    post = ('exc', type(ex).__name__, [])
                # embedded: what create_callback does with getattr(transformer, name)
                del rec[:]
                try:
                    fn = getattr(T, name)
                    wrapper = getattr(fn, 'visit_wrapper', None)
                    if wrapper is not None:
                        fn2 = ptb.apply_visit_wrapper(fn, name, wrapper)
                    elif isinstance(T, Transformer_InPlace):
                        fn2 = ptb.inplace_transformer(fn)
                    else:
                        fn2 = fn
                    fn2(list(children))
                    emb = rec[-1]
                except NotImplementedError:
                    emb = None
                except Exception as ex:
                    emb = ('exc', type(ex).__name__, [])
                results[base.__name__] = (post, emb)
            ctx.count('vargs-adapters', key=(kind, name, repr(children)), nontrivial=n >= 1, wrapper=kind)
            (post, emb), (post_ip, emb_ip) = results['Transformer'], results['Transformer_InPlace']
            w = {'vargs': kind, 'name': name, 'children': [sl.value_of(c) for c in children]}
            if post != post_ip:
                ctx.violation('correspondence:v_args adapters', dict(w, no_longer_checks='_call_userfunc call shape independent of the class'),
                              False, 'post-hoc call shape differs between Transformer and Transformer_InPlace')
                continue
            opt = lambda r: 'None' if r is None else '(Some %s)' % sl.value_lit(val(r))
            deferred.append(('(CaseVARGS ((%s, %s, %s, %s, %s, %s, %s) : vargs_case))' % (
                S(kind), S(name), S('fn_' + name), L([sl.value_lit(sl.value_of(c)) for c in children]),
                sl.value_lit(val(post)), opt(emb), opt(emb_ip)), ('vargs', w)))


# ---- DAG-shaped inputs against Shape/InPlaceDag.v ---------------------------------------------------------------------------
def dag_lit(objs):
    """objs: list of (name, [child]) with child = ('ref', addr) | ('t', ty, v) | None"""
    def slot(c):
        if c is None:
            return 'XNone'
        if c[0] == 'ref':
            return '(XRef %d)' % c[1]
        return '(XTok %s %s)' % (S(c[1]), S(c[2]))
    return L(['(%s, %s)' % (S(n), L([slot(c) for c in ch])) for n, ch in objs])


def random_dag(rng, nobj, tree_shaped=False):
    """object 0 is the root; object i may only reference objects > i (acyclic); every object is reachable"""
    objs = []
    parents = {}
    for i in range(nobj):
        objs.append([rng.choice(['a', 'b', 'c', 'start'][:3]) if i else 'start', []])
    for j in range(1, nobj):
        k = 1 if tree_shaped else rng.choice([1, 1, 2, 3])
        for p in rng.sample(range(j), min(k, j)):
            parents.setdefault(j, []).append(p)
    for j, ps in parents.items():
        for p in ps:
            for _ in range(1 if tree_shaped else rng.choice([1, 1, 2])):
                objs[p][1].insert(rng.randrange(len(objs[p][1]) + 1), ('ref', j))
    for o in objs:
        for _ in range(rng.choice([0, 1, 1, 2])):
            leaf = rng.choice([None, ('t', 'A', '1'), ('t', 'B', '2')])
            o[1].insert(rng.randrange(len(o[1]) + 1), leaf)
    return [(n, ch) for n, ch in objs]


def dag_to_lark(objs):
    from lark import Tree, Token
    built = {}

    def mk(i):
        if i not in built:
            n, ch = objs[i]
            t = Tree(n, [])
            built[i] = t
            t.children = [None if c is None else (mk(c[1]) if c[0] == 'ref' else Token(c[1], c[2])) for c in ch]
        return built[i]
    return mk(0)


def dag_value(x, seen=()):
    """final value, Tree objects inside user values read in their FINAL state"""
    from lark import Tree, Token
    if x is None:
        return None
    if isinstance(x, Token):
        return ('t', str(x.type), str(x))
    if isinstance(x, Tree):
        return ('T', str(x.data), tuple(dag_value(c) for c in x.children))
    if isinstance(x, tuple) and len(x) == 2 and isinstance(x[0], str):
        return ('U', x[0], tuple(dag_value(c) for c in x[1]))
    raise sl.NotShaped(repr(x)[:80])


def dag_unfold(objs, i=0):
    n, ch = objs[i]
    return ('T', n, tuple(None if c is None else (dag_unfold(objs, c[1]) if c[0] == 'ref' else c) for c in ch))


def dag_case(objs, rules, toks, vt):
    """run the two in-place classes and the two copying classes on the DAG; -> (values by class, order of iter_subtrees)"""
    import props.C16 as c16
    vals = {}
    order = None
    for b in BASES:
        root = dag_to_lark(objs)
        if order is None:
            ids = {}

            def walk(t, i):
                ids[id(t)] = i
                for c, s in zip(t.children, objs[i][1]):
                    if s is not None and s[0] == 'ref':
                        walk(c, s[1])
            walk(root, 0)
            order = [ids[id(s)] for s in root.iter_subtrees()]
        T = c16.make_T(b, rules, toks, 'plain', None, 'default' if vt else 'kw_false')
        try:
            vals[b] = dag_value(c16.instantiate(T, 'default' if vt else 'kw_false').transform(root))
        except Exception as ex:
            vals[b] = ('exc', repr(ex)[:120])
    return vals, order


def dag_stream(ctx, deferred):
    import props.C16 as c16
    rng = ctx.rng
    fixed = [
        # F31: start[a[sh], sh]
        [('start', [('ref', 1), ('ref', 2)]), ('a', [('ref', 2)]), ('b', [('t', 'A', '1')])],
        # a shared leaf-tree referenced twice by one parent
        [('start', [('ref', 1), ('ref', 1)]), ('b', [('t', 'A', '1')])],
        # diamond
        [('start', [('ref', 1), ('ref', 2)]), ('a', [('ref', 3)]), ('b', [('ref', 3)]), ('c', [('t', 'B', '2'), None])],
        # grandchild also a direct child, listed first
        [('start', [('ref', 2), ('ref', 1)]), ('a', [('ref', 2), ('t', 'A', '1')]), ('c', [('ref', 3)]), ('b', [])],
    ]
    cases = [(o, False) for o in fixed]
    for _ in range(ctx.scale(40, 300)):
        cases.append((random_dag(rng, rng.randint(2, 6)), False))
    for _ in range(ctx.scale(15, 100)):
        cases.append((random_dag(rng, rng.randint(2, 6), tree_shaped=True), True))
    for objs, tree_shaped in cases:
        rules = [n for n in ['a', 'b', 'c', 'start'] if rng.random() < 0.6]
        toks = [k for k in ['A', 'B'] if rng.random() < 0.6]
        vt = rng.random() < 0.8
        vals, order = dag_case(objs, rules, toks, vt)
        rtags, ttags = c16.tags_of(rules, toks)
        unf = dag_unfold(objs)
        want = c16.ref_value(unf, rtags, ttags, vt)
        shared = len({c[1] for _, ch in objs for c in ch if c is not None and c[0] == 'ref'}) < \
            sum(1 for _, ch in objs for c in ch if c is not None and c[0] == 'ref')
        ctx.count('dag-coq', key=(repr(objs), tuple(rules), tuple(toks), vt), nontrivial=True, shared=shared,
                  inplace_differs=vals['Transformer_InPlace'] != vals['Transformer'])
        w = {'dag': [[n, [list(c) if c is not None else None for c in ch]] for n, ch in objs], 'rules': rules, 'toks': toks, 'vt': vt}
        # the property itself on DAGs, for the three classes that do not rely on iter_subtrees (F31 is Transformer_InPlace)
        for b in ('Transformer', 'Transformer_NonRecursive', 'Transformer_InPlaceRecursive'):
            if vals[b] != want:
                ctx.violation('variants-dag', dict(w, base=b), True,
                              '%s on a DAG-shaped input returns %s; the documented result (the DAG read as a tree) is %s'
                              % (b, sl.show_v(vals[b]), sl.show_v(want)))
                break
        if not shared and vals['Transformer_InPlace'] != want:
            ctx.violation('variants-dag', dict(w, base='Transformer_InPlace'), True,
                          'Transformer_InPlace on a tree-shaped input returns %s; documented %s'
                          % (sl.show_v(vals['Transformer_InPlace']), sl.show_v(want)))
        v = vals['Transformer_InPlace']
        if v is not None and v[0] == 'exc':
            continue
        deferred.append(('(CaseDAG ((%s, %s, %s, %s, %s, %s, %s) : dag_case))' % (
            tag_lit(rtags), tag_lit(ttags), sl.B(vt), dag_lit(objs), L([str(i) for i in order]),
            sl.value_lit(v), sl.value_lit(vals['Transformer_InPlaceRecursive'])), ('dag', w)))


def dag_bad(w):
    import props.C16 as c16
    objs = [(n, [tuple(c) if c is not None else None for c in ch]) for n, ch in w['dag']]
    vals, _ = dag_case(objs, w['rules'], w['toks'], w['vt'])
    want = c16.ref_value(dag_unfold(objs), *c16.tags_of(w['rules'], w['toks']), w['vt'])
    return vals[w['base']] != want


def _tup(t):
    if t is None:
        return None
    if t[0] == 't':
        return ('t', t[1], t[2])
    return ('T', t[1], tuple(_tup(c) for c in t[2]))
