"""Shared machinery for the /verif checks (see DESIGN.md section 0 and 7).

A property module (harness/props/Cxx.py) provides:

    THEOREMS   : list of theorem names that must appear in coq/Props/Cxx.v
    GEN_DEPS   : list of translator outputs (Gen/*.v stems) the property relies on
    def correspond(ctx)        -> runs the model-vs-implementation streams; uses
                                  ctx.coq_cases / ctx.count / ctx.disagree / ctx.violation
    def replay(ctx, case)      -> bool  (True = the violation reproduces on /repo)

The driver (check.py) does the rest: regeneration, Coq build, Print Assumptions,
forbidden-token scan, known-findings filter, evidence, VIOLATION lines.
"""
import fcntl
import hashlib
import json
import os
import random
import re
import shutil
import subprocess
import sys
import tempfile
import time

VERIF = os.path.dirname(os.path.dirname(os.path.abspath(__file__)))
REPO = os.environ.get('VERIF_REPO', '/repo')
COQ = os.path.join(VERIF, 'coq')
COQ_LOGICAL = 'LV'
NCPU = int(os.environ.get("VERIF_NCPU") or os.cpu_count() or 4)

FORBIDDEN = re.compile(
    r'\b(Admitted|admit|Axiom|Axioms|Parameter|Parameters|Conjecture|Conjectures|'
    r'bypass_check|Admit Obligations)\b|Unset\s+Guard|Unset\s+Positivity|Unset\s+Universe|'
    r'type-in-type|impredicative-set')


def sh(cmd, timeout=None, cwd=None, env=None, input=None):
    """Run a command, return (rc, stdout+stderr). rc=124 on timeout."""
    try:
        p = subprocess.run(cmd, shell=isinstance(cmd, str), cwd=cwd, env=env, input=input,
                           stdout=subprocess.PIPE, stderr=subprocess.STDOUT, timeout=timeout,
                           text=True)
        return p.returncode, p.stdout
    except subprocess.TimeoutExpired as e:
        out = e.stdout or ''
        if isinstance(out, bytes):
            out = out.decode('utf8', 'replace')
        return 124, out + '\n[timeout after %ss]' % timeout


class CoqLock:
    def __enter__(self):
        self.f = open(os.path.join(COQ, '.lock'), 'w')
        fcntl.flock(self.f, fcntl.LOCK_EX)
        return self

    def __exit__(self, *a):
        fcntl.flock(self.f, fcntl.LOCK_UN)
        self.f.close()


def coq_files():
    out = []
    for d, _, fs in os.walk(COQ):
        for f in fs:
            if f.endswith('.v'):
                out.append(os.path.relpath(os.path.join(d, f), COQ))
    return sorted(out)


def write_coqproject():
    txt = '-Q . %s\n' % COQ_LOGICAL + '\n'.join(coq_files()) + '\n'
    p = os.path.join(COQ, '_CoqProject')
    old = open(p).read() if os.path.exists(p) else None
    if old != txt:
        open(p, 'w').write(txt)
        return True
    return False


def regenerate():
    """Run the translator against REPO. Returns dict stem -> (ok, message)."""
    sys.path.insert(0, os.path.join(VERIF, 'translator'))
    import gen
    return gen.regenerate(REPO, os.path.join(COQ, 'Gen'))


def build_coq(targets=None, timeout=1500):
    """Full .vo build of the Coq project (incremental). Returns (ok, log, failed_files)."""
    with CoqLock():
        changed = write_coqproject()
        if changed or not os.path.exists(os.path.join(COQ, 'Makefile.coq')):
            rc, out = sh('coq_makefile -f _CoqProject -o Makefile.coq', cwd=COQ, timeout=120)
            if rc != 0:
                return False, out, ['_CoqProject']
        tg = ' '.join(targets) if targets else ''
        rc, out = sh('make -f Makefile.coq -k -j%d %s' % (NCPU, tg), cwd=COQ, timeout=timeout)
        open(os.path.join(COQ, '.build.log'), 'w').write(out)
        failed = sorted(set(re.findall(r'^File "\./([^"]+)", line \d+.*?:\s*\n(?:.*\n)*?Error', out, re.M)))
        failed += [m for m in re.findall(r'\*\*\* \[[^\]]*?: ([\w/]+\.vo)\]', out) if m not in failed]
        return rc == 0, out, failed


def vo_uptodate(stem):
    v = os.path.join(COQ, stem + '.v')
    vo = os.path.join(COQ, stem + '.vo')
    return os.path.exists(vo) and os.path.getmtime(vo) >= os.path.getmtime(v)


def scan_forbidden():
    hits = []
    for f in coq_files():
        txt = open(os.path.join(COQ, f)).read()
        # strip comments (non-nested is enough for our sources; nested handled by loop)
        prev = None
        while prev != txt:
            prev = txt
            txt = re.sub(r'\(\*[^*(]*(?:\*(?!\))[^*(]*|\((?!\*)[^*(]*)*\*\)', ' ', txt)
        for i, line in enumerate(txt.split('\n'), 1):
            if FORBIDDEN.search(line):
                hits.append('%s:%d:%s' % (f, i, line.strip()[:80]))
            if re.match(r'\s*(Variable|Variables|Hypothesis|Hypotheses|Context)\b', line):
                # must be inside a Section: checked coarsely by counting Section/End
                pass
    return hits


def section_free_variables():
    """Variable/Hypothesis outside a Section would declare an axiom: reject."""
    hits = []
    for f in coq_files():
        depth = 0
        for i, line in enumerate(open(os.path.join(COQ, f)), 1):
            s = line.strip()
            if re.match(r'(Section|Module Type)\b', s):
                depth += 1
            elif re.match(r'End\b', s) and depth > 0:
                depth -= 1
            elif re.match(r'(Variable|Variables|Hypothesis|Hypotheses|Context)\b', s) and depth == 0:
                hits.append('%s:%d:%s' % (f, i, s[:80]))
    return hits


def props_assumptions(prop):
    """(Re)compile Props/<prop>.v capturing Print Assumptions output.
    Returns (ok, {theorem: assumptions_text}, raw)."""
    with CoqLock():
        rc, out = sh(['coqc', '-Q', '.', COQ_LOGICAL, 'Props/%s.v' % prop], cwd=COQ, timeout=600)
    if rc != 0:
        return False, {}, out
    res = {}
    # our Props files print a marker before each Print Assumptions:  Check <name>.  -> "<name>\n : type"
    # simpler: sequential blocks "Closed under the global context" / "Axioms:\n..." in order of Print Assumptions
    blocks = re.split(r'(?m)^(?=Closed under the global context|Axioms:|Section Variables:)', out)
    blocks = [b.strip() for b in blocks if b.strip() and re.match(r'Closed under|Axioms:|Section Variables:', b.strip())]
    src = open(os.path.join(COQ, 'Props', prop + '.v')).read()
    names = re.findall(r'Print Assumptions\s+([\w\.]+)\s*\.', src)
    for n, b in zip(names, blocks):
        res[n] = b
    if len(names) != len(blocks):
        res['__mismatch__'] = 'Print Assumptions count %d vs blocks %d' % (len(names), len(blocks))
    return True, res, out


def theorem_names(prop):
    src = open(os.path.join(COQ, 'Props', prop + '.v')).read()
    return re.findall(r'(?m)^\s*(?:Theorem|Lemma|Corollary|Example)\s+(\w+)', src)


def coq_term_str(s):
    """Python str (ASCII) -> Coq term of type string; non-printable characters are spelled
    with their decimal ascii codes so that the generated file stays plain text."""
    segs = []      # list of ('lit', text) | ('chr', code)
    for ch in s:
        o = ord(ch)
        if o > 255:
            raise ValueError('non-latin1 character in model string')
        if 32 <= o < 127:
            if segs and segs[-1][0] == 'lit':
                segs[-1] = ('lit', segs[-1][1] + ch)
            else:
                segs.append(('lit', ch))
        else:
            segs.append(('chr', o))
    acc = None
    for kind, v in reversed(segs):
        if kind == 'lit':
            lit = '"' + v.replace('"', '""') + '"%string'
            acc = lit if acc is None else '(append %s %s)' % (lit, acc)
        else:
            acc = '(String "%03d"%%char %s)' % (v, acc if acc is not None else 'EmptyString')
    return acc if acc is not None else 'EmptyString'


def coq_Z(n):
    return '(%d)%%Z' % n


def coq_nat(n):
    return '%d%%nat' % n


def coq_list(items):
    return '[' + '; '.join(items) + ']'


class Ctx:
    def __init__(self, prop, tier, seed):
        self.prop = prop
        self.tier = tier
        self.seed = seed
        self.rng = random.Random((seed << 8) ^ int(hashlib.sha1(prop.encode()).hexdigest()[:6], 16))
        self.t0 = time.time()
        self.scratch = tempfile.mkdtemp(prefix='lv_%s_' % prop, dir=os.environ.get('VERIF_SCRATCH', '/var/tmp'))
        self.evaluations = 0
        self.nontrivial = set()
        self.histo = {}
        self.samples = []
        self.violations = []      # dicts
        self.known_hits = []
        self.notes = []
        self.streams = {}
        self.coq_case_files = 0
        self.coq_cases_checked = 0
        self.assumptions = []
        self.extra = {}

    # ---- bookkeeping -------------------------------------------------
    def thorough(self):
        return self.tier == 'thorough'

    def scale(self, quick, thorough):
        return thorough if self.thorough() else quick

    def count(self, stream, key=None, nontrivial=True, **hist):
        self.evaluations += 1
        self.streams[stream] = self.streams.get(stream, 0) + 1
        if nontrivial and key is not None:
            self.nontrivial.add(hashlib.sha1(repr((stream, key)).encode()).hexdigest()[:16])
        for k, v in hist.items():
            h = self.histo.setdefault(k, {})
            h[str(v)] = h.get(str(v), 0) + 1

    def sample(self, obj, limit=6):
        if len(self.samples) < limit:
            self.samples.append(obj)

    def cleanup(self):
        shutil.rmtree(self.scratch, ignore_errors=True)

    # ---- Coq evaluation of the model on the harness's cases ------------
    def coq_run(self, name, text, timeout=900):
        """Compile a generated .v in scratch against the built project; returns (rc, out)."""
        p = os.path.join(self.scratch, name + '.v')
        open(p, 'w').write(text)
        rc, out = sh('ulimit -s unlimited 2>/dev/null; coqc -Q %s %s %s' % (COQ, COQ_LOGICAL, p),
                     cwd=self.scratch, timeout=timeout)
        self.coq_case_files += 1
        return rc, out

    def coq_bad_indices(self, name, imports, check_fn, cases, chunk=400, extra_defs=''):
        """cases: list of Coq terms (strings). check_fn: Coq term of type case -> bool, true = model agrees
        with the implementation's recorded observation.  Returns (list of failing indices, errors)."""
        bad, errs = [], []
        jobs = []
        for k in range(0, len(cases), chunk):
            part = cases[k:k + chunk]
            txt = ('%s\nFrom Coq Require Import List String Ascii ZArith NArith Bool.\nImport ListNotations.\n'
                   'Open Scope string_scope.\n%s\n'
                   'Definition lv_check := %s.\n'
                   'Definition lv_cases := %s.\n'
                   'Fixpoint lv_bad {A} (f : A -> bool) (i : nat) (l : list A) : list nat :=\n'
                   '  match l with [] => [] | x :: r => if f x then lv_bad f (S i) r else i :: lv_bad f (S i) r end.\n'
                   'Definition lv_result := Eval vm_compute in lv_bad lv_check 0%%nat lv_cases.\n'
                   'Print lv_result.\n') % (imports, extra_defs, check_fn, '[\n' + ';\n'.join(part) + '\n]')
            jobs.append((k, '%s_%d' % (name, k), txt))
        # run chunks in parallel
        from concurrent.futures import ThreadPoolExecutor
        with ThreadPoolExecutor(max_workers=min(NCPU, max(1, len(jobs)))) as ex:
            results = list(ex.map(lambda j: (j[0],) + self.coq_run(j[1], j[2]), jobs))
        for k, rc, out in results:
            flat = ' '.join(out.split())
            m = re.search(r'lv_result = (\[[^\]]*\])', flat)
            if rc != 0 or not m:
                errs.append('chunk %d rc=%d: %s' % (k, rc, out[-800:]))
                continue
            for n in re.findall(r'\d+', m.group(1)):
                bad.append(k + int(n))
        self.coq_cases_checked += len(cases)
        return sorted(bad), errs

    def coq_eval(self, name, imports, term, timeout=600):
        """Evaluate one closed term by vm_compute and return Coq's printed value (flattened)."""
        txt = ('%s\nFrom Coq Require Import List String Ascii ZArith NArith Bool.\nImport ListNotations.\n'
               'Open Scope string_scope.\nDefinition lv_result := Eval vm_compute in (%s).\nPrint lv_result.\n'
               % (imports, term))
        rc, out = self.coq_run(name, txt, timeout)
        if rc != 0:
            return None, out
        flat = ' '.join(out.split())
        m = re.search(r'lv_result = (.*) : ', flat)
        return (m.group(1) if m else None), out

    # ---- violations ----------------------------------------------------
    def violation(self, stage, witness, found, detail='', key=None):
        """Register a violation. found=True: witness is a concrete failing input/history of the property
        on the implementation. found=False: a proof obligation / correspondence broke and the search found
        no failing input (reported with no-failing-input-found)."""
        self.nviol = getattr(self, 'nviol', 0) + 1
        if len(self.violations) < 40 or key is not None:
            self.violations.append(dict(stage=stage, witness=witness, found=bool(found), detail=detail, key=key))

    def note(self, s):
        self.notes.append(s)


def load_known():
    p = os.path.join(VERIF, 'KNOWN_FINDINGS.json')
    if not os.path.exists(p):
        return []
    return json.load(open(p)).get('findings', [])


def canon(obj):
    return json.dumps(obj, sort_keys=True, default=repr)


def match_known(prop, v, known):
    """A violation matches a listed finding only by its exact witness key (see KNOWN_FINDINGS.json)."""
    if not v.get('found') or v.get('key') is None:
        return None
    for k in known:
        if k.get('status') == 'finding' and k.get('property') == prop and v['key'] in k.get('witness_keys', []):
            return k
    return None


def write_replay(prop, v):
    d = os.path.join(VERIF, 'replays', prop)
    os.makedirs(d, exist_ok=True)
    body = dict(property=prop, stage=v['stage'], witness=v['witness'], detail=v['detail'],
                failing_input_found=v['found'], key=v.get('key'))
    h = hashlib.sha1(canon(body).encode()).hexdigest()[:12]
    p = os.path.join(d, h + '.json')
    json.dump(body, open(p, 'w'), indent=1, default=repr)
    return p
