"""Small CFG toolkit used by the C08 harness (independent of lark and of the Coq models):
random grammars, a plain saturation Earley recogniser, productivity, viable prefixes."""


def gen_cfg(rng, nnt=None, nt_max=4, t_max=3, alts_max=3, len_max=3, nullable=0.25):
    """returns (rules, terminals) with rules: list of (lhs:str, rhs: tuple of symbols); non-terminals 'start','n1'.., terminals 'A','B',.."""
    nnt = nnt or rng.randint(1, nt_max)
    nts = ['start'] + ['n%d' % i for i in range(1, nnt)]
    ts = [chr(ord('A') + i) for i in range(rng.randint(1, t_max))]
    rules = []
    for a in nts:
        alts = set()
        for _ in range(rng.randint(1, alts_max)):
            if rng.random() < nullable:
                alts.add(())
                continue
            n = rng.randint(1, len_max)
            alts.add(tuple(rng.choice(nts if rng.random() < 0.4 else ts) for _ in range(n)))
        for rhs in sorted(alts):
            rules.append((a, rhs))
    return rules, ts


def to_lark(rules, ts, chars=None):
    chars = chars or {t: t.lower() for t in ts}
    by = {}
    for a, rhs in rules:
        by.setdefault(a, []).append(' '.join(rhs) if rhs else '')
    lines = []
    for a, alts in by.items():
        lines.append('%s: %s' % (a, '\n  | '.join(alts)))
    for t in ts:
        lines.append('%s: "%s"' % (t, chars[t]))
    return '\n'.join(lines) + '\n'


def productive(rules, ts):
    prod = set(ts)
    changed = True
    while changed:
        changed = False
        for a, rhs in rules:
            if a not in prod and all(s in prod for s in rhs):
                prod.add(a)
                changed = True
    return prod


def reachable(rules, start='start'):
    seen = {start}
    todo = [start]
    while todo:
        a = todo.pop()
        for l, rhs in rules:
            if l == a:
                for s in rhs:
                    if s not in seen:
                        seen.add(s)
                        todo.append(s)
    return seen


def earley_columns(rules, toks, start='start'):
    """plain saturation Earley; returns list of item sets (rule index, dot, origin) per position, stopping when empty"""
    nts = {a for a, _ in rules}
    cols = []
    cur = {(i, 0, 0) for i, (a, _) in enumerate(rules) if a == start}
    for k in range(len(toks) + 1):
        col = set(cur)
        todo = list(col)
        while todo:
            (ri, d, j) = todo.pop()
            a, rhs = rules[ri]
            if d < len(rhs):
                s = rhs[d]
                if s in nts:
                    for i2, (a2, rhs2) in enumerate(rules):
                        if a2 == s:
                            it = (i2, 0, k)
                            if it not in col:
                                col.add(it)
                                todo.append(it)
                    # nullable completion already in this column
                    for (ri2, d2, j2) in list(col):
                        if j2 == k and rules[ri2][0] == s and d2 == len(rules[ri2][1]):
                            it = (ri, d + 1, j)
                            if it not in col:
                                col.add(it)
                                todo.append(it)
            else:
                src = cols[j] if j < k else col
                for (ri2, d2, j2) in list(src):
                    rhs2 = rules[ri2][1]
                    if d2 < len(rhs2) and rhs2[d2] == a:
                        it = (ri2, d2 + 1, j2)
                        if it not in col:
                            col.add(it)
                            todo.append(it)
        cols.append(col)
        if k < len(toks):
            cur = {(ri, d + 1, j) for (ri, d, j) in col
                   if d < len(rules[ri][1]) and rules[ri][1][d] == toks[k]}
            if not cur:
                break
    return cols


def accepts(rules, toks, start='start'):
    cols = earley_columns(rules, toks, start)
    if len(cols) != len(toks) + 1:
        return False
    return any(rules[ri][0] == start and d == len(rules[ri][1]) and j == 0 for (ri, d, j) in cols[-1])


def prune_unproductive(rules, ts):
    prod = productive(rules, ts)
    return [(a, rhs) for a, rhs in rules if a in prod and all(s in prod for s in rhs)]


def viable_len(rules, ts, toks, start='start'):
    """length of the longest viable prefix of toks (a prefix that can be extended to a sentence)"""
    pr = prune_unproductive(rules, ts)
    if not any(a == start for a, _ in pr):
        return -1      # empty language: not even the empty prefix is viable
    cols = earley_columns(pr, toks, start)
    return len(cols) - 1


def next_terminals(rules, ts, toks, start='start'):
    """terminals t such that toks + [t] is a viable prefix (toks itself must be viable)"""
    pr = prune_unproductive(rules, ts)
    cols = earley_columns(pr, toks, start)
    if len(cols) != len(toks) + 1:
        return None
    out = set()
    for (ri, d, j) in cols[-1]:
        rhs = pr[ri][1]
        if d < len(rhs) and rhs[d] in ts:
            out.add(rhs[d])
    return out


def can_end(rules, ts, toks, start='start'):
    return accepts(rules, toks, start)


def gen_context_cfg(rng):
    """Grammars where one non-terminal is used in several left/right contexts through chains of unit rules:
    the LALR(1) look-ahead sets of the inner reductions are merged over the contexts, so an erroneous token may be
    noticed only after several reductions."""
    ts = ['A', 'B', 'C', 'D', 'E']
    depth = rng.randint(1, 3)
    chain = ['n%d' % i for i in range(1, depth + 1)]
    rules = []
    nctx = rng.randint(2, 3)
    used = set()
    for i in range(nctx):
        l = rng.choice(ts[:3])
        r = rng.choice(ts[1:])
        if (l, r) in used:
            continue
        used.add((l, r))
        if rng.random() < 0.3:
            rules.append(('start', (l, chain[0], r, rng.choice(ts))))
        else:
            rules.append(('start', (l, chain[0], r)))
    for a, b in zip(chain, chain[1:]):
        rules.append((a, (b,)))
        if rng.random() < 0.3:
            rules.append((a, (b, rng.choice(ts))))
    leaf = chain[-1]
    # a second non-terminal with the same body as the chain's leaf, used in other contexts: its reductions compete with
    # the chain's on merged look-aheads (errors are then noticed only after a reduction)
    x = rng.choice(ts)
    if rng.random() < 0.6:
        for (l, r) in list(used)[:2]:
            r2 = rng.choice([t for t in ts if t != r] or ts)
            rules.append(('start', (l, 'w', r2)))
        rules.append(('w', (x,)))
    rules.append((leaf, (x,)))
    if rng.random() < 0.5:
        rules.append((leaf, (rng.choice(ts), leaf)))
    rules = sorted(set(rules), key=lambda r: (r[0] != 'start', r))
    used_ts = [t for t in ts if any(t in rhs for _, rhs in rules)]
    return rules, used_ts


def gen_nullable_prefix_cfg(rng):
    """Rules of the shape  x: n1 .. nk y rest  where the n's are nullable and y is not, with terminals that only y (or
    only one of the n's) can start: after an input that stops right before x - in particular the empty input when x is
    reached from the start symbol - the terminals that can come next are reached only by advancing freshly predicted
    items over empty derivations and predicting y from there."""
    ts = ['A', 'B', 'C', 'D', 'E']
    k = rng.randint(1, 2)
    ns = ['n%d' % i for i in range(1, k + 1)]
    rules = []
    lead = tuple(rng.choice(ts[:2]) for _ in range(rng.randint(0, 2)))
    tail = (rng.choice(ts),) if rng.random() < 0.5 else ()
    rules.append(('start', lead + ('x',)))
    if rng.random() < 0.3:
        rules.append(('start', lead + (rng.choice(ts[:2]),)))
    rules.append(('x', tuple(ns) + ('y',) + tail))
    for i, n in enumerate(ns):
        t = ts[2 + i] if rng.random() < 0.7 else rng.choice(ts)
        rules.append((n, ()))
        shape = rng.choice(['one', 'rec', 'unit'])
        if shape == 'one':
            rules.append((n, (t,)))
        elif shape == 'rec':
            rules.append((n, (t, n)))
        else:
            rules.append((n, ('m%d' % i,)))
            rules.append(('m%d' % i, ()))
            rules.append(('m%d' % i, (t,)))
    ty = ts[4] if rng.random() < 0.7 else rng.choice(ts)
    rules.append(('y', (ty,)))
    if rng.random() < 0.5:
        rules.append(('y', (rng.choice(ts[3:]), 'y')))
    if rng.random() < 0.3:
        rules.append(('y', ('z1',)))
        rules.append(('z1', (rng.choice(ts), rng.choice(ts))))
    rules = sorted(set(rules), key=lambda r: (r[0] != 'start', r))
    used_ts = [t for t in ts if any(t in rhs for _, rhs in rules)]
    return rules, used_ts
