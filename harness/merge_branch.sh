#!/bin/bash
# harness/merge_branch.sh <branch> <ID>...   merge a builder branch into main, rebuild, run its checks (quick)
set -e
cd "$(dirname "$0")/.."
b=$1; shift
git merge --no-edit -X theirs "$b" || { echo "MERGE CONFLICT"; git status --short | head; exit 1; }
git checkout HEAD -- KNOWN_FINDINGS.json 2>/dev/null || true
./setup.sh | tail -2
/venv/bin/python harness/mkmanifest.py
for id in "$@"; do
  timeout 3000 ./check "$id" 2>&1 | grep -v "^  stage" | tail -6
done
