#!/bin/bash
# harness/merge_branch.sh <branch> <ID>...   merge a builder branch into main, rebuild, run its checks (quick)
set -e
cd "$(dirname "$0")/.."
b=$1; shift
git add -A; git commit -qm "wip before merge" 2>/dev/null || true
cp KNOWN_FINDINGS.json /var/tmp/kf_main.json
cp .gitignore /var/tmp/gi_main
git merge --no-edit -X theirs "$b" || { echo "MERGE CONFLICT"; git status --short | head; exit 1; }
if ! cmp -s KNOWN_FINDINGS.json /var/tmp/kf_main.json; then
  cp KNOWN_FINDINGS.json /var/tmp/kf_$b.json   # what the branch proposed (for the coordinator to read)
  cp /var/tmp/kf_main.json KNOWN_FINDINGS.json
fi
cp /var/tmp/gi_main .gitignore
git add -A; git commit -qm "merge $b: keep coordinator's KNOWN_FINDINGS.json and .gitignore" || true
./setup.sh | tail -2
/venv/bin/python harness/mkmanifest.py
for id in "$@"; do
  timeout 3000 ./check "$id" 2>&1 | grep -v "^  stage" | tail -6
done
