"""Helpers shared by harness/props/C03.py and C16.py (owned by the `shape` block).

* Coq literal emitters for the Shape/ models (sym, rrec, stree, dtree, value, wrapper chains).
* Random compiled-rule records + children lists, and invocation / introspection of lark's real
  callback objects (ParseTreeBuilder(...).create_callback()).
* A random EBNF grammar generator using every shaping feature, a renderer to lark syntax, a random
  sentence generator, and an independent oracle that enumerates all derivations of a text and shapes
  each one by the documented rules (the search oracle of C03).
"""
import copy

import lib

S = lib.coq_term_str
L = lib.coq_list
N = lib.coq_nat


def B(b):
    return 'true' if b else 'false'


def opt_str(s):
    return 'None' if s is None else '(Some %s)' % S(str(s))


# ---------------------------------------------------------------------------------------------
# compiled rules <-> Coq records
# ---------------------------------------------------------------------------------------------
def rrec_of_rule(rule):
    """dict view of a lark Rule, exactly the fields the tree builder reads"""
    o = rule.options
    return dict(origin=str(rule.origin.name),
                exp=[(bool(s.is_term), str(s.name), bool(getattr(s, 'filter_out', False))) for s in rule.expansion],
                alias=None if rule.alias is None else str(rule.alias),
                tsrc=None if o.template_source is None else str(o.template_source),
                keep_all=bool(o.keep_all_tokens), expand1=bool(o.expand1),
                empty=[bool(b) for b in (o.empty_indices or ())])


def rrec_lit(r):
    syms = L(['(mkSym %s %s %s)' % (B(t), S(n), B(f)) for t, n, f in r['exp']])
    return '(mkR %s %s %s %s %s %s %s)' % (S(r['origin']), syms, opt_str(r['alias']), opt_str(r['tsrc']),
                                           B(r['keep_all']), B(r['expand1']), L([B(b) for b in r['empty']]))


def make_rule(r):
    """lark Rule object from a record"""
    from lark.grammar import Rule, RuleOptions, Terminal, NonTerminal
    exp = [Terminal(n, f) if t else NonTerminal(n) for t, n, f in r['exp']]
    opts = RuleOptions(keep_all_tokens=r['keep_all'], expand1=r['expand1'], priority=None,
                       template_source=r['tsrc'], empty_indices=tuple(r['empty']))
    return Rule(NonTerminal(r['origin']), exp, 0, r['alias'], opts)


# ---------------------------------------------------------------------------------------------
# shaped trees: canonical python form  ('T', name, (children..)) | ('t', type, value) | None
# ---------------------------------------------------------------------------------------------
class NotShaped(Exception):
    pass


def stree_of(x):
    from lark import Tree, Token
    if x is None:
        return None
    if isinstance(x, Token):
        return ('t', str(x.type), str(x))
    if isinstance(x, Tree):
        return ('T', str(x.data), tuple(stree_of(c) for c in x.children))
    raise NotShaped(repr(x)[:80])


def to_lark(t):
    from lark import Tree, Token
    if t is None:
        return None
    if t[0] == 't':
        return Token(t[1], t[2])
    return Tree(t[1], [to_lark(c) for c in t[2]])


def stree_lit(t):
    if t is None:
        return 'NoneV'
    if t[0] == 't':
        return '(Tok %s %s)' % (S(t[1]), S(t[2]))
    return '(Tr %s %s)' % (S(t[1]), L([stree_lit(c) for c in t[2]]))


def stree_size(t):
    if t is None or t[0] == 't':
        return 1
    return 1 + sum(stree_size(c) for c in t[2])


def show(t):
    if t is None:
        return 'None'
    if t[0] == 't':
        return '%s:%s' % (t[1], t[2])
    return '%s(%s)' % (t[1], ' '.join(show(c) for c in t[2]))


# ---------------------------------------------------------------------------------------------
# lark's callback objects
# ---------------------------------------------------------------------------------------------
def chain_of(f):
    """the wrapper chain lark composed, innermost first, as a Coq `list wrapper` term"""
    out = []
    for _ in range(12):
        cls = type(f).__name__
        if cls in ('partial', 'function', 'method', 'type'):
            break
        if cls == 'ExpandSingleChild':
            out.append('WExpand1')
        elif cls in ('ChildFilter', 'ChildFilterLALR'):
            ti = L(['(%s, %s, %s)' % (N(i), B(e), N(n)) for i, e, n in f.to_include])
            out.append('(WFilter (%s %s %s))' % ('CF' if cls == 'ChildFilter' else 'CFLALR', ti, N(f.append_none)))
        elif cls == 'ChildFilterLALR_NoPlaceholders':
            ti = L(['(%s, %s)' % (N(i), B(e)) for i, e in f.to_include])
            out.append('(WFilter (CFNoPH %s))' % ti)
        elif cls in ('AmbiguousExpander', 'AmbiguousIntermediateExpander', 'PropagatePositions'):
            pass
        else:
            raise ValueError('unknown wrapper ' + cls)
        f = f.node_builder
    return L(list(reversed(out)))


def build_callback(rule, mp, amb, transformer=None):
    """-> lark's callback object for the rule, or None when building it raised AssertionError"""
    from lark.parse_tree_builder import ParseTreeBuilder
    from lark import Tree
    try:
        ptb = ParseTreeBuilder([rule], Tree, False, amb, mp)
        return ptb.create_callback(transformer)[rule]
    except AssertionError:
        return None


def call_obs(f, children):
    """observation of one call: ('ok', stree) | ('err',)"""
    try:
        res = f(copy.deepcopy([to_lark(c) for c in children]))
    except (AttributeError, IndexError, TypeError):
        return ('err',)
    return ('ok', stree_of(res))


def obs_lit(o):
    if o is None:
        return 'None'
    if o[0] == 'err':
        return '(Some None)'
    return '(Some (Some %s))' % stree_lit(o[1])


def spec_rule_py(r, mp, children):
    """The documented shaping of one rule application, written directly (python mirror of Spec.v,
    used only to decide on which side a disagreement lies)."""
    marks = r['empty'] if (mp and r['empty']) else [False] * len(r['exp'])
    out = []
    k = 0
    for m in marks:
        if m:
            out.append(None)
            continue
        if k >= len(r['exp']) or k >= len(children):
            return ('err',)
        (term, name, filt), c = r['exp'][k], children[k]
        k += 1
        if term:
            if r['keep_all'] or not filt:
                out.append(c)
        elif name.startswith('_'):
            if c is None or c[0] != 'T':
                return ('err',)
            out.extend(c[2])
        else:
            out.append(c)
    name = r['alias'] or r['tsrc'] or r['origin']
    if r['expand1'] and not r['alias'] and len(out) == 1:
        return ('ok', out[0])
    return ('ok', ('T', name, tuple(out)))


TERM_NAMES = ['A', 'B', '_C', 'X', '__ANON_0', 'COMMA']
RULE_NAMES = ['a', 'b', '_x', '_y', '__start_star_0', '__a_plus_1', 'c{A}', '_t{A,b}']


def random_small_tree(rng, depth=0):
    r = rng.random()
    if r < 0.45 or depth > 1:
        return ('t', rng.choice(TERM_NAMES), rng.choice(['a', 'b', 'xy', '']))
    if r < 0.6:
        return None
    return ('T', rng.choice(['a', 'b', '_x', 'al']), tuple(random_small_tree(rng, depth + 1) for _ in range(rng.randint(0, 3))))


def random_record(rng, wild):
    n = rng.choice([0, 1, 1, 1, 2, 2, 2, 3, 3, 4, 5])
    exp = []
    for _ in range(n):
        if rng.random() < 0.55:
            nm = rng.choice(TERM_NAMES)
            exp.append((True, nm, rng.random() < (0.7 if nm.startswith('_') or nm.startswith('__ANON') else 0.35)))
        else:
            exp.append((False, rng.choice(RULE_NAMES), False))
    origin = rng.choice(['start', 'a', 'b', '_x', '__a_star_0', 't{A}', '_t{A,b}'])
    tsrc = origin.split('{')[0] if '{' in origin else None
    alias = rng.choice([None, None, None, 'al', 'foo']) if not origin.startswith('_') or wild else None
    expand1 = rng.random() < 0.35 and (not origin.startswith('_') or wild)
    empty = []
    if rng.random() < 0.5:
        pos = list(range(n + 1))
        ins = [rng.choice(pos) for _ in range(rng.choice([1, 1, 2, 3, 4]))]
        for i in range(n + 1):
            empty += [True] * ins.count(i)
            if i < n:
                empty.append(False)
        if wild and rng.random() < 0.08:          # inconsistent record: the construction asserts
            empty.append(False)
    return dict(origin=origin, exp=exp, alias=alias, tsrc=tsrc, keep_all=rng.random() < 0.3, expand1=expand1, empty=empty)


def random_children(rng, r, wild):
    ch = []
    for term, name, _ in r['exp']:
        x = rng.random()
        if term:
            c = ('t', name, rng.choice(['a', 'b', 'tok', ''])) if x < 0.9 or not wild else random_small_tree(rng)
        else:
            if x < 0.92 or not wild:
                c = ('T', name.split('{')[0] if rng.random() < 0.5 else name,
                     tuple(random_small_tree(rng) for _ in range(rng.choice([0, 1, 1, 2, 3]))))
                if not name.startswith('_') and rng.random() < 0.25:
                    c = random_small_tree(rng)      # value of a ?rule: a token, None, another tree
            else:
                c = random_small_tree(rng)
        ch.append(c)
    if wild and rng.random() < 0.08:
        if ch and rng.random() < 0.5:
            ch.pop()
        else:
            ch.append(random_small_tree(rng))
    return ch


# ---------------------------------------------------------------------------------------------
# random EBNF grammars
# ---------------------------------------------------------------------------------------------
NAMED = {'A': 'a', 'B': 'b', 'C': 'c', '_D': 'd', '_E': 'e'}
ALL_LITS = ['x', 'y', 'z', 'a', ',', '(', ')']     # "a" coincides with terminal A's pattern
LITS = ALL_LITS[:]
# Name collisions (text-level stream): lark names an anonymous symbol literal after a table ("+" -> PLUS,
# "-" -> MINUS, ...) and an anonymous word literal after its upper-cased text ("plus" -> PLUS).  The generator
# lets user terminals (with OTHER patterns) or earlier word literals occupy those names; the literal must still
# stand for exactly its own text.  (symbol literal, auto name, pattern of the user terminal that squats the name)
COLLIDE = [('+', 'PLUS', 'q'), ('-', 'MINUS', 'w'), (',', 'COMMA', 'v'), ('*', 'STAR', 'j'), ('(', 'LPAR', 'h'),
           (';', 'SEMICOLON', 'g'), ('.', 'DOT', 'k')]
KEYWORDS = {'+': 'plus', '-': 'minus'}     # word literals whose auto-name equals the symbol literal's (no letter a-e)
LPAR, RPAR = '(', ')'


class Gram:
    """rules: list of dict(name, mods, alts=[(expr, alias)], tsrc) in definition order (templates are
    kept both as definitions, for rendering, and as instantiated rules, for the oracle)."""

    def __init__(self):
        self.rules = []        # concrete rules (incl. template instances), for the oracle
        self.text_rules = []   # lines of lark text
        self.by_name = {}
        self.features = set()
        self.named = dict(NAMED)


def render(e, top=False):
    k = e[0]
    if k == 'tok':
        return e[1]
    if k == 'lit':
        return '"%s"' % e[1]
    if k == 'rule':
        return e[1]
    if k == 'tmpl':
        return '%s{%s}' % (e[1], ', '.join(e[2]))
    if k == 'param':
        return e[1]
    if k == 'seq':
        s = ' '.join(render(x) for x in e[1])
        return s if top else '(%s)' % s
    if k == 'alt':
        return '(%s)' % ' | '.join(render(x, True) for x in e[1])
    if k == 'maybe':
        return '[%s]' % render(e[1], True)
    a = render(e[1])
    if e[1][0] in ('opt', 'star', 'plus', 'rep'):
        a = '(%s)' % a
    if k == 'opt':
        return a + '?'
    if k == 'star':
        return a + '*'
    if k == 'plus':
        return a + '+'
    if k == 'rep':
        return a + ('~%d' % e[2] if e[2] == e[3] else '~%d..%d' % (e[2], e[3]))
    raise ValueError(k)


def nullable(e, G, seen=()):
    k = e[0]
    if k in ('tok', 'lit', 'param'):      # template arguments are chosen non-nullable
        return False
    if k in ('rule', 'tmpl'):
        nm = e[1] if k == 'rule' else inst_name(e)
        if nm in seen:
            return False
        r = G.by_name.get(nm)
        if r is None:
            return False
        return any(nullable(a, G, seen + (nm,)) for a, _ in r['alts'])
    if k == 'seq':
        return all(nullable(x, G, seen) for x in e[1])
    if k == 'alt':
        return any(nullable(x, G, seen) for x in e[1])
    if k in ('opt', 'maybe', 'star'):
        return True
    if k == 'plus':
        return nullable(e[1], G, seen)
    if k == 'rep':
        return e[2] == 0 or nullable(e[1], G, seen)
    raise ValueError(k)


def inst_name(e):
    return '%s{%s}' % (e[1], ','.join(e[2]))


def subst(e, env):
    k = e[0]
    if k == 'param':
        a = env[e[1]]
        if a.startswith('"'):           # a string literal as template argument
            return ('lit', a[1:-1])
        return ('tok', a) if a.isupper() or a.lstrip('_').isupper() else ('rule', a)
    if k in ('tok', 'lit', 'rule'):
        return e
    if k == 'tmpl':
        return ('tmpl', e[1], [env.get(a, a) for a in e[2]])
    if k in ('seq', 'alt'):
        return (k, [subst(x, env) for x in e[1]])
    if k == 'rep':
        return ('rep', subst(e[1], env), e[2], e[3])
    return (k, subst(e[1], env))


def gen_grammar(rng, rich=True):
    """A random grammar with the shaping features; rule i refers to rules j > i (a DAG), plus
    guarded recursion `"(" r ")"` behind an optional/alternative."""
    G = Gram()
    named = dict(NAMED)
    lits = LITS[:5]
    if rich and rng.random() < 0.5:
        G.features.add('name-collision')
        for sym_, auto, squat in rng.sample(COLLIDE, rng.randint(1, 3)):
            lits = lits + [sym_, sym_]
            r = rng.random()
            if r < 0.55:
                named[auto] = squat                   # user terminal owning the literal's auto-name
            if sym_ in KEYWORDS and r > 0.35:
                lits = lits + [KEYWORDS[sym_], KEYWORDS[sym_]]      # word literal with the same auto-name
    G.named = named
    n = rng.randint(2, 5)
    names = ['start']
    for i in range(1, n):
        names.append(('_' if rng.random() < 0.35 else '') + 'r%d' % i)
    templates = []
    if rng.random() < 0.45:
        templates.append(('_' if rng.random() < 0.4 else '') + 't1')

    cur = {'bang': False}

    def leaf(i, in_tmpl=False):
        x = rng.random()
        if in_tmpl:        # template bodies: the parameter, terminals and literals only (no recursion)
            if x < 0.4:
                return ('param', 'p')
            if x < 0.75:
                return ('tok', rng.choice(list(named)))
            G.features.add('lit')
            return ('lit', rng.choice(lits))
        if x < 0.32:
            return ('tok', rng.choice(list(named)))
        if x < 0.5:
            G.features.add('lit')
            return ('lit', rng.choice(lits))
        later = names[i + 1:]
        if later and x < 0.9:
            return ('rule', rng.choice(later))
        if templates and not in_tmpl and i >= 0:
            G.features.add('template')
            ok_later = [x for x in later if not nullable(('rule', x), G)]
            arg = rng.choice(list(named) + ok_later)
            # a string literal as argument: lark creates it under the options of the USING rule, so it is only
            # used from rules without `!` (then: kept iff the template instance keeps all tokens); literals whose
            # text is also a named terminal's pattern are avoided (the instance name would coincide)
            free = [c for c in lits if c not in named.values()]
            if free and not cur['bang'] and rng.random() < 0.45:
                arg = '"%s"' % rng.choice(free)
                G.features.add('template-literal-arg')
            return ('tmpl', templates[0], [arg])
        return ('tok', rng.choice(list(named)))

    def expr(i, depth, in_tmpl=False):
        x = rng.random()
        if depth >= 2 or x < 0.42:
            return leaf(i, in_tmpl)
        if x < 0.52:
            return ('seq', [expr(i, depth + 1, in_tmpl) for _ in range(rng.randint(2, 3))])
        if x < 0.6:
            return ('alt', [seq(i, depth + 1, in_tmpl) for _ in range(2)])
        if x < 0.7:
            G.features.add('maybe')
            return ('maybe', seq(i, depth + 1, in_tmpl) if rng.random() < 0.7 else
                    ('alt', [seq(i, depth + 1, in_tmpl) for _ in range(2)]))
        body = expr(i, depth + 1, in_tmpl)
        for _ in range(5):
            if not nullable(body, G):
                break
            body = leaf(i, in_tmpl)
        if nullable(body, G):
            body = ('tok', rng.choice(list(named)))
        if x < 0.78:
            G.features.add('opt')
            return ('opt', body)
        if x < 0.86:
            G.features.add('star')
            return ('star', body)
        if x < 0.93:
            G.features.add('plus')
            return ('plus', body)
        G.features.add('rep')
        lo = rng.randint(0, 2)
        return ('rep', body, lo, max(1, lo + rng.randint(0, 2)))

    def seq(i, depth, in_tmpl=False):
        k = rng.choice([1, 1, 2, 2, 3])
        items = [expr(i, depth, in_tmpl) for _ in range(k)]
        return ('seq', items)

    # concrete rules are generated from the last to the first so that nullability of later rules is known
    defs = {}
    for i in range(n - 1, -1, -1):
        nm = names[i]
        mods = ''
        if not nm.startswith('_') and rng.random() < 0.35:
            mods += '?'
        if rng.random() < 0.22:
            mods += '!'
        cur['bang'] = '!' in mods
        nalts = rng.choice([1, 1, 2, 2, 3])
        alts = []
        for k_alt in range(nalts):
            e = seq(i, 0)
            if '?' in mods and k_alt == 0 and i > 0 and rng.random() < 0.35:
                # a ?rule whose value can be a placeholder None (or a single token): `?r: [X]` / `?r: [X] | ...`
                G.features.add('?rule-value-none')
                e = ('seq', [('maybe', ('seq', [leaf(i)]))])
            alias = None
            if not nm.startswith('_') and rng.random() < 0.25 and not ('?' in mods and k_alt == 0):
                alias = rng.choice(['al1', 'al2'])
                G.features.add('alias')
            alts.append((e, alias))
        if rng.random() < 0.18 and i > 0:
            # guarded recursion: "(" r ")" as an extra alternative
            tgt = rng.choice(names[:i + 1])
            alts.append((('seq', [('lit', LPAR), ('rule', tgt), ('lit', RPAR)]), None))
            G.features.add('recursion')
        r = dict(name=nm, mods=mods, alts=alts, tsrc=None)
        defs[nm] = r
        G.by_name[nm] = r
        if '?' in mods:
            G.features.add('?rule')
        if '!' in mods:
            G.features.add('!rule')
        if nm.startswith('_'):
            G.features.add('_rule')
    tdefs = {}
    for t in templates:
        mods = ''
        if not t.startswith('_') and rng.random() < 0.3:
            mods += '?'
        if rng.random() < 0.4:
            mods += '!'
        alts = []
        for _ in range(rng.choice([1, 2])):
            items = [('param', 'p')] + [expr(0, 1, True) for _ in range(rng.randint(0, 2))]
            rng.shuffle(items)
            alias = rng.choice(['al3']) if (not t.startswith('_') and rng.random() < 0.2) else None
            alts.append((('seq', items), alias))
        tdefs[t] = dict(name=t, mods=mods, alts=alts)

    # instantiate the templates that are used (transitively)
    G.rules = [defs[nm] for nm in names]
    work = [r for r in G.rules]
    done = set()
    while work:
        r = work.pop()
        for e, _ in r['alts']:
            for u in _uses(e):
                inm = inst_name(u)
                if inm in done:
                    continue
                done.add(inm)
                td = tdefs[u[1]]
                inst = dict(name=inm, mods=td['mods'], tsrc=u[1],
                            alts=[(subst(a, {'p': u[2][0]}), al) for a, al in td['alts']])
                G.by_name[inm] = inst
                G.rules.append(inst)
                work.append(inst)
    lines = []
    for nm in names:
        r = defs[nm]
        pre = ('!' if '!' in r['mods'] else '') + ('?' if '?' in r['mods'] else '')
        lines.append('%s%s: %s' % (pre, nm, '\n  | '.join(render(e, True) + (' -> %s' % al if al else '') for e, al in r['alts'])))
    for t, td in tdefs.items():
        pre = ('!' if '!' in td['mods'] else '') + ('?' if '?' in td['mods'] else '')
        lines.append('%s%s{p}: %s' % (pre, t, '\n  | '.join(render(e, True) + (' -> %s' % al if al else '') for e, al in td['alts'])))
    for k, v in named.items():
        lines.append('%s: "%s"' % (k, v))
    G.text = '\n'.join(lines) + '\n'
    return G


def _uses(e):
    k = e[0]
    if k == 'tmpl':
        yield e
    elif k in ('seq', 'alt'):
        for x in e[1]:
            yield from _uses(x)
    elif k in ('opt', 'maybe', 'star', 'plus', 'rep'):
        yield from _uses(e[1])


# ---- random sentence -----------------------------------------------------------------------------
class TooDeep(Exception):
    pass


def gen_text(rng, G, name='start', budget=None):
    budget = budget or [40]

    def ex(e, depth):
        budget[0] -= 1
        if budget[0] < 0 or depth > 12:
            raise TooDeep()
        k = e[0]
        if k == 'tok':
            return G.named[e[1]]
        if k == 'lit':
            return e[1]
        if k == 'rule':
            return rl(e[1], depth + 1)
        if k == 'tmpl':
            return rl(inst_name(e), depth + 1)
        if k == 'seq':
            return ''.join(ex(x, depth) for x in e[1])
        if k == 'alt':
            return ex(rng.choice(e[1]), depth)
        if k in ('opt', 'maybe'):
            return ex(e[1], depth) if rng.random() < 0.55 else ''
        if k == 'star':
            return ''.join(ex(e[1], depth) for _ in range(rng.choice([0, 0, 1, 2, 3])))
        if k == 'plus':
            return ''.join(ex(e[1], depth) for _ in range(rng.choice([1, 1, 2, 3])))
        if k == 'rep':
            return ''.join(ex(e[1], depth) for _ in range(rng.randint(e[2], e[3])))
        raise ValueError(k)

    def rl(nm, depth):
        r = G.by_name[nm]
        alts = r['alts']
        if depth > 4 and len(alts) > 1:      # steer away from the recursive alternative
            alts = alts[:-1]
        return ex(rng.choice(alts)[0], depth)

    return rl(name, 0)


# ---- the oracle: all derivations, shaped by the documented rules ------------------------------------
LIT_TYPE = '?lit'


def canon_lit_types(t, named):
    """token types lark invented for anonymous literals are not part of the documented shaping: keep the type
    only when it is a terminal the grammar text defines"""
    if t is None:
        return None
    if t[0] == 't':
        return t if t[1] in named else ('t', LIT_TYPE, t[2])
    return ('T', t[1], tuple(canon_lit_types(c, named) for c in t[2]))


class TooMany(Exception):
    pass


class Oracle:
    def __init__(self, G, keep_all, mp, litname=None, limit=3000):
        """The meaning of the grammar TEXT: a named terminal stands for the pattern written in its definition, an
        anonymous literal for exactly its own text.  Token types: the terminal's name; for an anonymous literal the
        name of the user terminal with the same pattern if there is one, else LIT_TYPE (lark invents a name)."""
        self.G, self.ka, self.mp, self.limit = G, keep_all, mp, limit
        self.by_pattern = {}
        for k, v in G.named.items():
            self.by_pattern.setdefault(v, k)

    def size(self, e, ka):
        """number of symbols the expression keeps (FindRuleSize as documented: longest alternative)"""
        k = e[0]
        if k == 'tok':
            return 1 if (ka or not e[1].startswith('_')) else 0
        if k == 'lit':
            return 1 if ka else 0
        if k == 'rule':
            return 0 if e[1].startswith('_') else 1
        if k == 'tmpl':
            return 0 if e[1].startswith('_') else 1
        if k == 'seq':
            return sum(self.size(x, ka) for x in e[1])
        if k == 'alt':
            return max(self.size(x, ka) for x in e[1])
        if k in ('opt', 'maybe'):
            return self.size(e[1], ka)
        if k in ('star', 'plus'):
            return 0            # compiled to an inlined helper rule: not a kept symbol
        if k == 'rep':
            return e[3] * self.size(e[1], ka)     # naive expansion below the threshold
        raise ValueError(k)

    def parses(self, text):
        self.text = text
        self.memo_r = {}
        self.memo_e = {}
        self.active = set()
        res = [v for p, v in self.rule('start', 0) if p == len(text)]
        return res

    def rule(self, nm, pos):
        key = (nm, pos)
        if key in self.memo_r:
            return self.memo_r[key]
        if key in self.active:        # left recursion: the generator never produces it
            return []
        self.active.add(key)
        r = self.G.by_name[nm]
        ka = self.ka or '!' in r['mods']
        out = []
        for e, alias in r['alts']:
            for p2, ch in self.expr(e, pos, ka):
                node_name = alias or r.get('tsrc') or r['name']
                if '?' in r['mods'] and not alias and len(ch) == 1:
                    out.append((p2, ch[0]))
                else:
                    out.append((p2, ('T', node_name, ch)))
        self.active.discard(key)
        if len(out) > self.limit:
            raise TooMany()
        self.memo_r[key] = out
        return out

    def expr(self, e, pos, ka):
        key = (id(e), pos, ka)
        if key in self.memo_e:
            return self.memo_e[key]
        out = self._expr(e, pos, ka)
        if len(out) > self.limit:
            raise TooMany()
        self.memo_e[key] = out
        return out

    def _expr(self, e, pos, ka):
        t = self.text
        k = e[0]
        if k == 'tok':
            c = self.G.named[e[1]]
            if t.startswith(c, pos):
                kept = ka or not e[1].startswith('_')
                return [(pos + len(c), (('t', e[1], c),) if kept else ())]
            return []
        if k == 'lit':
            c = e[1]
            if t.startswith(c, pos):
                return [(pos + len(c), (('t', self.by_pattern.get(c, LIT_TYPE), c),) if ka else ())]
            return []
        if k in ('rule', 'tmpl'):
            nm = e[1] if k == 'rule' else inst_name(e)
            out = []
            for p2, v in self.rule(nm, pos):
                if nm.startswith('_'):
                    out.append((p2, v[2]))
                else:
                    out.append((p2, (v,)))
            return out
        if k == 'seq':
            cur = [(pos, ())]
            for x in e[1]:
                nxt = []
                for p, ch in cur:
                    for p2, ch2 in self.expr(x, p, ka):
                        nxt.append((p2, ch + ch2))
                cur = nxt
                if len(cur) > self.limit:
                    raise TooMany()
            return cur
        if k == 'alt':
            out = []
            for x in e[1]:
                out += self.expr(x, pos, ka)
            return out
        if k == 'opt':
            return self.expr(e[1], pos, ka) + [(pos, ())]
        if k == 'maybe':
            return self.expr(e[1], pos, ka) + [(pos, (None,) * self.size(e[1], ka) if self.mp else ())]
        if k in ('star', 'plus', 'rep'):
            lo, hi = {'star': (0, None), 'plus': (1, None)}.get(k, (e[2] if k == 'rep' else 0, e[3] if k == 'rep' else None))
            out = []
            cur = [(pos, ())]
            i = 0
            while cur and (hi is None or i <= hi):
                if i >= lo:
                    out += cur
                nxt = []
                for p, ch in cur:
                    for p2, ch2 in self.expr(e[1], p, ka):
                        if p2 > p or hi is not None:
                            nxt.append((p2, ch + ch2))
                cur = nxt
                i += 1
                if len(cur) + len(out) > self.limit:
                    raise TooMany()
            return out
        raise ValueError(k)


def literal_names(lark_inst):
    """pattern string -> terminal name, as lark named the anonymous literals"""
    out = {}
    for td in lark_inst.terminals:
        v = getattr(td.pattern, 'value', None)
        if v is not None:
            out[v] = str(td.name)
    return out


# ---------------------------------------------------------------------------------------------
# derivation followed by the LALR driver
# ---------------------------------------------------------------------------------------------
def lalr_derivation(lark_inst, text):
    """run lark's LALR driver with callbacks that record the derivation instead of shaping it"""
    inner = lark_inst.parser.parser.parser            # lalr_parser._Parser
    saved = inner.callbacks
    inner.callbacks = {rule: (lambda ch, r=rule: ('node', r, list(ch))) for rule in lark_inst.rules}
    try:
        return lark_inst.parse(text)
    finally:
        inner.callbacks = saved


def dtree_lit(d, cache):
    from lark import Token
    if isinstance(d, Token):
        return '(DTok %s %s)' % (S(str(d.type)), S(str(d)))
    _, rule, ch = d
    k = id(rule)
    if k not in cache:
        cache[k] = 'r%d' % len(cache)
    return '(DNode %s %s)' % (cache[k], L([dtree_lit(c, cache) for c in ch]))


def dtree_size(d):
    from lark import Token
    if isinstance(d, Token):
        return 1
    return 1 + sum(dtree_size(c) for c in d[2])


# ---------------------------------------------------------------------------------------------
# values (C16)
# ---------------------------------------------------------------------------------------------
def value_of(x):
    """python results of the generated transformers -> canonical value
       ('U', tag, (args..)) user node | ('T', ..) | ('t', ..) | None"""
    from lark import Tree, Token
    if x is None:
        return None
    if isinstance(x, Token):
        return ('t', str(x.type), str(x))
    if isinstance(x, Tree):
        return ('T', str(x.data), tuple(value_of(c) for c in x.children))
    if isinstance(x, tuple) and len(x) == 2 and isinstance(x[0], str):
        return ('U', x[0], tuple(value_of(c) for c in x[1]))
    raise NotShaped(repr(x)[:80])


def value_lit(v):
    if v is None:
        return 'VNone'
    if v[0] == 't':
        return '(VTok %s %s)' % (S(v[1]), S(v[2]))
    if v[0] == 'T':
        return '(VTree %s %s)' % (S(v[1]), L([value_lit(c) for c in v[2]]))
    return '(VUser %s %s)' % (S(v[1]), L([value_lit(c) for c in v[2]]))


def show_v(v):
    if v is None:
        return 'None'
    if v[0] == 'exc':
        return 'exception %s' % (v[1],)
    if v[0] == 't':
        return '%s:%s' % (v[1], v[2])
    if v[0] == 'T':
        return '%s(%s)' % (v[1], ' '.join(show_v(c) for c in v[2]))
    return '<%s>(%s)' % (v[1], ' '.join(show_v(c) for c in v[2]))


# ---------------------------------------------------------------------------------------------
# CYK: lark's CNF grammar and CNF parse trees as Coq terms of Shape/Cnf.v
# ---------------------------------------------------------------------------------------------
class CnfNames:
    """maps lark's generated non-terminal names back to the structured names of the model; raises
    ValueError when the encoding is not injective on this grammar"""

    def __init__(self, lark_inst):
        from lark.parsers.cyk import T, NT
        self.rule_idx = {id(r): i for i, r in enumerate(lark_inst.rules)}
        self.prefix = {}
        self.term = {}
        for i, r in enumerate(lark_inst.rules):
            rhs = list(r.expansion)
            if len(rhs) > 1 and any(isinstance(x, T) for x in rhs):
                rhs = [NT('__T_%s' % str(x)) if isinstance(x, T) else x for x in rhs]
            for x in r.expansion:
                if isinstance(x, T):
                    nm = '__T_%s' % str(x)
                    if self.term.setdefault(nm, str(x.name)) != str(x.name):
                        raise ValueError('terminal helper name clash ' + nm)
            if len(rhs) > 2:
                p = '__SP_%s' % (str(r.origin) + '__' + '_'.join(str(x) for x in rhs))
                if p in self.prefix:
                    raise ValueError('split helper name clash ' + p)
                self.prefix[p] = i

    def nt(self, name):
        name = str(name)
        if name in self.term:
            return '(NTerm %s)' % S(self.term[name])
        if name.startswith('__SP_'):
            p, _, i = name.rpartition('_')
            if p in self.prefix and i.isdigit():
                return '(NSplit %s %s)' % (N(self.prefix[p]), N(int(i)))
            raise ValueError('unknown split helper ' + name)
        return '(NOrig %s)' % S(name)

    def sym(self, x):
        from lark.parsers.cyk import T
        return '(CT %s)' % S(str(x.name)) if isinstance(x, T) else '(CN %s)' % self.nt(x.name)

    def alias(self, a):
        if a == 'Term':
            return 'ATermA'
        if a == 'Split':
            return 'ASplitA'
        return '(ARule %s)' % N(self.rule_idx[id(a)])

    def rule(self, r):
        sk = getattr(r, 'skipped_rules', [])
        return '(mkC %s %s %s %s)' % (self.nt(r.lhs.name), L([self.sym(x) for x in r.rhs]), self.alias(r.alias),
                                      L(['(%s, %s)' % (self.nt(s.lhs.name), self.alias(s.alias)) for s in sk]))

    def tree(self, n):
        """RuleNode / T(token) -> ctree"""
        from lark.parsers.cyk import RuleNode
        if isinstance(n, RuleNode):
            return '(CNode %s %s)' % (self.rule(n.rule), L([self.tree(c) for c in n.children]))
        tok = n.name
        return '(CLeaf %s %s)' % (S(str(tok.type)), S(str(tok)))

    def otree(self, n):
        """reverted RuleNode tree -> otree (rule indices via the alias, as Parser._to_tree does)"""
        from lark.parsers.cyk import RuleNode
        if isinstance(n, RuleNode):
            return '(ONode %s %s)' % (N(self.rule_idx[id(n.rule.alias)]), L([self.otree(c) for c in n.children]))
        tok = n.name
        return '(OLeaf %s %s)' % (S(str(tok.type)), S(str(tok)))


def cyk_capture(lark_inst, text):
    """run lark's CYK parser, capturing the CNF parse tree handed to revert_cnf and what it returned"""
    from lark.parsers import cyk
    cap = {}
    orig = cyk.revert_cnf
    depth = [0]

    def wrapped(node):
        depth[0] += 1
        try:
            if depth[0] == 1:
                cap['cnf'] = node
            res = orig(node)
            if depth[0] == 1:
                cap['reverted'] = res
            return res
        finally:
            depth[0] -= 1
    orig_parse = cyk._parse

    def wrapped_parse(s_, g_):
        table, trees = orig_parse(s_, g_)
        cap['tokens'], cap['table'], cap['trees'] = list(s_), table, trees
        return table, trees
    cyk.revert_cnf = wrapped
    cyk._parse = wrapped_parse
    from lark.exceptions import LarkError
    try:
        cap['tree'] = lark_inst.parse(text)
    except LarkError as ex:          # rejected: the table cyk._parse filled is still of interest
        cap['error'] = ex
    finally:
        cyk.revert_cnf = orig
        cyk._parse = orig_parse
    return cap


def cyk_table_lit(nm, cap):
    """the table / trees dicts of cyk._parse as a Coq list over all spans (start, length)"""
    toks = cap['tokens']
    n = len(toks)
    cells = []
    for l in range(1, n + 1):
        for i in range(n - l + 1):
            rs = cap['table'].get((i, i + l - 1), ())
            ts = cap['trees'].get((i, i + l - 1), {})
            cells.append('(%s, %s, %s, %s)' % (N(i), N(l), L([nm.rule(r) for r in rs]),
                                              L(['(%s, %s)' % (nm.nt(k.name), nm.tree(t)) for k, t in ts.items()])))
    return L(['(%s, %s)' % (S(str(t.type)), S(str(t))) for t in toks]), L(cells)


def gen_shared_literal(rng):
    """The `shared-literal` family: one anonymous literal ("x") and one named terminal (A) used in several rules
    with different markers (plain, `!`, `?`, `_`), under EBNF operators, and as arguments of `!` / `?` / plain / `_`
    templates - any aliasing of Terminal objects (or of their filter_out flag) across rules shows here."""
    G = Gram()
    G.named = {'A': 'a', 'B': 'b'}
    G.features.add('shared-literal')
    lit = rng.choice(['x', 'y'])
    other = 'y' if lit == 'x' else 'x'
    X, A, Bt = ('lit', lit), ('tok', 'A'), ('tok', 'B')
    bodies = {
        'ra': [('seq', [X, A])],
        'rb': [('seq', [('plus', ('seq', [X, A]))])],
        'rc': [('seq', [('opt', X), A, X])],
        '_rd': [('seq', [X, Bt])],
    }
    mods = {k: rng.choice(['', '', '!', '?', '!?']) for k in ('ra', 'rb', 'rc')}
    mods['_rd'] = rng.choice(['', '!'])
    tmods = {'t1': rng.choice(['', '!', '!', '?', '!?']), '_t2': rng.choice(['', '!', '!'])}
    tbodies = {'t1': [('seq', [('lit', other), ('param', 'p')]), ('seq', [('param', 'p'), ('param', 'p'), ('lit', other)])],
               '_t2': [('seq', [('param', 'p'), Bt])]}
    uses = [('tmpl', 't1', ['"%s"' % lit]), ('tmpl', '_t2', ['"%s"' % lit]), ('tmpl', 't1', ['A']), ('tmpl', '_t2', ['A'])]
    rng.shuffle(uses)
    items = [('rule', k) for k in ('ra', 'rb', 'rc', '_rd')] + uses[:rng.randint(2, 4)]
    rng.shuffle(items)
    body = []
    for k, it in enumerate(items):
        if k:
            body.append(('lit', ','))
        body.append(it)
    start = dict(name='start', mods='', alts=[(('seq', body), None)], tsrc=None)
    G.rules = [start]
    lines = ['start: ' + render(('seq', body), True)]
    for k in ('ra', 'rb', 'rc', '_rd'):
        r = dict(name=k, mods=mods[k], alts=[(b, None) for b in bodies[k]], tsrc=None)
        G.rules.append(r)
        pre = ('!' if '!' in mods[k] else '') + ('?' if '?' in mods[k] else '')
        lines.append('%s%s: %s' % (pre, k, ' | '.join(render(b, True) for b in bodies[k])))
    done = set()
    for u in uses:
        if u in items and inst_name(u) not in done:
            done.add(inst_name(u))
            G.rules.append(dict(name=inst_name(u), mods=tmods[u[1]], tsrc=u[1],
                                alts=[(subst(b, {'p': u[2][0]}), None) for b in tbodies[u[1]]]))
    for t in ('t1', '_t2'):
        pre = ('!' if '!' in tmods[t] else '') + ('?' if '?' in tmods[t] else '')
        lines.append('%s%s{p}: %s' % (pre, t, ' | '.join(render(b, True) for b in tbodies[t])))
    lines += ['A: "a"', 'B: "b"']
    G.by_name = {r['name']: r for r in G.rules}
    G.text = '\n'.join(lines) + '\n'
    return G
