#!/bin/bash
# runs every check's thorough tier once (3 in parallel), one summary line each
cd "$(dirname "$0")/.."
./setup.sh | tail -1
ids=$(python3 -c "import json;print(' '.join(c['property_id'] for c in json.load(open('MANIFEST.json'))['checks']))")
run() { id=$1; s=$(date +%s); out=$(timeout 5400 ./check $id --tier thorough 2>&1); rc=$?; echo "$id rc=$rc $(( $(date +%s)-s ))s $(echo "$out" | tail -1)"; if [ $rc -ne 0 ]; then echo "$out" | grep -A1 VIOLATION | head -8; fi; }
export -f run
for id in $ids; do echo $id; done | xargs -P 3 -I{} bash -c 'run {}'
