#!/venv/bin/python
"""coverage_map.py - which parts of lark's code are inside the verification, and how.

    /venv/bin/python harness/coverage_map.py                 # writes <root>/COVERAGE.md
    /venv/bin/python harness/coverage_map.py --json PATH     # also the machine-readable form ('-' = stdout)
    /venv/bin/python harness/coverage_map.py --update-baseline   # writes harness/coverage_baseline.json
    /venv/bin/python harness/coverage_map.py --check         # exit 1 if a baseline pin is lost (no file is written)
    /venv/bin/python harness/coverage_map.py --trace C09,C18 # (slow, optional) writes harness/coverage_trace.json
                                                             # ('all' = every property; needs the built coq/ tree;
                                                             #  the normal run reads that file if it exists)

For every top-level function and every method of every class of $VERIF_REPO/lark/**/*.py the tool decides

  1. regenerated    the translator (translator/gen*.py) located the function's AST while producing coq/Gen/<Stem>.v.
                    Found by *instrumenting* the translator (ast.parse tags every node with file + enclosing function;
                    pyunify.unify / find_def / const_int, ast.dump / ast.unparse called from translator code and
                    compile() of source nodes are wrapped) and running every generator exactly like lib.regenerate().
                    Sub-kinds:  template       whole body unified with a source template (fail-closed)
                                template-part  only some statements unified
                                located        found by find_def / inspected ad hoc (extent unknown to this tool)
                    Each pin is then *probed*: one harmless statement is inserted at the top of the function in a scratch
                    copy of lark and the generator is re-run (breaks / changes / insensitive).
                    (only `template` and `template-part` make a function class 1; a function that is merely `located`
                    is class `analysed`, ranked below modelled / observed)
  1b. inventoried   only the definition's hash / name references are regenerated (Gen/Standalone.v): no logic.
  2. modelled       HEURISTIC: a comment of a Coq file under coq/ (not Gen/) names the function next to the lark file or
                    class it belongs to.  The evidence line is always shown.  A mention is not a proof of anything.
  3. observed       HEURISTIC (static): a harness module assigns to the attribute (monkeypatch), setattr/mock.patch'es it,
                    takes its code object for a trace hook, or references it through a class / module qualified name.
  4. exercised-only executed by a traced correspondence run (only if harness/coverage_trace.json exists; see --trace).
  5. outside        none of the above.

Nothing is hard-coded: generators, Gen stems, property ids, GEN_DEPS, model files and harness helpers are discovered.
The tool writes nothing but COVERAGE.md (and the files explicitly asked for by --json / --update-baseline / --trace).
"""
import argparse
import ast
import builtins
import copy
import hashlib
import importlib
import io
import json
import os
import re
import shutil
import signal
import subprocess
import sys
import tempfile
import time
import tokenize
import traceback

sys.dont_write_bytecode = True
HERE = os.path.dirname(os.path.abspath(__file__))
TOOL_VERSION = 1

PIN_RANK = {'template': 4, 'template-part': 3, 'located': 2, 'inventory': 1}
CLASSES = ['regenerated', 'regenerated-part', 'modelled', 'observed', 'analysed', 'inventoried', 'exercised-only', 'outside']
COMPOUND = (ast.If, ast.Try, ast.With, ast.For, ast.While) + ((ast.TryStar,) if hasattr(ast, 'TryStar') else ())


# =====================================================================================================
# 1. inventory of lark
# =====================================================================================================
def lark_files(repo):
    out = []
    for d, dirs, fs in os.walk(os.path.join(repo, 'lark')):
        dirs[:] = sorted(x for x in dirs if x != '__pycache__')
        for f in sorted(fs):
            if f.endswith('.py'):
                out.append(os.path.relpath(os.path.join(d, f), repo))
    return sorted(out)


def _sub_bodies(st):
    for f in ('body', 'orelse', 'finalbody'):
        v = getattr(st, f, None)
        if isinstance(v, list):
            yield v
    for h in getattr(st, 'handlers', []) or []:
        yield h.body


def iter_defs(body, prefix='', seen=None):
    """('class', node, qualname) / ('unit', node, key) for the functions defined directly at module / class level
    (also below if/try/with at that level).  Functions nested in functions belong to the enclosing one.
    key = qualname, or qualname#k for the k-th definition of the same qualname (overloads, property setters)."""
    if seen is None:
        seen = {}
    for st in body:
        if isinstance(st, (ast.FunctionDef, ast.AsyncFunctionDef)):
            if any((isinstance(d, ast.Name) and d.id == 'overload') or (isinstance(d, ast.Attribute) and d.attr == 'overload')
                   for d in st.decorator_list):
                continue                    # typing stub without code
            q = prefix + st.name
            n = seen.get(q, 0)
            seen[q] = n + 1
            yield 'unit', st, (q if n == 0 else '%s#%d' % (q, n + 1))
        elif isinstance(st, ast.ClassDef):
            yield 'class', st, prefix + st.name
            yield from iter_defs(st.body, prefix + st.name + '.', seen)
        elif isinstance(st, COMPOUND):
            for b in _sub_bodies(st):
                yield from iter_defs(b, prefix, seen)


def _is_doc(st):
    return isinstance(st, ast.Expr) and isinstance(getattr(st, 'value', None), ast.Constant) \
        and isinstance(st.value.value, str)


def strip_doc(body):
    return body[1:] if body and _is_doc(body[0]) else body


def code_lines(src, tree):
    """line numbers that carry code (not blank, not comment-only, not part of a docstring)"""
    lines = set()
    skip = {tokenize.COMMENT, tokenize.NL, tokenize.NEWLINE, tokenize.INDENT, tokenize.DEDENT, tokenize.ENCODING,
            tokenize.ENDMARKER}
    try:
        for tok in tokenize.generate_tokens(io.StringIO(src).readline):
            if tok.type in skip:
                continue
            for ln in range(tok.start[0], tok.end[0] + 1):
                lines.add(ln)
    except (tokenize.TokenError, IndentationError):
        lines = {i for i, l in enumerate(src.split('\n'), 1) if l.strip() and not l.strip().startswith('#')}
    for n in ast.walk(tree):
        if isinstance(n, (ast.Module, ast.ClassDef, ast.FunctionDef, ast.AsyncFunctionDef)) and n.body and _is_doc(n.body[0]):
            d = n.body[0]
            for ln in range(d.lineno, d.end_lineno + 1):
                lines.discard(ln)
    return lines


def _first_line(node):
    return min([node.lineno] + [d.lineno for d in getattr(node, 'decorator_list', [])])


class Unit:
    __slots__ = ('file', 'key', 'qual', 'name', 'cls', 'kind', 'line', 'first', 'end', 'loc', 'node',
                 'pins', 'modelled', 'observed', 'claims', 'exercised', 'ambiguous')

    def __init__(self, file, key, node, lines):
        self.file, self.key, self.node = file, key, node
        self.qual = key.split('#')[0]
        self.name = node.name
        self.cls = self.qual.rsplit('.', 1)[0] if '.' in self.qual else ''
        self.kind = 'method' if self.cls else 'function'
        self.line, self.first, self.end = node.lineno, _first_line(node), node.end_lineno
        self.loc = sum(1 for ln in range(self.first, self.end + 1) if ln in lines)
        self.pins = {}        # stem -> dict(kind, via=set, probe)
        self.modelled = []    # dict(vfile, level, line, text)
        self.observed = []    # dict(harness, line, kind, text, n)
        self.claims = []      # dict(prop, where, level, text)
        self.exercised = []   # property ids
        self.ambiguous = []

    @property
    def id(self):
        return '%s::%s' % (self.file, self.key)


class Inventory:
    def __init__(self, repo):
        self.repo = repo
        self.files = {}       # rel -> dict(src, tree, lines, units=[Unit], classes={qual: node}, loc_total, loc_nonfunc)
        self.units = {}       # (rel, key) -> Unit
        for rel in lark_files(repo):
            src = open(os.path.join(repo, rel), encoding='utf8').read()
            tree = ast.parse(src)
            lines = code_lines(src, tree)
            units, classes = [], {}
            for what, node, q in iter_defs(tree.body):
                if what == 'class':
                    classes[q] = node
                else:
                    u = Unit(rel, q, node, lines)
                    units.append(u)
                    self.units[(rel, q)] = u
            infunc = set()
            for u in units:
                infunc.update(range(u.first, u.end + 1))
            self.files[rel] = dict(src=src, tree=tree, lines=lines, units=units, classes=classes,
                                   loc_total=len(lines), loc_nonfunc=len(lines - infunc))

    def all_units(self):
        for rel in sorted(self.files):
            yield from self.files[rel]['units']

    def units_of_class(self, rel, cq):
        return [u for u in self.files[rel]['units'] if u.qual.startswith(cq + '.')]


# =====================================================================================================
# 2. instrumented regeneration: which functions does the translator pin?
# =====================================================================================================
class _NormDoc(ast.NodeTransformer):
    def _body(self, node):
        self.generic_visit(node)
        node.body = strip_doc(node.body) or [ast.Pass()]
        return node
    visit_FunctionDef = visit_AsyncFunctionDef = visit_ClassDef = _body


def norm_dump(node, _dump=ast.dump):
    return _dump(_NormDoc().visit(copy.deepcopy(node)), include_attributes=False)


def _tag(node, file, key):
    for n in ast.walk(node):
        n._cv = (file, key)


def tag_defs(body, file, prefix=''):
    """tags below `body` (statements of a module or of one class): class-level nodes -> (file, None),
    nodes of a unit -> (file, key); unit nodes get _cv_unit, their body statements _cv_body = (i, n)"""
    items = list(iter_defs(body, prefix))
    for what, node, q in items:
        if what == 'class':
            _tag(node, file, None)
            node._cv_class = q
    for what, node, q in items:
        if what == 'unit':
            _tag(node, file, q)
            node._cv_unit = q
            b = strip_doc(node.body)
            for i, st in enumerate(b):
                st._cv_body = (i, len(b))


class Recorder:
    """process-wide instrumentation of the translator's access paths to lark's source"""

    def __init__(self, inv, translator_dir):
        self.inv = inv
        self.tdir = os.path.realpath(translator_dir) + os.sep
        self.active = False
        self.stem = None
        self.depth = 0
        self.touches = []        # (stem, how, whole, file, key)            key = unit key
        self.nonfunc = []        # (stem, how, file, scope, snippet)
        self.parsed = {}         # stem -> set(rel)
        self.foreign_unmatched = {}   # stem -> [names]
        self.src_index = {}
        self.def_index = {}      # norm dump -> [(rel, kind, qualname/key)]
        for rel, f in inv.files.items():
            self.src_index[f['src']] = rel
            for what, node, q in iter_defs(f['tree'].body):
                if '.' in q.split('#')[0]:
                    continue                                  # top-level definitions only
                self.def_index.setdefault(norm_dump(node), []).append((rel, what, q))
        self.orig = {}

    # -- tagging -------------------------------------------------------------------------------------
    def tag_tree(self, tree, rel):
        for n in ast.walk(tree):
            n._cv = (rel, None)
        tag_defs(tree.body, rel)

    def tag_foreign(self, tree):
        """a program that is not one lark file (e.g. the concatenated stand-alone sections): top-level definitions
        identical (docstrings ignored) to a top-level definition of a lark file are tagged as that definition"""
        tops = []
        for st in tree.body:
            if isinstance(st, (ast.FunctionDef, ast.AsyncFunctionDef, ast.ClassDef)):
                tops.append(st)
            elif isinstance(st, COMPOUND):
                for b in _sub_bodies(st):
                    tops += [x for x in b if isinstance(x, (ast.FunctionDef, ast.AsyncFunctionDef, ast.ClassDef))]
        if len(tops) < 5:
            return                      # templates and snippets: not a program assembled from lark's files
        for st in tops:
            hit = self.def_index.get(norm_dump(st, self.orig['dump']))
            if not hit and isinstance(st, ast.ClassDef):
                # e.g. a section that ends inside a class: match the methods one by one
                cands = [rel for rel, f in self.inv.files.items() if st.name in f['classes']]
                if len(cands) == 1:
                    rel = cands[0]
                    mine = {u.key: norm_dump(u.node, self.orig['dump']) for u in self.inv.units_of_class(rel, st.name)}
                    _tag(st, rel, None)
                    st._cv_class = st.name
                    st._cv_members = []
                    for what, node, q in iter_defs(st.body, st.name + '.'):
                        if what == 'unit' and mine.get(q) == norm_dump(node, self.orig['dump']):
                            _tag(node, rel, q)
                            node._cv_unit = q
                            st._cv_members.append(q)
                    if self.stem:
                        self.parsed.setdefault(self.stem, set()).add(rel)
                        self.foreign_unmatched.setdefault(self.stem, []).append(
                            '%s (class differs from %s; %d methods matched one by one)' % (st.name, rel, len(st._cv_members)))
                    continue
            if not hit:
                if self.stem:
                    self.foreign_unmatched.setdefault(self.stem, []).append(st.name)
                continue
            rel, what, q = hit[0]
            if what == 'unit':
                _tag(st, rel, q)
                st._cv_unit = q
            else:
                _tag(st, rel, None)
                st._cv_class = q
                tag_defs(st.body, rel, q + '.')
            if self.stem:
                self.parsed.setdefault(self.stem, set()).add(rel)

    # -- recording -----------------------------------------------------------------------------------
    def _touch_node(self, how, n, whole_hint=False):
        tag = getattr(n, '_cv', None)
        if tag is None:
            return
        rel, key = tag
        if key is not None:
            whole = whole_hint or getattr(n, '_cv_unit', None) == key
            self.touches.append((self.stem, how, whole, rel, key))
        elif getattr(n, '_cv_class', None) is not None and how in ('dump', 'unparse', 'exec', 'unify'):
            members = getattr(n, '_cv_members', None)
            for u in self.inv.units_of_class(rel, n._cv_class):
                if members is None or u.key in members:
                    self.touches.append((self.stem, how, True, rel, u.key))
        elif not isinstance(n, ast.Module):
            try:
                snip = self.orig['unparse'](n).split('\n')[0][:70]
            except Exception:
                snip = type(n).__name__
            self.nonfunc.append((self.stem, how, rel, snip))

    def touch(self, how, a):
        if not self.active:
            return
        if isinstance(a, list):
            nodes = [x for x in a if isinstance(x, ast.AST)]
            idx = [getattr(x, '_cv_body', None) for x in nodes]
            keys = {getattr(x, '_cv', None) for x in nodes}
            whole = bool(nodes) and len(keys) == 1 and all(i is not None for i in idx) and \
                [i[0] for i in idx] == list(range(idx[0][1])) and len(idx) == idx[0][1]
            seen = set()
            for x in nodes:
                t = getattr(x, '_cv', None)
                if t is None or (t in seen and t[1] is not None):
                    continue
                seen.add(t)
                self._touch_node(how, x, whole)
        elif isinstance(a, ast.AST):
            self._touch_node(how, a)

    def _from_translator(self, depth=2):
        fn = os.path.realpath(sys._getframe(depth).f_code.co_filename)
        return fn.startswith(self.tdir) and os.path.basename(fn) != 'pyunify.py'

    # -- installation --------------------------------------------------------------------------------
    def install(self, pyunify):
        R = self
        o = self.orig
        o.update(parse=ast.parse, dump=ast.dump, unparse=ast.unparse, compile=builtins.compile,
                 unify=pyunify.unify, find_def=pyunify.find_def, const_int=pyunify.const_int)

        def parse(source, *a, **k):
            tree = o['parse'](source, *a, **k)
            if R.active and isinstance(source, str) and isinstance(tree, ast.Module):
                rel = R.src_index.get(source)
                if rel is not None:
                    R.tag_tree(tree, rel)
                    R.parsed.setdefault(R.stem, set()).add(rel)
                else:
                    R.tag_foreign(tree)
            return tree

        def dump(node, *a, **k):
            if R.active and R.depth == 0 and R._from_translator():
                R.touch('dump', node)
            return o['dump'](node, *a, **k)

        def unparse(node):
            if R.active and R.depth == 0 and R._from_translator():
                R.touch('unparse', node)
            return o['unparse'](node)

        def compile_(source, *a, **k):
            if R.active and isinstance(source, ast.AST) and R._from_translator():
                for n in getattr(source, 'body', []) if isinstance(source, ast.Module) else [source]:
                    R.touch('exec', n)
            return o['compile'](source, *a, **k)

        def unify(t, a, b, path=''):
            top = R.depth == 0
            R.depth += 1
            try:
                r = o['unify'](t, a, b, path)
            finally:
                R.depth -= 1
            if top:
                R.touch('unify', a)
            return r

        def find_def(tree, name, cls=None):
            f = o['find_def'](tree, name, cls)
            if R.depth == 0:
                R.touch('find_def', f)
            return f

        def const_int(tree, name):
            v = o['const_int'](tree, name)
            if R.active:
                rel = getattr(tree, '_cv', (None,))[0]
                if rel:
                    R.nonfunc.append((R.stem, 'const_int', rel, '%s = %r' % (name, v)))
            return v
        ast.parse, ast.dump, ast.unparse, builtins.compile = parse, dump, unparse, compile_
        pyunify.unify, pyunify.find_def, pyunify.const_int = unify, find_def, const_int

    def uninstall(self, pyunify):
        o = self.orig
        ast.parse, ast.dump, ast.unparse, builtins.compile = o['parse'], o['dump'], o['unparse'], o['compile']
        pyunify.unify, pyunify.find_def, pyunify.const_int = o['unify'], o['find_def'], o['const_int']


def run_generators(root, repo, inv, log):
    """-> (generators: stem -> dict(ok, message, module, text, uptodate), recorder, gen module)"""
    tdir = os.path.join(root, 'translator')
    sys.path.insert(0, tdir)
    import pyunify
    rec = Recorder(inv, tdir)
    rec.install(pyunify)              # before `import gen`: the gen_*.py bind the names at import time
    import gen
    gens = {}
    for stem, fn in gen.GENERATORS.items():          # the loop of gen.regenerate(), without writing coq/Gen
        rec.stem, rec.active, rec.depth = stem, True, 0
        try:
            txt = fn(repo)
            ok, msg = True, 'ok'
        except pyunify.Mismatch as e:
            txt, ok, msg = None, False, 'source shape no longer recognised: %s' % e
        except Exception:
            txt, ok, msg = None, False, 'exception: ' + ' | '.join(traceback.format_exc().strip().split('\n')[-3:])[:600]
        finally:
            rec.active = False
        p = os.path.join(root, 'coq', 'Gen', stem + '.v')
        old = open(p).read() if os.path.exists(p) else None
        mod = getattr(fn, '__module__', '?')
        gens[stem] = dict(ok=ok, message=msg, module=mod, text=txt, fn=fn,
                          committed=('missing' if old is None else 'same' if old == txt else 'differs'))
        log('generator %-16s %s%s' % (stem, 'ok' if ok else 'FAILED', '' if ok else ': ' + msg[:200]))
    rec.stem = None
    return gens, rec, pyunify


def fold_pins(inv, rec):
    """touches -> Unit.pins[stem] = dict(kind, via)"""
    for stem, how, whole, rel, key in rec.touches:
        u = inv.units.get((rel, key))
        if u is None:
            continue
        if how == 'unify':
            kind = 'template' if whole else 'template-part'
        elif how in ('dump', 'unparse') and whole:
            kind = 'inventory'
        else:
            kind = 'located'
        p = u.pins.setdefault(stem, dict(kind=kind, via=set(), probe=None))
        if PIN_RANK[kind] > PIN_RANK[p['kind']]:
            p['kind'] = kind
        if how == 'unify':
            p['via'].add('unify(body)' if whole else 'unify(stmts)')
        else:
            p['via'].add(how + ('(whole def)' if whole and how != 'find_def' else ''))


# -- probes ----------------------------------------------------------------------------------------------
def mutate_source(src, node):
    """insert one harmless assignment before the first non-docstring statement of the function; None if impossible"""
    body = node.body
    lines = src.split('\n')
    tgt = strip_doc(body)
    if tgt:
        st = tgt[0]
        ln = _first_line(st)
        if ln <= node.lineno or (body[0] is not st and ln <= body[0].end_lineno):
            return None
        line = lines[ln - 1]
        ind = line[:len(line) - len(line.lstrip())]
        if len(ind) != st.col_offset and not getattr(st, 'decorator_list', None):
            return None
        lines.insert(ln - 1, ind + '_coverage_probe_ = 0')
    else:
        d = body[0]
        if d.lineno <= node.lineno:
            return None
        line = lines[d.lineno - 1]
        ind = line[:len(line) - len(line.lstrip())]
        lines.insert(d.end_lineno, ind + '_coverage_probe_ = 0')
    out = '\n'.join(lines)
    try:
        ast.parse(out)
    except SyntaxError:
        return None
    return out


def run_probes(repo, inv, gens, log, budget_s):
    """for every (unit, stem) pin that is not a pure inventory entry: mutate, re-run the generator, compare"""
    tmp = tempfile.mkdtemp(prefix='covmap_')
    t0 = time.time()
    done = skipped = 0
    try:
        shutil.copytree(os.path.join(repo, 'lark'), os.path.join(tmp, 'lark'),
                        ignore=shutil.ignore_patterns('__pycache__', '*.pyc'))
        base = {}
        for stem, g in gens.items():
            if g['ok']:
                try:
                    base[stem] = g['fn'](tmp)
                except Exception:
                    base[stem] = None
        jobs = [(u, stem) for u in inv.all_units() for stem, p in sorted(u.pins.items())
                if p['kind'] != 'inventory' and base.get(stem) is not None]
        for u, stem in jobs:
            if time.time() - t0 > budget_s:
                skipped += 1
                u.pins[stem]['probe'] = 'not-run(budget)'
                continue
            f = inv.files[u.file]
            mut = mutate_source(f['src'], u.node)
            if mut is None:
                u.pins[stem]['probe'] = 'n/a'
                continue
            path = os.path.join(tmp, u.file)
            open(path, 'w', encoding='utf8').write(mut)
            try:
                try:
                    txt = gens[stem]['fn'](tmp)
                    res = 'insensitive' if txt == base[stem] else 'changes'
                except Exception:
                    res = 'breaks'
            finally:
                open(path, 'w', encoding='utf8').write(f['src'])
            u.pins[stem]['probe'] = res
            done += 1
    finally:
        shutil.rmtree(tmp, ignore_errors=True)
    log('probes: %d run, %d skipped (budget), %.1fs' % (done, skipped, time.time() - t0))


# =====================================================================================================
# 3. Coq side: comments, dependency closure of Props/<ID>.v
# =====================================================================================================
def coq_files(root):
    out = []
    coq = os.path.join(root, 'coq')
    for d, dirs, fs in os.walk(coq):
        dirs.sort()
        for f in sorted(fs):
            if f.endswith('.v'):
                out.append(os.path.relpath(os.path.join(d, f), coq))
    return sorted(out)


def coq_comments(text):
    """[(line, comment text)] of the outermost (* ... *) comments (nesting and string literals respected)"""
    out, i, n, line = [], 0, len(text), 1
    depth, start, start_line, in_str = 0, 0, 0, False
    while i < n:
        c = text[i]
        if c == '\n':
            line += 1
        if in_str:
            if c == '"':
                in_str = False
            i += 1
            continue
        if c == '"' and depth == 0:
            in_str = True
        elif c == '(' and text.startswith('(*', i) and not text.startswith('(*)', i):
            if depth == 0:
                start, start_line = i + 2, line
            depth += 1
            i += 2
            continue
        elif c == '*' and text.startswith('*)', i) and depth > 0:
            depth -= 1
            if depth == 0:
                out.append((start_line, text[start:i]))
            i += 2
            continue
        i += 1
    return out


def coq_deps(root, files):
    """file -> set of files it requires directly (project files only); coqdep when available, else `Require` lines"""
    coq = os.path.join(root, 'coq')
    deps = {f: set() for f in files}
    known = set(files)
    how = 'coqdep'
    try:
        p = subprocess.run(['coqdep', '-Q', '.', 'LV'] + files, cwd=coq, stdout=subprocess.PIPE, stderr=subprocess.DEVNULL,
                           text=True, timeout=90)
        if p.returncode != 0 or not p.stdout.strip():
            raise OSError('coqdep failed')
        for ln in p.stdout.replace('\\\n', ' ').split('\n'):
            if ':' not in ln:
                continue
            lhs, rhs = ln.split(':', 1)
            tg = [os.path.normpath(x)[:-1] for x in lhs.split() if x.endswith('.vo')]
            if not tg or tg[0] not in known:
                continue
            for x in rhs.split():
                x = os.path.normpath(x)
                if x.endswith('.vo') and x[:-1] in known and x[:-1] != tg[0]:
                    deps[tg[0]].add(x[:-1])
    except (OSError, subprocess.SubprocessError):
        how = 'Require-lines'
        for f in files:
            txt = open(os.path.join(coq, f)).read()
            for m in re.finditer(r'(?:From\s+LV\s+)?Require\s+(?:Import\s+|Export\s+)?([^.]*(?:\.[A-Za-z_][\w.]*)*)\s*\.(?=\s)', txt):
                for name in m.group(1).split():
                    name = name[3:] if name.startswith('LV.') else name
                    cand = name.replace('.', '/') + '.v'
                    if cand in known:
                        deps[f].add(cand)
    return deps, how


def closure(deps, start):
    seen, todo = [], [start]
    while todo:
        x = todo.pop()
        if x in seen or x not in deps:
            continue
        seen.append(x)
        todo.extend(sorted(deps[x]))
    return sorted(seen)


# =====================================================================================================
# 4. "modelled": mentions in comments (heuristic)
# =====================================================================================================
class Mentions:
    """matches function / method names in free text next to the lark file or class they belong to"""

    def __init__(self, inv):
        self.inv = inv
        self.base_unique = {}
        bases = {}
        for rel in inv.files:
            bases.setdefault(os.path.basename(rel), []).append(rel)
        self.file_forms = {}            # rel -> [regex]
        for rel in inv.files:
            forms = [re.escape(rel), re.escape(rel[len('lark/'):]) if '/' in rel[len('lark/'):] else None,
                     re.escape(rel[:-3].replace('/', '.')) + r'(?![\w])']
            b = os.path.basename(rel)
            if len(bases[b]) == 1 and b != '__init__.py':
                forms.append(r'(?<![\w/])' + re.escape(b))
            self.file_forms[rel] = re.compile('|'.join(f for f in forms if f))
        self.class_files = {}           # short class name -> [(rel, qual)]
        for rel, f in inv.files.items():
            for q in f['classes']:
                self.class_files.setdefault(q.rsplit('.', 1)[-1], []).append((rel, q))
        self.by_name = {}               # function name -> [Unit]
        for u in inv.all_units():
            self.by_name.setdefault(u.name, []).append(u)
        self.stem_unique = {}
        stems = {}
        for rel in inv.files:
            stems.setdefault(os.path.basename(rel)[:-3], []).append(rel)
        self.stem_of = {rel: os.path.basename(rel)[:-3] for rel in inv.files if len(stems[os.path.basename(rel)[:-3]]) == 1
                        and not os.path.basename(rel).startswith('__')}

    @staticmethod
    def distinct(name):
        if name.startswith('__') and name.endswith('__'):
            return False
        core = name.strip('_')
        return (name.startswith('_') and len(core) >= 3) or '_' in core or core != core.lower()

    def scan(self, comments):
        """comments: [(line, text)] of one document.  -> [(Unit, level, line, text)], [(name, line, why)] ambiguous"""
        inv = self.inv
        whole = '\n'.join(t for _, t in comments)
        idents = set(re.findall(r'[A-Za-z_]\w*', whole))
        files_in_scope = {rel for rel, rx in self.file_forms.items() if rx.search(whole)}
        for rel, stem in self.stem_of.items():          # `stem.Name` with Name defined at top level of that file
            if rel not in files_in_scope and stem in idents:
                tops = {u.qual for u in inv.files[rel]['units'] if not u.cls} | {q for q in inv.files[rel]['classes'] if '.' not in q}
                for m in re.finditer(r'(?<![\w.])' + re.escape(stem) + r'\.([A-Za-z_]\w*)', whole):
                    if m.group(1) in tops:
                        files_in_scope.add(rel)
                        break
        classes_in_scope = set()
        for cn, lst in self.class_files.items():
            if cn in idents:
                cands = lst if len(lst) == 1 else [(rel, q) for rel, q in lst if rel in files_in_scope]
                classes_in_scope.update(cands)
        out, amb = [], []
        done = set()
        for name in idents & set(self.by_name):
            units = self.by_name[name]
            dunder = name.startswith('__') and name.endswith('__')
            rx_bare = re.compile(r'(?<![\w])' + re.escape(name) + r'\b')
            for line, text in comments:
                if name not in text:
                    continue
                for m in rx_bare.finditer(text):
                    pre = text[:m.start()]
                    post = text[m.end():m.end() + 1]
                    qual = re.search(r'([A-Za-z_]\w*)\.$', pre)
                    qualifier = qual.group(1) if qual else None
                    if pre.endswith('.') and qualifier is None:
                        continue
                    if pre.endswith('/') or text[m.end():m.end() + 3] == '.py' or \
                            (post == '.' and name in self.stem_of.values()):
                        continue          # part of a path / a module-qualified reference, not the function
                    codeform = post == '(' or (pre.endswith('`') and post == '`') or qualifier in ('self', 'cls')
                    ev_line = line + pre.count('\n')
                    ev = ' '.join(text.split('\n')[pre.count('\n')].split())[:150]
                    for u in units:
                        if (u.id, 'x') in done:
                            continue
                        cn = u.cls.rsplit('.', 1)[-1] if u.cls else None
                        level = None
                        if u.cls:
                            cls_ok = (u.file, u.cls) in classes_in_scope
                            if qualifier == cn:
                                if cls_ok:
                                    level = 'dotted'
                                else:
                                    amb.append((cn + '.' + name, ev_line, 'class %s exists in several files, none named here' % cn))
                            elif qualifier in (None, 'self', 'cls') and not dunder and cls_ok and \
                                    ((self.distinct(name) and len(units) == 1) or
                                     ((self.distinct(name) or codeform) and re.search(r'\b%s\b' % re.escape(cn), text))):
                                level = 'name+class'
                            elif qualifier in (None, 'self', 'cls') and not dunder and self.distinct(name) and \
                                    u.file in files_in_scope and \
                                    len([x for x in units if x.file == u.file]) == 1:
                                level = 'name+file'
                        else:
                            stem = self.stem_of.get(u.file)
                            if qualifier is not None and qualifier == stem:
                                level = 'dotted'
                            elif pre.rstrip().endswith(u.file + ':') or pre.endswith(os.path.basename(u.file) + ':'):
                                level = 'dotted'
                            elif qualifier is None and u.file in files_in_scope and \
                                    (self.distinct(name) or codeform) and not dunder:
                                level = 'name+file'
                        if level:
                            out.append((u, level, ev_line, ev))
            # keep the best evidence per unit
        best = {}
        rank = {'dotted': 3, 'name+class': 2, 'name+file': 1}
        short = {}
        for rel, q in classes_in_scope:
            short.setdefault(q.rsplit('.', 1)[-1], []).append((rel, q))
        for u, level, line, ev in out:
            if u.cls and level in ('dotted', 'name+class'):
                same = [c for c in short.get(u.cls.rsplit('.', 1)[-1], []) if (c[0], c[1] + '.' + u.name) in inv.units]
                if len(same) > 1:
                    ev = '[class name shared by %d lark classes named in this file] %s' % (len(same), ev)
            k = u.id
            if k not in best or rank[level] > rank[best[k][1]]:
                best[k] = (u, level, line, ev)
        return sorted(best.values(), key=lambda x: x[0].id), amb, sorted(files_in_scope)


def scan_models(root, inv, log):
    """-> vfiles info: rel -> dict(files_in_scope, n_mentions); fills Unit.modelled"""
    M = Mentions(inv)
    info = {}
    coq = os.path.join(root, 'coq')
    for vf in coq_files(root):
        if vf.startswith('Gen/'):
            continue
        com = coq_comments(open(os.path.join(coq, vf), encoding='utf8', errors='replace').read())
        hits, amb, scope = M.scan(com)
        info[vf] = dict(files_in_scope=scope, mentions=len(hits), ambiguous=[a for a in amb][:20])
        for u, level, line, ev in hits:
            u.modelled.append(dict(vfile=vf, level=level, line=line, text=ev))
    log('coq comments: %d files scanned, %d (function, file) mentions' % (len(info), sum(v['mentions'] for v in info.values())))
    return info, M


# =====================================================================================================
# 5. harness side: property modules, GEN_DEPS, claim text, static detection of observation points
# =====================================================================================================
def _strings_of(node):
    return [n.value for n in ast.walk(node) if isinstance(n, ast.Constant) and isinstance(n.value, str)]


def harness_files(root):
    h = os.path.join(root, 'harness')
    out = [f for f in sorted(os.listdir(h)) if f.endswith('.py')]
    pd = os.path.join(h, 'props')
    if os.path.isdir(pd):
        out += ['props/' + f for f in sorted(os.listdir(pd)) if f.endswith('.py')]
    return [f for f in out if os.path.basename(f) not in ('coverage_map.py',)]


def property_modules(root):
    """property id -> dict(file, gen_deps, theorems, texts={RULE:..., TRUSTED_BASE:..., ...})  (read with ast, not imported)"""
    out = {}
    pd = os.path.join(root, 'harness', 'props')
    for f in sorted(os.listdir(pd)) if os.path.isdir(pd) else []:
        m = re.fullmatch(r'(C\d+)\.py', f)
        if not m:
            continue
        try:
            tree = ast.parse(open(os.path.join(pd, f), encoding='utf8').read())
        except SyntaxError as e:
            out[m.group(1)] = dict(file='props/' + f, gen_deps=[], texts={}, error=str(e))
            continue
        d = dict(file='props/' + f, gen_deps=[], texts={})
        for st in tree.body:
            if isinstance(st, ast.Assign) and len(st.targets) == 1 and isinstance(st.targets[0], ast.Name):
                nm = st.targets[0].id
                if nm == 'GEN_DEPS':
                    d['gen_deps'] = _strings_of(st.value)
                elif nm in ('RULE', 'TRUSTED_BASE', 'ASSUMPTIONS'):
                    d['texts'][nm] = ' '.join(_strings_of(st.value))
        cj = os.path.join(root, 'harness', 'claims.d', m.group(1) + '.json')
        if os.path.exists(cj):
            try:
                c = json.load(open(cj))
                for k in ('text', 'note'):
                    if isinstance(c.get(k), str):
                        d['texts']['claim.' + k] = c[k]
            except ValueError:
                pass
        out[m.group(1)] = d
    return out


def harness_import_graph(root, files):
    """harness file -> set of harness files it imports"""
    mods = {}
    for f in files:
        mods[f[:-3].replace('/', '.')] = f
        if f.startswith('props/'):
            mods.setdefault(f[len('props/'):-3], f) if False else None
    g = {f: set() for f in files}
    for f in files:
        try:
            tree = ast.parse(open(os.path.join(root, 'harness', f), encoding='utf8').read())
        except SyntaxError:
            continue
        pkg = 'props' if f.startswith('props/') else ''
        for n in ast.walk(tree):
            names = []
            if isinstance(n, ast.Import):
                names = [a.name for a in n.names]
            elif isinstance(n, ast.ImportFrom):
                base = n.module or ''
                if n.level:
                    base = (pkg + '.' + base).strip('.') if base else pkg
                names = [base] + [base + '.' + a.name for a in n.names]
            for nm in names:
                if nm in mods and mods[nm] != f:
                    g[f].add(mods[nm])
    return g


class LarkNS:
    """static namespace of the lark package: resolves dotted access paths to modules / classes / functions"""

    def __init__(self, inv):
        self.inv = inv
        self.mods = {}
        for rel in inv.files:
            d = rel[:-3].replace('/', '.')
            if d.endswith('.__init__'):
                d = d[:-len('.__init__')]
            self.mods[d] = rel
        self.top, self.imports, self.bases = {}, {}, {}
        for rel, f in inv.files.items():
            dotted = [k for k, v in self.mods.items() if v == rel][0]
            pkg = dotted if rel.endswith('__init__.py') else dotted.rsplit('.', 1)[0]
            top, imp = {}, {}
            for u in f['units']:
                if not u.cls:
                    top.setdefault(u.qual, ('func', rel, u.key))
            for q, node in f['classes'].items():
                if '.' not in q:
                    top[q] = ('class', rel, q)
                self.bases[(rel, q)] = node.bases
            for n in ast.walk(f['tree']):
                if isinstance(n, ast.ImportFrom):
                    base = n.module or ''
                    if n.level:
                        up = pkg.split('.')
                        up = up[:len(up) - (n.level - 1)] if n.level > 1 else up
                        base = '.'.join(up + ([base] if base else []))
                    for a in n.names:
                        imp.setdefault(a.asname or a.name, (base, a.name))
                elif isinstance(n, ast.Import):
                    for a in n.names:
                        if a.asname:
                            imp.setdefault(a.asname, (a.name, None))
            self.top[rel], self.imports[rel] = top, imp

    def mod(self, dotted):
        return ('mod', dotted) if dotted in self.mods else None

    def attr(self, ent, name, depth=0):
        if ent is None or depth > 8:
            return None
        if ent[0] == 'mod':
            d = ent[1]
            rel = self.mods[d]
            if name in self.top[rel]:
                return self.top[rel][name]
            if d + '.' + name in self.mods:
                return ('mod', d + '.' + name)
            if name in self.imports[rel]:
                md, on = self.imports[rel][name]
                if on is None:
                    return self.mod(md)
                if md in self.mods:
                    return self.attr(('mod', md), on, depth + 1)
            return None
        if ent[0] == 'class':
            _, rel, q = ent
            if (rel, q + '.' + name) in self.inv.units:
                return ('func', rel, q + '.' + name)
            if q + '.' + name in self.inv.files[rel]['classes']:
                return ('class', rel, q + '.' + name)
            dotted = [k for k, v in self.mods.items() if v == rel][0]
            for b in self.bases.get((rel, q), []):
                be = self.expr(b, ('mod', dotted))
                if be and be[0] == 'class' and be != ent:
                    r = self.attr(be, name, depth + 1)
                    if r:
                        return r
            return None
        if ent[0] == 'func' and name in ('__code__', 'fget', 'fset', '__func__', '__wrapped__', '__get__'):
            return ent
        return None

    def expr(self, e, modent):
        if isinstance(e, ast.Name):
            return self.attr(modent, e.id)
        if isinstance(e, ast.Attribute):
            return self.attr(self.expr(e.value, modent), e.attr)
        if isinstance(e, ast.Subscript):
            return self.expr(e.value, modent)
        return None

    def dotted(self, s):
        parts = s.split('.')
        for i in range(len(parts), 0, -1):
            ent = self.mod('.'.join(parts[:i]))
            if ent:
                for p in parts[i:]:
                    ent = self.attr(ent, p)
                return ent
        return None


def scan_harness_file(path, relname, ns, inv):
    """-> [dict(unit, kind, line, text)] observation evidence in one harness file (static, heuristic)"""
    try:
        src = open(path, encoding='utf8').read()
        tree = ast.parse(src)
    except (SyntaxError, OSError):
        return []
    lines = src.split('\n')
    parent, scope, outer = {}, {}, {None: None}
    FUN = (ast.FunctionDef, ast.AsyncFunctionDef, ast.Lambda)

    def index(n, sc):
        scope[n] = sc
        inner = n if isinstance(n, FUN) else sc
        if inner is not sc:
            outer[inner] = sc
        for c in ast.iter_child_nodes(n):
            parent[c] = n
            index(c, inner)
    sys.setrecursionlimit(max(10000, sys.getrecursionlimit()))
    index(tree, None)
    env = {}            # (scope, name) -> entities; names bound in a function are visible there and in nested functions

    def bind(sc, name, ents):
        ents = {e for e in ents if e}
        if ents - env.get((sc, name), set()):
            env.setdefault((sc, name), set()).update(ents)
            return True
        return False

    def lookup(sc, name):
        while True:
            if (sc, name) in env:
                return env[(sc, name)]
            if sc is None:
                return set()
            sc = outer.get(sc)

    def resolve(e):
        if isinstance(e, ast.Name):
            return lookup(scope.get(e), e.id)
        if isinstance(e, ast.Attribute):
            return {ns.attr(x, e.attr) for x in resolve(e.value)} - {None}
        if isinstance(e, ast.Subscript) and isinstance(e.value, ast.Attribute) and e.value.attr == '__dict__' \
                and isinstance(e.slice, ast.Constant) and isinstance(e.slice.value, str):
            return {ns.attr(x, e.slice.value) for x in resolve(e.value.value)} - {None}
        if isinstance(e, ast.Call):
            f = e.func
            if isinstance(f, ast.Name) and f.id == 'getattr' and len(e.args) >= 2 and isinstance(e.args[1], ast.Constant) \
                    and isinstance(e.args[1].value, str):
                return {ns.attr(x, e.args[1].value) for x in resolve(e.args[0])} - {None}
            if isinstance(f, (ast.Name, ast.Attribute)) and (getattr(f, 'id', None) or getattr(f, 'attr', None)) in \
                    ('import_module', '__import__') and e.args and isinstance(e.args[0], ast.Constant) \
                    and isinstance(e.args[0].value, str):
                return {ns.mod(e.args[0].value)} - {None}
        return set()

    def assign(t, v):
        ch = False
        if isinstance(t, ast.Name):
            ch |= bind(scope.get(t), t.id, resolve(v))
        elif isinstance(t, (ast.Tuple, ast.List)) and isinstance(v, (ast.Tuple, ast.List)) and len(t.elts) == len(v.elts):
            for a, b in zip(t.elts, v.elts):
                ch |= assign(a, b)
        return ch

    for _ in range(6):
        changed = False
        for n in ast.walk(tree):
            if isinstance(n, ast.Import):
                for a in n.names:
                    if a.name == 'lark' or a.name.startswith('lark.'):
                        changed |= bind(scope.get(n), a.asname, {ns.mod(a.name)}) if a.asname \
                            else bind(scope.get(n), 'lark', {ns.mod('lark')})
            elif isinstance(n, ast.ImportFrom) and not n.level and n.module and (n.module == 'lark' or n.module.startswith('lark.')):
                for a in n.names:
                    ent = ns.attr(ns.mod(n.module), a.name) if ns.mod(n.module) else None
                    changed |= bind(scope.get(n), a.asname or a.name, {ent or ns.mod(n.module + '.' + a.name)})
            elif isinstance(n, ast.Assign):
                for t in n.targets:
                    changed |= assign(t, n.value)
            elif isinstance(n, ast.NamedExpr):
                changed |= assign(n.target, n.value)
        if not changed:
            break

    ev = {}

    def add(ent, kind, node):
        if not ent or ent[0] != 'func':
            return
        u = inv.units.get((ent[1], ent[2]))
        if u is None:
            return
        k = (u.id, kind)
        if k in ev:
            ev[k]['n'] += 1
            return
        ev[k] = dict(unit=u, kind=kind, line=node.lineno, n=1, harness=relname,
                     text=' '.join(lines[node.lineno - 1].split())[:140])

    for n in ast.walk(tree):
        if isinstance(n, (ast.Assign, ast.AugAssign, ast.AnnAssign)):
            tgs = n.targets if isinstance(n, ast.Assign) else [n.target]
            flat = []
            for t in tgs:
                flat += t.elts if isinstance(t, (ast.Tuple, ast.List)) else [t]
            for t in flat:
                if isinstance(t, ast.Attribute):
                    for base in resolve(t.value):
                        if base[0] in ('class', 'mod'):
                            add(ns.attr(base, t.attr), 'patched', n)
        elif isinstance(n, ast.Call):
            f = n.func
            fname = f.id if isinstance(f, ast.Name) else f.attr if isinstance(f, ast.Attribute) else ''
            if fname == 'setattr' and len(n.args) >= 2 and isinstance(n.args[1], ast.Constant) and isinstance(n.args[1].value, str):
                for base in resolve(n.args[0]):
                    add(ns.attr(base, n.args[1].value), 'patched', n)
            elif fname == 'object' and isinstance(f, ast.Attribute) and isinstance(f.value, ast.Attribute) and f.value.attr == 'patch' \
                    and len(n.args) >= 2 and isinstance(n.args[1], ast.Constant) and isinstance(n.args[1].value, str):
                for base in resolve(n.args[0]):
                    add(ns.attr(base, n.args[1].value), 'patched', n)
            elif fname == 'patch' and n.args and isinstance(n.args[0], ast.Constant) and isinstance(n.args[0].value, str) \
                    and n.args[0].value.startswith('lark'):
                add(ns.dotted(n.args[0].value), 'patched', n)
        if isinstance(n, (ast.Attribute, ast.Name)) and isinstance(getattr(n, 'ctx', None), ast.Load):
            p = parent.get(n)
            if isinstance(p, ast.Attribute) and p.value is n and p.attr in ('fget', 'fset', '__func__', '__wrapped__', '__get__'):
                continue          # reported at the enclosing node
            for ent in resolve(n):
                if ent[0] != 'func':
                    continue
                kind = 'referenced'
                q = p
                if isinstance(n, ast.Attribute) and n.attr == '__code__':
                    kind = 'traced'
                if isinstance(q, ast.Attribute) and q.value is n and q.attr == '__code__':
                    continue      # the enclosing X.__code__ node is reported as 'traced'
                if isinstance(q, ast.Call) and n in q.args:
                    fn = q.func
                    nm = fn.id if isinstance(fn, ast.Name) else fn.attr if isinstance(fn, ast.Attribute) else ''
                    if nm in ('getsource', 'getsourcelines', 'getsourcefile'):
                        kind = 'traced'
                add(ent, kind, n)
    return list(ev.values())


def scan_harness(root, inv, log):
    ns = LarkNS(inv)
    files = harness_files(root)
    per_file = {}
    for f in files:
        evs = scan_harness_file(os.path.join(root, 'harness', f), 'harness/' + f, ns, inv)
        per_file[f] = evs
        for e in evs:
            e['unit'].observed.append({k: v for k, v in e.items() if k != 'unit'})
    log('harness: %d files scanned, %d observation references' % (len(files), sum(len(v) for v in per_file.values())))
    return per_file, harness_import_graph(root, files)


def scan_claims(props, M):
    """mentions in RULE / TRUSTED_BASE / ASSUMPTIONS / claims.d text: recorded, never a reason to call something modelled"""
    for pid, d in sorted(props.items()):
        for where, text in sorted(d.get('texts', {}).items()):
            hits, _, _ = M.scan([(0, text)])
            for u, level, line, ev in hits:
                u.claims.append(dict(prop=pid, where=where, level=level))


# =====================================================================================================
# 6. optional: which functions do the correspondence streams execute?  (--trace, slow; result cached in a file)
# =====================================================================================================
def trace_child(root, repo, prop, out):
    """runs props.<prop>.correspond(ctx) with a PY_START monitor on the files of repo/lark; dumps the functions entered"""
    os.environ['VERIF_REPO'] = repo
    sys.path[:0] = [os.path.join(root, 'harness'), repo]
    prefix = os.path.realpath(os.path.join(repo, 'lark')) + os.sep
    hits = set()
    mon = sys.monitoring
    tool = mon.PROFILER_ID
    mon.use_tool_id(tool, 'coverage_map')

    def on_start(code, offset):
        fn = code.co_filename
        if fn.startswith(prefix) or os.path.realpath(fn).startswith(prefix):
            hits.add((os.path.relpath(os.path.realpath(fn), os.path.realpath(repo)), code.co_qualname, code.co_firstlineno))
        return mon.DISABLE
    mon.register_callback(tool, mon.events.PY_START, on_start)
    mon.set_events(tool, mon.events.PY_START)
    status = 'ok'

    def dump():
        json.dump(dict(status=status, hits=sorted(hits)), open(out, 'w'))

    def on_term(sig, frm):
        raise SystemExit(3)
    signal.signal(signal.SIGTERM, on_term)
    ctx = None
    try:
        import lib
        ctx = lib.Ctx(prop, 'quick', int(os.environ.get('VERIF_SEED', '0') or 0))
        ctx.proof_broken, ctx.tie_broken, ctx.widen = [], [], False
        mod = importlib.import_module('props.' + prop)
        mod.correspond(ctx)
    except SystemExit:
        status = 'interrupted (time limit): partial'
    except BaseException:
        status = 'exception: ' + traceback.format_exc()[-400:]
    finally:
        mon.set_events(tool, 0)
        dump()
        if ctx is not None:
            ctx.cleanup()


def run_trace(root, repo, ids, timeout, jobs, log, path=None):
    path = path or os.path.join(root, 'harness', 'coverage_trace.json')
    data = dict(tool_version=TOOL_VERSION, repo_head=git_head(repo), props={})
    if os.path.exists(path):
        try:
            old = json.load(open(path))
            if old.get('repo_head') == data['repo_head']:
                data['props'] = old.get('props', {})
        except ValueError:
            pass
    tmp = tempfile.mkdtemp(prefix='covtrace_')
    pending, running = list(ids), []
    try:
        while pending or running:
            while pending and len(running) < jobs:
                pid = pending.pop(0)
                out = os.path.join(tmp, pid + '.json')
                p = subprocess.Popen([sys.executable, os.path.abspath(__file__), '--root', root, '--repo', repo,
                                      '--trace-child', pid, out], stdout=subprocess.DEVNULL, stderr=subprocess.DEVNULL,
                                     cwd=root)
                running.append((pid, p, out, time.time(), False))
                log('trace %s started' % pid)
            time.sleep(1)
            for item in list(running):
                pid, p, out, t0, termed = item
                if p.poll() is None:
                    if time.time() - t0 > timeout and not termed:
                        p.terminate()
                        running[running.index(item)] = (pid, p, out, t0, True)
                    elif time.time() - t0 > timeout + 30:
                        p.kill()
                    continue
                running.remove(item)
                try:
                    r = json.load(open(out))
                except (OSError, ValueError):
                    r = dict(status='no output (killed?)', hits=[])
                data['props'][pid] = dict(status=r['status'], seconds=round(time.time() - t0, 1), hits=r['hits'])
                log('trace %s: %s, %d code objects of lark entered, %.0fs' % (pid, r['status'][:60], len(r['hits']), time.time() - t0))
    finally:
        shutil.rmtree(tmp, ignore_errors=True)
    json.dump(data, open(path, 'w'), indent=0, sort_keys=True)
    log('wrote ' + path)


def load_trace(root, repo, inv, path=None):
    path = path or os.path.join(root, 'harness', 'coverage_trace.json')
    if not os.path.exists(path):
        return None
    try:
        data = json.load(open(path))
    except ValueError:
        return None
    info = dict(path=os.path.relpath(path, root) if path.startswith(root + os.sep) else path, repo_head=data.get('repo_head'), stale=data.get('repo_head') != git_head(repo),
                props={})
    for pid, d in sorted(data.get('props', {}).items()):
        n = 0
        for rel, qual, line in d.get('hits', []):
            base = qual.split('.<locals>')[0]
            cands = [u for u in inv.files.get(rel, {}).get('units', []) if u.qual == base]
            if len(cands) > 1:
                cands = [u for u in cands if u.first <= line <= u.end] or cands[:1]
            for u in cands:
                if pid not in u.exercised:
                    u.exercised.append(pid)
                    n += 1
        info['props'][pid] = dict(status=d.get('status'), seconds=d.get('seconds'), functions=n)
    return info


# =====================================================================================================
# 7. classification, attribution, report
# =====================================================================================================
def git_head(path):
    try:
        h = subprocess.run(['git', '-C', path, 'rev-parse', '--short', 'HEAD'], stdout=subprocess.PIPE,
                           stderr=subprocess.DEVNULL, text=True, timeout=20).stdout.strip()
        d = subprocess.run(['git', '-C', path, 'status', '--porcelain', '--untracked-files=no'], stdout=subprocess.PIPE,
                           stderr=subprocess.DEVNULL, text=True, timeout=20).stdout.strip()
        return h + ('+dirty' if d else '') if h else 'unknown'
    except (OSError, subprocess.SubprocessError):
        return 'unknown'


def classify(u):
    kinds = {p['kind'] for p in u.pins.values()}
    if 'template' in kinds:
        return 'regenerated'
    if 'template-part' in kinds:
        return 'regenerated-part'
    if u.modelled:
        return 'modelled'
    if u.observed:
        return 'observed'
    if 'located' in kinds:
        return 'analysed'
    if 'inventory' in kinds:
        return 'inventoried'
    if u.exercised:
        return 'exercised-only'
    return 'outside'


def flags(u):
    kinds = {p['kind'] for p in u.pins.values()}
    f = ''
    f += 'R' if 'template' in kinds else ''
    f += 'r' if 'template-part' in kinds else ''
    f += 'a' if 'located' in kinds else ''
    f += 'I' if 'inventory' in kinds else ''
    f += 'M' if u.modelled else ''
    ok = {o['kind'] for o in u.observed}
    f += 'O' if ok & {'patched', 'traced'} else ('o' if ok else '')
    f += 'E' if u.exercised else ''
    f += 'c' if u.claims else ''
    return f or '-'


def attribute(root, inv, props, deps, graph):
    """property id -> dict(gen_deps, gen_in_closure, model_files, harness_files, regenerated, inventoried, modelled, observed)"""
    out = {}
    vfiles = set(deps)
    ids = sorted(set(props) | {f[len('Props/'):-2] for f in vfiles if re.fullmatch(r'Props/C\d+\.v', f)})
    for pid in ids:
        d = props.get(pid, dict(file=None, gen_deps=[], texts={}))
        clo = closure(deps, 'Props/%s.v' % pid) if 'Props/%s.v' % pid in vfiles else []
        gen_clo = sorted(f[len('Gen/'):-2] for f in clo if f.startswith('Gen/'))
        stems = sorted(set(d['gen_deps']) | set(gen_clo))
        hfiles = []
        if d.get('file'):
            todo = [d['file']]
            while todo:
                x = todo.pop()
                if x in hfiles:
                    continue
                hfiles.append(x)
                todo += sorted(graph.get(x, ()))
        hfiles = [h for h in hfiles if os.path.basename(h) not in ('lib.py', 'check.py')]
        hset = {'harness/' + h for h in hfiles}
        reg, invd, mod, obs = [], [], [], []
        for u in inv.all_units():
            ps = {s: p for s, p in u.pins.items() if s in stems}
            strong = {s: p for s, p in ps.items() if p['kind'] != 'inventory'}
            if strong:
                reg.append(dict(unit=u.id, pins={s: p['kind'] for s, p in sorted(strong.items())}))
            elif ps:
                invd.append(u.id)
            ms = [m for m in u.modelled if m['vfile'] in clo]
            if ms:
                mod.append(dict(unit=u.id, files=sorted({m['vfile'] for m in ms}),
                                best=max(ms, key=lambda m: {'dotted': 3, 'name+class': 2, 'name+file': 1}[m['level']])['level']))
            os_ = [o for o in u.observed if o['harness'] in hset]
            if os_:
                obs.append(dict(unit=u.id, how=sorted({o['kind'] for o in os_}),
                                where=sorted({'%s:%d' % (o['harness'], o['line']) for o in os_})))
        out[pid] = dict(module=d.get('file'), gen_deps=sorted(d['gen_deps']), gen_in_closure=gen_clo,
                        gen_declared_not_required=sorted(set(d['gen_deps']) - set(gen_clo)),
                        gen_required_not_declared=sorted(set(gen_clo) - set(d['gen_deps'])),
                        model_files=[f for f in clo if not f.startswith('Gen/')], harness_files=hfiles,
                        regenerated=reg, inventoried=invd, modelled=mod, observed=obs,
                        mentioned_in_claim_text=sorted({u.id for u in inv.all_units() for c in u.claims if c['prop'] == pid}))
    return out


def build_json(root, repo, inv, gens, rec, vinfo, props_attr, trace_info, dep_how, probes_run):
    units = []
    for u in inv.all_units():
        units.append(dict(
            file=u.file, qualname=u.key, kind=u.kind, line=u.line, end=u.end, loc=u.loc, cls=classify(u), flags=flags(u),
            pins={s: dict(kind=p['kind'], via=sorted(p['via']), probe=p['probe']) for s, p in sorted(u.pins.items())},
            modelled=u.modelled, observed=u.observed, claims=u.claims, exercised=sorted(u.exercised)))
    files = {}
    for rel, f in sorted(inv.files.items()):
        row = dict(loc_total=f['loc_total'], loc_nonfunction=f['loc_nonfunc'], functions=len(f['units']),
                   loc_functions=sum(u.loc for u in f['units']), classes={c: dict(n=0, loc=0) for c in CLASSES})
        for u in f['units']:
            c = row['classes'][classify(u)]
            c['n'] += 1
            c['loc'] += u.loc
        files[rel] = row
    generators = {}
    for stem, g in gens.items():
        kinds = {}
        for u in inv.all_units():
            if stem in u.pins:
                k = u.pins[stem]['kind']
                kinds[k] = kinds.get(k, 0) + 1
        generators[stem] = dict(ok=g['ok'], message=g['message'], module=g['module'], committed_gen_file=g['committed'],
                                lark_files_parsed=sorted(rec.parsed.get(stem, ())), pins=kinds,
                                unmatched_in_assembled_program=rec.foreign_unmatched.get(stem, []))
    return dict(
        meta=dict(tool_version=TOOL_VERSION, repo=repo, repo_head=git_head(repo), verif_head=git_head(root),
                  coq_dependencies_from=dep_how, probes_run=probes_run,
                  exercised_class=('from %s (traced on lark @ %s%s; %d properties: %s)' % (
                      trace_info['path'], trace_info['repo_head'], ', STALE: lark has changed since' if trace_info['stale'] else '',
                      len(trace_info['props']), ' '.join(sorted(trace_info['props'])))) if trace_info
                  else 'not determined (merged with outside)'),
        generators=generators, files=files, units=units,
        nonfunction_pins=sorted({(s, how, rel, snip) for s, how, rel, snip in rec.nonfunc}),
        model_files={vf: dict(lark_files_named=v['files_in_scope'], functions_named=v['mentions'])
                     for vf, v in sorted(vinfo.items()) if v['mentions'] or v['files_in_scope']},
        properties=props_attr, trace=trace_info)


def _md(s):
    return str(s).replace('|', '\\|').replace('\n', ' ')


def _short(uid):
    return uid.replace('lark/', '', 1)


CAVEATS = [
    "Class 1 is *measured*: it lists what the translator really touched while regenerating (instrumented run), and each pin "
    "was probed by inserting one statement. `template` = whole body unified with a fail-closed source template "
    "(probe must say `breaks`). `template-part` = only some statements are unified; `located` = the translator found the "
    "function (find_def / ad-hoc `ast` inspection such as a write-set analysis, a format string, a loop shape) - the extent of "
    "such a pin is unknown to this tool, and `insensitive` means the inserted statement went unnoticed. What is *proved* about "
    "regenerated text is a matter of the Coq development, not of this map.",
    "Accesses the instrumentation cannot see: direct attribute walking of class-level assignments (e.g. "
    "`__serialize_fields__` tuples read by gen_serialize) and module-level constants read without `const_int`; whole-tree "
    "sweeps (gen_instance's process-wide-state scan parses every file: see 'lark files parsed' per generator) are not pins.",
    "`inventoried` (Gen/Standalone.v) records only names, global references and an AST hash of each definition of the "
    "stand-alone sections; no logic of these functions is regenerated.",
    "Class 2 is a *heuristic text match* on Coq comments: `dotted` = `Class.method` / `module.function` spelled out with the "
    "class or file identified; `name+class` = bare name, its class named in the same comment (or anywhere in the file when "
    "the name is unique in lark); `name+file` = bare name, only the lark file is named in that .v file. Plain lower-case "
    "words (`parse`, `match`, `serialize`) count only in code form (`name(`, backticks, `self.name`) next to the class name. A mention "
    "says the author related a definition to that function; it does not say how faithfully, and functions modelled without "
    "being named are missed. Mentions in RULE / TRUSTED_BASE / ASSUMPTIONS / claims.d text are shown (flag `c`) but never "
    "make a function `modelled`.",
    "Class 3 is *static*: assignments / setattr / mock.patch to attributes that resolve (through imports and local aliases, "
    "per function scope) to a lark function, code objects taken for trace hooks (`traced`), and class- or module-qualified "
    "references (`referenced`: saved originals, direct calls - an observation point only if the harness compares the result). "
    "Not seen: wrappers installed through computed names or loops (`setattr(cls, name, ...)`), `__getattribute__` tracers, "
    "harness subclasses of lark classes, introspection of live objects (callback chains, parse tables, item sets read from "
    "instances), behaviour observed only through the public API (`Lark(...).parse`). A patch of an inherited method is "
    "attributed to the class that defines it.",
    "Primary class precedence: regenerated (whole-body template) > regenerated-part (some statements unified) > modelled > "
    "observed > analysed (translator located it and ran an ad-hoc fail-closed check only) > inventoried > exercised-only > "
    "outside; the flags column shows every kind of evidence (R template, r template-part, a located, I inventoried, M modelled, "
    "O patched/traced, o referenced only, E exercised, c named in claim text). `@overload` stubs are not counted as functions.",
    "Class 4 (`exercised-only`) comes from `harness/coverage_trace.json` when that file exists (`--trace`: the property's "
    "`correspond(ctx)` is run in the quick tier under a `sys.monitoring` function-entry hook). It covers only the traced "
    "properties, one seed, and not the sub-processes a harness starts (hash-seed sweeps, stand-alone modules under `python -I`); "
    "without the file the class is merged with `outside`.",
    "LOC = lines carrying code between the first decorator and the last line of the function (blank lines, comment-only "
    "lines and docstrings excluded); nested functions count with the enclosing one; `non-function` = class-level and "
    "module-level code.",
]


def render_md(J):
    o = []
    w = o.append
    m = J['meta']
    w('# COVERAGE - which parts of lark are inside the verification, and how\n')
    w('Generated by `harness/coverage_map.py` (do not edit). lark: `%s` @ `%s`; /verif @ `%s`; Coq dependencies from %s; '
      'probes %s; class `exercised-only`: %s.\n' % (m['repo'], m['repo_head'], m['verif_head'], m['coq_dependencies_from'],
                                                   'run' if m['probes_run'] else 'NOT run', m['exercised_class']))
    w('**Reading this file.** It is a map, not a claim of verification: see the caveats.\n')
    for c in CAVEATS:
        w('* ' + c)
    w('')
    bad = [s for s, g in J['generators'].items() if not g['ok']]
    if bad:
        w('> **WARNING**: generator(s) %s FAILED on this tree; pins found after the failing point are missing below.\n' % ', '.join(bad))

    # ---- 1. summary
    w('## 1. Summary per lark source file (primary class; functions / LOC)\n')
    cols = [c for c in CLASSES if c != 'exercised-only' or J['trace']]
    w('| file | functions | ' + ' | '.join(cols) + ' | non-function LOC |')
    w('|---|---:|' + '---:|' * (len(cols) + 1))
    tot = {c: [0, 0] for c in cols}
    tf = tl = tn = 0
    for rel, f in J['files'].items():
        cells = []
        for c in cols:
            x = f['classes'][c]
            tot[c][0] += x['n']
            tot[c][1] += x['loc']
            cells.append('%d / %d' % (x['n'], x['loc']) if x['n'] else '.')
        tf += f['functions']
        tl += f['loc_functions']
        tn += f['loc_nonfunction']
        w('| %s | %d / %d | %s | %d |' % (rel, f['functions'], f['loc_functions'], ' | '.join(cells), f['loc_nonfunction']))
    w('| **total** | **%d / %d** | %s | **%d** |' % (tf, tl, ' | '.join('**%d / %d**' % tuple(tot[c]) for c in cols), tn))
    w('| share of function LOC | | %s | |' % ' | '.join('%.1f%%' % (100.0 * tot[c][1] / max(tl, 1)) for c in cols))
    w('')
    # ---- 2. non-exclusive
    w('## 2. Evidence kinds, non-exclusive (a function may appear in several rows)\n')
    rows = [('pinned by a whole-body template', lambda u: any(p['kind'] == 'template' for p in u['pins'].values())),
            ('  ... of which the insertion probe breaks regeneration', lambda u: any(p['kind'] == 'template' and p['probe'] == 'breaks' for p in u['pins'].values())),
            ('some statements unified with a template (template-part)', lambda u: any(p['kind'] == 'template-part' for p in u['pins'].values())),
            ('located by the translator, ad-hoc check (any probe result)', lambda u: any(p['kind'] == 'located' for p in u['pins'].values())),
            ('  ... of which the insertion probe breaks / changes regeneration', lambda u: any(p['kind'] == 'located' and p['probe'] in ('breaks', 'changes') for p in u['pins'].values())),
            ('inventoried in Gen/Standalone.v (hash + references)', lambda u: any(p['kind'] == 'inventory' for p in u['pins'].values())),
            ('named in a Coq comment: dotted', lambda u: any(x['level'] == 'dotted' for x in u['modelled'])),
            ('named in a Coq comment: any level', lambda u: bool(u['modelled'])),
            ('patched / traced by a harness', lambda u: any(x['kind'] in ('patched', 'traced') for x in u['observed'])),
            ('referenced by a harness (qualified name)', lambda u: bool(u['observed'])),
            ('named in claim / RULE / TRUSTED_BASE text only (no other evidence)', lambda u: bool(u['claims']) and u['cls'] in ('outside', 'exercised-only', 'inventoried')),
            ('executed by a traced correspondence run', lambda u: bool(u['exercised']))]
    w('| evidence | functions | LOC |')
    w('|---|---:|---:|')
    for name, pred in rows:
        sel = [u for u in J['units'] if pred(u)]
        w('| %s | %d | %d |' % (name, len(sel), sum(u['loc'] for u in sel)))
    w('')
    # ---- 3. generators
    w('## 3. Generators (run exactly like `lib.regenerate()`, output kept in memory)\n')
    w('| Gen stem | translator module | result | committed coq/Gen file | lark files parsed | pins (kind: n) |')
    w('|---|---|---|---|---:|---|')
    for stem, g in J['generators'].items():
        w('| %s | %s | %s | %s | %d | %s |' % (stem, g['module'], 'ok' if g['ok'] else 'FAILED: ' + _md(g['message'][:120]),
                                              g['committed_gen_file'], len(g['lark_files_parsed']),
                                              ', '.join('%s: %d' % kv for kv in sorted(g['pins'].items())) or '-'))
    w('')
    for stem, g in J['generators'].items():
        if g['unmatched_in_assembled_program']:
            w('* %s: definitions of the assembled program not identified with one lark definition: %s' % (
                stem, '; '.join(g['unmatched_in_assembled_program'])))
    if J['nonfunction_pins']:
        w('\nTranslator accesses to class-level / module-level code (not functions; as far as instrumented):\n')
        for s, how, rel, snip in J['nonfunction_pins']:
            w('* Gen/%s `%s` %s: `%s`' % (s, how, rel, _md(snip)))
    w('')
    # ---- 4. properties
    w('## 4. Properties -> code\n')
    w('Gen stems: `GEN_DEPS` of `harness/props/<ID>.py` plus the `Gen/` files in the dependency closure of `coq/Props/<ID>.v`. '
      'Model files: that closure. Harness files: the property module and the harness modules it imports.\n')
    for pid, p in J['properties'].items():
        w('### %s\n' % pid)
        w('* Gen stems declared: %s; in the Coq closure: %s%s%s' % (
            ', '.join(p['gen_deps']) or 'none', ', '.join(p['gen_in_closure']) or 'none',
            ('; **declared but not required by Props/%s.v: %s**' % (pid, ', '.join(p['gen_declared_not_required'])))
            if p['gen_declared_not_required'] else '',
            ('; **required but not in GEN_DEPS: %s**' % ', '.join(p['gen_required_not_declared']))
            if p['gen_required_not_declared'] else ''))
        w('* model files (%d): %s' % (len(p['model_files']), ', '.join(p['model_files']) or '-'))
        w('* harness files: %s' % (', '.join(p['harness_files']) or '-'))
        w('* regenerated (%d): %s' % (len(p['regenerated']), '; '.join(
            '`%s` [%s]' % (_short(r['unit']), ', '.join('%s: %s' % kv for kv in r['pins'].items())) for r in p['regenerated']) or '-'))
        if p['inventoried']:
            w('* inventoried only (hash + references): %d definitions' % len(p['inventoried']))
        w('* modelled, heuristic (%d): %s' % (len(p['modelled']), '; '.join(
            '`%s` [%s: %s]' % (_short(r['unit']), r['best'], ', '.join(r['files'][:3]) + (' +%d' % (len(r['files']) - 3) if len(r['files']) > 3 else ''))
            for r in p['modelled']) or '-'))
        w('* observed, static (%d): %s' % (len(p['observed']), '; '.join(
            '`%s` [%s @ %s]' % (_short(r['unit']), '/'.join(r['how']), ', '.join(x.replace('harness/', '') for x in r['where'][:2]))
            for r in p['observed']) or '-'))
        only = [x for x in p['mentioned_in_claim_text']]
        if only:
            w('* named in its RULE / TRUSTED_BASE / ASSUMPTIONS / claim text (%d, no class implied): %s' % (
                len(only), ', '.join('`%s`' % _short(x) for x in only)))
        if J['trace'] and pid in J['trace']['props']:
            t = J['trace']['props'][pid]
            w('* traced run: %s, %s s, %d lark functions entered' % (t['status'], t['seconds'], t['functions']))
        w('')
    # ---- 5. per function
    w('## 5. Per-function listing\n')
    byfile = {}
    for u in J['units']:
        byfile.setdefault(u['file'], []).append(u)
    for rel in J['files']:
        us = byfile.get(rel, [])
        f = J['files'][rel]
        w('### %s  (%d functions, %d LOC in functions, %d LOC outside functions)\n' % (rel, len(us), f['loc_functions'], f['loc_nonfunction']))
        if not us:
            w('(no functions)\n')
            continue
        w('| function | line | LOC | class | flags | evidence |')
        w('|---|---:|---:|---|---|---|')
        for u in us:
            ev = []
            for s, p in u['pins'].items():
                if p['kind'] == 'inventory':
                    ev.append('Gen/%s: inventory' % s)
                else:
                    ev.append('Gen/%s: %s via %s; probe=%s' % (s, p['kind'], '+'.join(p['via']), p['probe']))
            ms = sorted(u['modelled'], key=lambda x: -{'dotted': 3, 'name+class': 2, 'name+file': 1}[x['level']])
            for x in ms[:2]:
                ev.append('%s:%d (%s) "%s"' % (x['vfile'], x['line'], x['level'], x['text'][:90]))
            if len(ms) > 2:
                ev.append('+%d more .v: %s' % (len(ms) - 2, ', '.join(x['vfile'] for x in ms[2:8])))
            for x in sorted(u['observed'], key=lambda x: (x['kind'] == 'referenced', x['harness'], x['line']))[:4]:
                ev.append('%s:%d %s `%s`' % (x['harness'].replace('harness/', ''), x['line'], x['kind'], x['text'][:70]))
            if len(u['observed']) > 4:
                ev.append('+%d more harness references' % (len(u['observed']) - 4))
            if u['claims']:
                ev.append('claim text: ' + ', '.join(sorted({c['prop'] for c in u['claims']})))
            if u['exercised']:
                ev.append('executed by: ' + ', '.join(u['exercised']))
            w('| `%s` | %d | %d | %s | %s | %s |' % (_md(u['qualname']), u['line'], u['loc'], u['cls'], u['flags'],
                                                     _md(' <br> '.join(ev)) if ev else ''))
        w('')
    return '\n'.join(o) + '\n'


# =====================================================================================================
# 8. baseline / --check
# =====================================================================================================
def current_pins(inv):
    out = {}
    for u in inv.all_units():
        if not u.pins:
            continue
        k = '%s::%s' % (u.file, u.qual)
        e = out.setdefault(k, dict(kind='inventory', stems={}))
        for s, p in u.pins.items():
            if PIN_RANK[p['kind']] > PIN_RANK.get(e['stems'].get(s, ''), 0):
                e['stems'][s] = p['kind']
            if PIN_RANK[p['kind']] > PIN_RANK[e['kind']]:
                e['kind'] = p['kind']
    return out


def check_baseline(root, inv, gens, strict, log):
    path = os.path.join(root, 'harness', 'coverage_baseline.json')
    if not os.path.exists(path):
        print('coverage_map --check: no baseline %s (run --update-baseline)' % path)
        return 2
    base = json.load(open(path))['pins']
    cur = current_pins(inv)
    failed = [s for s, g in gens.items() if not g['ok']]
    lost, weaker, lost_inv, new = [], [], [], []
    for k, b in sorted(base.items()):
        c = cur.get(k)
        if b['kind'] == 'inventory':
            if c is None:
                lost_inv.append(k)
            continue
        if c is None or c['kind'] == 'inventory':
            lost.append((k, b))
            continue
        for s, kind in sorted(b['stems'].items()):
            if kind == 'inventory':
                continue
            ck = c['stems'].get(s)
            if ck is None or ck == 'inventory':
                lost.append((k, dict(kind=kind, stems={s: kind})))
            elif PIN_RANK[ck] < PIN_RANK[kind]:
                weaker.append((k, s, kind, ck))
    for k, c in sorted(cur.items()):
        if c['kind'] != 'inventory' and (k not in base or base[k]['kind'] == 'inventory'):
            new.append(k)
    for s in failed:
        print('PIN-CHECK generator %s FAILED on this tree (%s): its pins cannot be confirmed' % (s, gens[s]['message'][:160]))
    for k, b in lost:
        print('PIN-LOST %s was %s (%s) in the baseline and is no longer pinned%s' % (
            k, b['kind'], ', '.join('Gen/%s: %s' % kv for kv in sorted(b['stems'].items())),
            '' if (k.split('::')[0], k.split('::')[1]) in inv.units else ' (the function no longer exists under that name)'))
    for k, s, was, now in weaker:
        print('PIN-WEAKER %s Gen/%s: %s -> %s' % (k, s, was, now))
    for k in lost_inv:
        print('INVENTORY-LOST %s is no longer in the stand-alone inventory' % k)
    for k in new:
        print('PIN-NEW %s (%s) is not in the baseline (run --update-baseline to record it)' % (
            k, ', '.join('Gen/%s: %s' % kv for kv in sorted(cur[k]['stems'].items()))))
    bad = bool(lost or failed) or (strict and bool(weaker or lost_inv))
    print('coverage_map --check: %d baseline pins, %d lost, %d weaker, %d inventory entries lost, %d new, %d generators failed -> %s'
          % (sum(1 for b in base.values() if b['kind'] != 'inventory'), len(lost), len(weaker), len(lost_inv), len(new),
             len(failed), 'FAIL' if bad else 'ok'))
    return 1 if bad else 0


# =====================================================================================================
def main():
    ap = argparse.ArgumentParser(description=__doc__.split('\n')[0])
    ap.add_argument('--root', default=os.path.dirname(HERE), help='the /verif tree to analyse (default: the tree of this script)')
    ap.add_argument('--repo', default=os.environ.get('VERIF_REPO', '/repo'), help='lark source root (default $VERIF_REPO or /repo)')
    ap.add_argument('--out', help='path of the markdown report (default <root>/COVERAGE.md)')
    ap.add_argument('--json', metavar='PATH', help="also write the JSON form ('-' = stdout)")
    ap.add_argument('--check', action='store_true', help='compare the pins with harness/coverage_baseline.json; exit 1 if one is lost')
    ap.add_argument('--strict', action='store_true', help='with --check: a weakened pin or a lost inventory entry also fails')
    ap.add_argument('--update-baseline', action='store_true', help='write harness/coverage_baseline.json')
    ap.add_argument('--no-probe', action='store_true', help='skip the insertion probes')
    ap.add_argument('--probe-budget', type=float, default=75.0, help='seconds allowed for the probes')
    ap.add_argument('--trace', metavar='IDS', help="run the correspondence of these properties (comma separated, or 'all') under a "
                                                   "function-entry monitor and write harness/coverage_trace.json (slow)")
    ap.add_argument('--trace-file', help='where the trace is kept (default <root>/harness/coverage_trace.json)')
    ap.add_argument('--trace-timeout', type=float, default=600.0)
    ap.add_argument('--trace-jobs', type=int, default=3)
    ap.add_argument('--trace-child', nargs=2, metavar=('ID', 'OUT'), help=argparse.SUPPRESS)
    ap.add_argument('-q', '--quiet', action='store_true')
    a = ap.parse_args()
    root, repo = os.path.abspath(a.root), os.path.abspath(a.repo)
    if a.trace_child:
        trace_child(root, repo, a.trace_child[0], a.trace_child[1])
        return 0
    t0 = time.time()

    def log(s):
        if not a.quiet:
            print('[coverage_map %5.1fs] %s' % (time.time() - t0, s), file=sys.stderr)
    os.environ['VERIF_REPO'] = repo
    inv = Inventory(repo)
    log('lark: %d files, %d functions/methods' % (len(inv.files), len(inv.units)))
    if a.trace:
        ids = sorted(property_modules(root)) if a.trace == 'all' else [x for x in a.trace.split(',') if x]
        run_trace(root, repo, ids, a.trace_timeout, a.trace_jobs, log, a.trace_file)
        return 0
    gens, rec, pyunify = run_generators(root, repo, inv, log)
    rec.uninstall(pyunify)
    fold_pins(inv, rec)
    if a.check:
        return check_baseline(root, inv, gens, a.strict, log)
    if not a.no_probe:
        run_probes(repo, inv, gens, log, a.probe_budget)
    vinfo, M = scan_models(root, inv, log)
    props = property_modules(root)
    scan_claims(props, M)
    per_file, graph = scan_harness(root, inv, log)
    deps, dep_how = coq_deps(root, coq_files(root))
    trace_info = load_trace(root, repo, inv, a.trace_file)
    attr = attribute(root, inv, props, deps, graph)
    J = build_json(root, repo, inv, gens, rec, vinfo, attr, trace_info, dep_how, not a.no_probe)
    out = a.out or os.path.join(root, 'COVERAGE.md')
    open(out, 'w', encoding='utf8').write(render_md(J))
    log('wrote ' + out)
    if a.json:
        txt = json.dumps(J, indent=1, sort_keys=True, default=list)
        if a.json == '-':
            print(txt)
        else:
            open(a.json, 'w').write(txt + '\n')
            log('wrote ' + a.json)
    if a.update_baseline:
        p = os.path.join(root, 'harness', 'coverage_baseline.json')
        json.dump(dict(tool_version=TOOL_VERSION, repo_head=git_head(repo), pins=current_pins(inv)), open(p, 'w'),
                  indent=1, sort_keys=True)
        open(p, 'a').write('\n')
        log('wrote ' + p)
    if not a.quiet:
        cnt = {}
        for u in inv.all_units():
            cnt[classify(u)] = cnt.get(classify(u), 0) + 1
        print('coverage_map: ' + ', '.join('%s %d' % (c, cnt.get(c, 0)) for c in CLASSES) + ' (%.0fs)' % (time.time() - t0),
              file=sys.stderr)
    return 0 if all(g['ok'] for g in gens.values()) else 3


if __name__ == '__main__':
    sys.exit(main())
