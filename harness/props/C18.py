"""C18 - Indenter emits CPython's INDENT/DEDENT structure."""
import io
import tokenize

from lib import coq_term_str as S, coq_list as L, coq_Z as Z, coq_nat as N

THEOREMS = ['C18_newline_rule', 'C18_bracket_silent', 'C18_stream_invariant', 'C18_balanced',
            'C18_reset', 'C18_open_levels', 'C18_newline_is_line_step', 'C18_example',
            'C18_dedent_error_iff', 'C18_assert_iff_unmatched', 'C18_positions_forget', 'C18_indent_tokens_positions',
            'C18_no_zero_position_dedent', 'C18_example_positions']
GEN_DEPS = ['IndenterHoles', 'IndenterPos']
RULE = ('random token streams (indent widths from spaces/tabs, blank lines, nested and unbalanced brackets, dedents to '
        'non-levels, NL tokens lacking a newline) in sequences of 1-4 streams on ONE Indenter object (earlier streams '
        'may fail or be abandoned half-way); non-trivial = distinct case whose output contains >= 1 INDENT and >= 1 DEDENT')
TRUSTED_BASE = ['Indenter control skeleton pinned by translator templates (IND_HANDLE_NL/IND_PROCESS_/IND_PROCESS); '
                'conditions, increments and constants regenerated',
                'Token.new_borrow_pos / Token._future_new pinned by templates (translator/gen_indpos.py); a position is one abstract '
                'value standing for the six fields (the harness gives every input token six equal numbers and requires six equal '
                'numbers back)']
ASSUMPTIONS = ['token streams are finite lists; NL tokens are those whose type equals NL_type',
               'CPython tokenize comparison validates the reference reading only for space-only or tab-only indentation']

IMPORTS = 'From LV Require Import Base.Prelude Sys.IndenterBase Sys.Indenter Sys.IndenterCheck Sys.IndenterPos.'
STATUS = {'Done': 0, 'DedentError': 1, 'AssertionError': 2, 'IndexError': 3}


def make_indenter(tab_len, opens=('LP', 'LB'), closes=('RP', 'RB')):
    from lark.indenter import Indenter

    I = type('I', (Indenter,), dict(NL_type='NL', OPEN_PAREN_types=list(opens), CLOSE_PAREN_types=list(closes),
                                    INDENT_type='IN', DEDENT_type='DE', tab_len=tab_len))
    return I()


def gen_stream(rng, tab_len, wild):
    """token list [(type, value)]; mostly valid Python-like structure, with a controlled error rate"""
    toks = []
    levels = [0]
    depth = 0
    n = rng.randint(0, 14)
    for _ in range(n):
        r = rng.random()
        if r < 0.45:
            # newline with an indentation choice
            c = rng.random()
            if depth > 0 and c < 0.7:
                ind = rng.choice(['', ' ', '   ', '\t', ' \t '])
            elif c < 0.35:
                w = levels[-1] + rng.randint(1, 4)
                levels.append(w)
                ind = None
            elif c < 0.65:
                w = levels[-1]
                ind = None
            elif c < 0.9:
                k = rng.randrange(len(levels))
                del levels[k + 1:]
                w = levels[-1]
                ind = None
            else:
                w = rng.randint(0, levels[-1] + 2)   # possibly not an open level
                ind = None
                if depth == 0:
                    while levels and levels[-1] > w:
                        levels.pop()
                    if not levels or levels[-1] != w:
                        levels = levels or [0]
            if ind is None:
                if rng.random() < 0.3 and w >= tab_len:
                    ind = '\t' * (w // tab_len) + ' ' * (w % tab_len)
                elif rng.random() < 0.1:
                    ind = ' ' * (w % tab_len) + '\t' * (w // tab_len)
                else:
                    ind = ' ' * w
            nls = '\n' * rng.randint(1, 2) if rng.random() < 0.9 else '\n  \n'
            val = rng.choice(['', '', '', '# c', ' ']) + nls + ind
            if wild and rng.random() < 0.04:
                val = ind  # NL token without a newline: IndexError in the code
            toks.append(('NL', val))
        elif r < 0.6:
            toks.append((rng.choice(['LP', 'LB']), '('))
            depth += 1
        elif r < 0.72:
            if depth > 0 or (wild and rng.random() < 0.15):
                toks.append((rng.choice(['RP', 'RB']), ')'))
                depth -= 1
        else:
            toks.append(('A', rng.choice(['a', 'b', 'x1'])))
    return toks


LAST_POSITIONS = []


def run_impl(ind, toks, abandon_after=None):
    from lark.lexer import Token
    out = []
    status = 'Done'
    # six distinct numbers per input token: a copied field that lands in another field shows
    gen = ind.process(iter([Token(t, v, 10 * k + 11, 10 * k + 12, 10 * k + 13, 10 * k + 14, 10 * k + 15, 10 * k + 16)
                            for k, (t, v) in enumerate(toks)]))
    LAST_POSITIONS[:] = []
    try:
        for i, t in enumerate(gen):
            out.append((str(t.type), str(t)))
            six = [t.start_pos, t.line, t.column, t.end_line, t.end_column, t.end_pos]
            if six == [0] * 6:
                LAST_POSITIONS.append(0)
            elif all(isinstance(x, int) for x in six) and six[0] % 10 == 1 and six == [six[0] + j for j in range(6)]:
                LAST_POSITIONS.append(six[0] // 10)
            else:
                LAST_POSITIONS.append(-1)
            if abandon_after is not None and i + 1 >= abandon_after:
                status = 'Abandoned'
                break
    except Exception as e:  # noqa
        status = type(e).__name__
    return out, status, ind.paren_level, list(ind.indent_level)


def coq_tok(t):
    return '(mkTok %s %s)' % (S(t[0]), S(t[1]))


def coq_case(tab_len, obs):
    cfg = '(mkCfg "NL" ["LP"; "LB"] ["RP"; "RB"] "IN" "DE" %s)' % Z(tab_len)
    parts = []
    for toks, out, status, paren, stack in obs:
        parts.append('(%s, %s, %s, %s, %s)' % (L([coq_tok(t) for t in toks]), L([coq_tok(t) for t in out]),
                                              N(STATUS[status]), Z(paren), L([Z(x) for x in reversed(stack)])))
    return '(%s, %s)' % (cfg, L(parts))


# --- the property itself, evaluated on the implementation's output (failing-input search) --------
def indent_of(val, tab_len):
    s = val.rsplit('\n', 1)[1]
    return s.count(' ') + s.count('\t') * tab_len


def property_oracle(toks, out, status, tab_len, opens=('LP', 'LB'), closes=('RP', 'RB')):
    """Independent statement of C18 (no level stack): open levels after lines cs are 0 and every c_i that no
    later line went below. Returns None if the output satisfies the property, else a description."""
    if status not in ('Done', 'DedentError'):
        return None   # malformed stream (unbalanced closer / NL without newline): property is silent
    cs = []           # indentation of the logical lines seen so far (outside brackets)

    def open_levels():
        lv = {0}
        for i, c in enumerate(cs):
            if all(d >= c for d in cs[i + 1:]):
                lv.add(c)
        return lv
    depth = 0
    pos = 0
    for k, (ty, val) in enumerate(toks):
        exp = None
        if ty == 'NL':
            if depth > 0:
                exp = []
            else:
                if '\n' not in val:
                    return None       # NL token without a newline: outside the property's domain
                c = indent_of(val, tab_len)
                lv = open_levels()
                top = max(lv)
                if c > top:
                    exp = [('NL', val), ('IN', None)]
                elif c in lv:
                    exp = [('NL', val)] + [('DE', None)] * len([x for x in lv if x > c])
                else:
                    # DedentError expected after the DEDENTs for the levels above c
                    exp = [('NL', val)] + [('DE', None)] * len([x for x in lv if x > c])
                    got = out[pos:pos + len(exp)]
                    if status != 'DedentError' or [g[0] for g in got] != [e[0] for e in exp] or len(out) != pos + len(exp):
                        return 'token %d: dedent to column %d not in open levels %s must raise DedentError' % (k, c, sorted(lv))
                    return None
                cs.append(c)
        else:
            exp = [(ty, val)]
        got = out[pos:pos + len(exp)]
        if [g[0] for g in got] != [e[0] for e in exp]:
            return 'token %d (%s): expected %s, got %s' % (k, ty, [e[0] for e in exp], [g[0] for g in got])
        pos += len(exp)
        if ty in opens:
            depth += 1
        elif ty in closes:
            depth -= 1
    if status != 'Done':
        return 'DedentError raised but every dedent went to an open level'
    tail = out[pos:]
    need = len(open_levels()) - 1
    if [t[0] for t in tail] != ['DE'] * need:
        return 'end of stream: expected %d DEDENT, got %s' % (need, [t[0] for t in tail])
    if sum(1 for t in out if t[0] == 'IN') != sum(1 for t in out if t[0] == 'DE'):
        return 'INDENT/DEDENT not balanced at the end of the stream'
    return None


# --- validation of the reference reading against CPython's tokenizer --------------------------------
def cpython_structure(lines):
    """lines: list of (indent_width, open_brackets_delta_text). returns INDENT/DEDENT/NL sequence or 'error'"""
    src = ''.join(' ' * w + body + '\n' for w, body in lines)
    seq = []
    try:
        for t in tokenize.generate_tokens(io.StringIO(src).readline):
            if t.type == tokenize.INDENT:
                seq.append('IN')
            elif t.type == tokenize.DEDENT:
                seq.append('DE')
    except (tokenize.TokenError, IndentationError):
        return seq + ['ERR']
    return seq


def norm_err(seq):
    """CPython raises before emitting the DEDENTs of the failing line, lark after: the property only says
    that the dedent is an error, so DEDENTs directly before the error are dropped on both sides."""
    if seq and seq[-1] == 'ERR':
        k = len(seq) - 1
        while k > 0 and seq[k - 1] == 'DE':
            k -= 1
        return seq[:k] + ['ERR']
    return seq


def cpython_case(rng):
    levels = [0]
    lines = []
    toks = []
    depth = 0
    first = True
    for _ in range(rng.randint(1, 9)):
        if depth == 0:
            c = rng.random()
            if first:
                w = 0
            elif c < 0.35:
                w = levels[-1] + rng.randint(1, 3)
                levels.append(w)
            elif c < 0.6:
                w = levels[-1]
            elif c < 0.92:
                k = rng.randrange(len(levels))
                del levels[k + 1:]
                w = levels[-1]
            else:
                w = rng.randint(0, levels[-1])
        else:
            w = rng.randint(0, 6)
        first = False
        body = 'x'
        kind = rng.random()
        line_toks = [('A', 'x')]
        if kind < 0.2:
            body = 'x ('
            line_toks.append(('LP', '('))
            depth += 1
        elif kind < 0.4 and depth > 0:
            body = ') x'
            line_toks = [('RP', ')'), ('A', 'x')]
            depth -= 1
        lines.append((w, body))
        toks.append((w, line_toks))
    while depth > 0:
        lines.append((0, ')'))
        toks.append((0, [('RP', ')')]))
        depth -= 1
    # token stream for lark: NL token *precedes* each line after the first and carries its indentation
    stream = []
    for i, (w, lt) in enumerate(toks):
        if i > 0:
            stream.append(('NL', '\n' + ' ' * w))
        stream.extend(lt)
    stream.append(('NL', '\n'))
    return lines, stream


def correspond(ctx):
    rng = ctx.rng
    ncases = ctx.scale(600, 6000) * (3 if ctx.widen else 1)
    cases, meta = [], []
    pos_cases, pos_meta = [], []
    for ci in range(ncases):
        tab_len = rng.choice([8, 8, 4, 1, 2])
        ind = make_indenter(tab_len)
        obs = []
        wild = rng.random() < 0.3
        for si in range(rng.randint(1, 4)):
            toks = gen_stream(rng, tab_len, wild)
            abandon = rng.randint(1, 5) if rng.random() < 0.12 else None
            out, status, paren, stack = run_impl(ind, toks, abandon)
            if status == 'Abandoned':
                # an abandoned generator: the next process() call must not be affected (C10 reuse);
                # not comparable token-for-token with the model's complete run, so only the follow-up stream is.
                continue
            if status not in STATUS:
                ctx.violation('impl-exception', {'tokens': toks, 'exception': status, 'tab_len': tab_len}, True,
                              'Indenter raised %s' % status, key='exc:%s' % status)
                break
            obs.append((toks, out, status, paren, stack))
            pos = list(LAST_POSITIONS)
            if -1 in pos:
                ctx.violation('positions-oracle', {'tokens': toks, 'tab_len': tab_len, 'output': out, 'positions': pos}, True,
                              'an emitted token does not carry the six position fields of one input token')
            if len(pos_cases) < ctx.scale(450, 6000) or ctx.widen:
              pos_cases.append('(%s, %s, %s)' % ('(mkCfg "NL" ["LP"; "LB"] ["RP"; "RB"] "IN" "DE" %s)' % Z(tab_len),
                                               L(['(%s, %s)' % (coq_tok(t), N(k + 1)) for k, t in enumerate(toks)]),
                                               L([N(max(p, 0)) for p in pos])))
              pos_meta.append((tab_len, toks, out, pos))
            msg = property_oracle(toks, out, status, tab_len)
            nin = sum(1 for t in out if t[0] == 'IN')
            nde = sum(1 for t in out if t[0] == 'DE')
            ctx.count('indenter-streams', key=(tab_len, tuple(toks)), nontrivial=(nin > 0 and nde > 0),
                      status=status, stream_len=min(len(toks), 15), indents=min(nin, 5))
            if msg:
                ctx.violation('property-oracle', {'tokens': toks, 'tab_len': tab_len, 'output': out, 'status': status,
                                                  'history': [o[0] for o in obs[:-1]]}, True, msg)
        if obs:
            cases.append(coq_case(tab_len, obs))
            meta.append((tab_len, obs))
    ctx.sample({'tab_len': meta[0][0], 'streams': [{'tokens': o[0], 'output': o[1], 'status': o[2]} for o in meta[0][1]]})
    bad, errs = ctx.coq_bad_indices('c18', IMPORTS, 'check_case', cases)
    for e in errs:
        ctx.violation('correspondence:coq-eval', {'error': e}, False, e[:300])
    for i in bad:
        tab_len, obs = meta[i]
        # search: does the property itself fail on any stream of this case?
        found = None
        for toks, out, status, paren, stack in obs:
            m = property_oracle(toks, out, status, tab_len)
            if m:
                found = (toks, out, status, m)
                break
        if found:
            ctx.violation('correspondence+oracle', {'tokens': found[0], 'tab_len': tab_len, 'output': found[1],
                                                   'status': found[2]}, True, found[3])
        else:
            # reuse half: a stream's result must equal the fresh-object result
            diff = None
            for k, (toks, out, status, paren, stack) in enumerate(obs):
                fresh = run_impl(make_indenter(tab_len), toks)
                if (fresh[0], fresh[1]) != (out, status):
                    diff = (k, toks, out, status, fresh)
                    break
            if diff:
                ctx.violation('correspondence+reuse', {'history': [o[0] for o in obs[:diff[0]]], 'tokens': diff[1],
                                                       'tab_len': tab_len, 'output_after_history': diff[2],
                                                       'output_fresh': diff[4][0]}, True,
                              'stream result depends on earlier streams processed by the same Indenter object')
            else:
                ctx.violation('correspondence:Sys/Indenter.process vs lark.indenter.Indenter.process',
                              {'no_longer_checks': 'model/implementation agreement on case', 'tab_len': tab_len,
                               'streams': [{'tokens': o[0], 'impl_output': o[1], 'impl_status': o[2],
                                            'impl_state': [o[3], o[4]]} for o in obs]}, False,
                              'model and implementation disagree; the property oracle holds on this case')
    # borrowed positions: Sys/IndenterPos.process_pos vs the positions of the emitted tokens
    bad, errs = ctx.coq_bad_indices('c18p', IMPORTS, 'check_pos', pos_cases)
    for e in errs:
        ctx.violation('correspondence:coq-eval', {'error': e}, False, e[:300])
    for i in bad[:5]:
        tab_len, toks, out, pos = pos_meta[i]
        # the property's reading: INDENT/DEDENT carry the position of the newline token that caused them, final DEDENTs that of
        # the last token
        exp, last_nl = [], 0
        k = 0
        for ty, val in out:
            if ty in ('IN', 'DE') and k >= len(toks):
                exp.append(len(toks))
            elif ty in ('IN', 'DE'):
                exp.append(last_nl)
            else:
                while k < len(toks) and tuple(toks[k]) != (ty, val):
                    k += 1
                k += 1
                exp.append(k)
                if ty == 'NL':
                    last_nl = k
        ctx.violation('positions-oracle' if exp != pos else 'correspondence:Sys/IndenterPos.process_pos vs lark',
                      {'tokens': toks, 'tab_len': tab_len, 'output': out, 'positions': pos, 'expected_positions': exp,
                       'no_longer_checks': 'positions of emitted tokens'}, exp != pos,
                      'positions of the emitted tokens %s differ from the model%s' % (pos, '' if exp == pos else
                                                                                      ' and from the borrowed-position rule %s' % exp))
    # CPython validation of the reference reading
    n_cp = ctx.scale(300, 3000)
    for _ in range(n_cp):
        lines, stream = cpython_case(rng)
        ref = cpython_structure(lines)
        out, status, _, _ = run_impl(make_indenter(8), stream)
        got = [t[0] for t in out if t[0] in ('IN', 'DE')] + (['ERR'] if status == 'DedentError' else [])
        ctx.count('cpython-tokenize', key=tuple(lines), nontrivial=('IN' in got and 'DE' in got))
        if norm_err(got) != norm_err(ref):
            ctx.violation('cpython-tokenize', {'lines': lines, 'cpython': ref, 'lark': got, 'tokens': stream}, True,
                          'INDENT/DEDENT sequence differs from CPython tokenize')


def replay(ctx, case):
    w = case['witness']
    if 'lines' in w:
        ref = cpython_structure([tuple(x) for x in w['lines']])
        out, status, _, _ = run_impl(make_indenter(8), [tuple(t) for t in w['tokens']])
        got = [t[0] for t in out if t[0] in ('IN', 'DE')] + (['ERR'] if status == 'DedentError' else [])
        return norm_err(got) != norm_err(ref)
    if 'tokens' not in w:
        return False
    if 'expected_positions' in w:
        run_impl(make_indenter(w.get('tab_len', 8)), [tuple(t) for t in w['tokens']])
        print('positions', LAST_POSITIONS, 'expected', w['expected_positions'])
        return list(LAST_POSITIONS) != list(w['expected_positions'])
    ind = make_indenter(w.get('tab_len', 8))
    for h in w.get('history', []):
        run_impl(ind, [tuple(t) for t in h])
    toks = [tuple(t) for t in w['tokens']]
    out, status, _, _ = run_impl(ind, toks)
    if status not in STATUS:
        return True
    return property_oracle(toks, out, status, w.get('tab_len', 8)) is not None
