"""C04 - ambiguity='explicit' enumerates exactly all derivations."""
import itertools
import signal

from lib import coq_term_str, coq_list as L, coq_nat as N

_STR = {}            # interned Coq string constants (big literal strings make coqc slow)
_STR_DEFS = []


def S(s):
    if s not in _STR:
        _STR[s] = 'str%d' % len(_STR)
        _STR_DEFS.append('Definition %s := %s.' % (_STR[s], coq_term_str(s)))
    return _STR[s]

THEOREMS = ['C04_B_expand_exact', 'C04_B_tree_tidy', 'C04_collapse_is_expand', 'C04_collapse_total',
            'C04_collapse_explicit', 'C04_collapse_none_refuted', 'C04_A_sound', 'C04_A_sound_root', 'C04_A_added_ok',
            'C04_A_sound_sentence', 'C04_A_complete_partial', 'C04_A_alg_erasure', 'C04_A_alg_families_sound',
            'C04_A_alg_families_complete', 'C04_A_exact', 'C04_A_complete', 'C04_A_exact_gen', 'C04_A_example',
            'C04_A_dynamic_erasure', 'C04_A_dynamic_sound', 'C04_A_dynamic_sound_checked', 'C04_A_dynamic_families_sound',
            'C04_A_dynamic_model_sound', 'C04_A_dynamic_complete_partial', 'C04_A_dynamic_scan_complete', 'C04_A_dynamic_example',
            'C04_A_packed_dedup_safe', 'C04_A_dynamic_exact', 'C04_A_dynamic_complete', 'C04_A_dynamic_exact_closed',
            'C04_A_dynamic_exact_fwd_refuted', 'C04_A_dynamic_exact_example',
            'C04_B_cyclic_sound', 'C04_B_cyclic_total', 'C04_B_cyclic_cycle_free_exact_refuted',
            'C04_walk_conditions_are_source', 'C04_tree_conditions_are_source', 'C04_example']
GEN_DEPS = ['ExplicitWalk']
RULE = ('random ambiguous grammars (<=4 non-terminals, <=3 alternatives of length <=3, ?rules, _inlined rules, aliases, '
        '[optional] with placeholders, !keep-all rules, filtered anonymous tokens, EBNF * and +), three lexers (basic, '
        'dynamic, dynamic_complete with overlapping terminals "a","aa",/a+/), inputs = all strings up to a length bound over '
        'the alphabet plus sampled sentences; acyclic stream: forest captured inside the explicit-mode parse and unfolded, '
        'Coq evaluates to_tree_explicit on it and compares with lark\'s tree (nested _ambig flattened on both sides), checks '
        'the well-formedness hypothesis of the theorem on the exported forest, and CollapseAmbiguities against collapse; '
        'Python oracle: brute-force derivations of the compiled BNF shaped independently vs expansion of lark\'s tree as sets; '
        'cyclic stream: termination + every tree is the shape of a derivation, and the captured forest as a numbered '
        '(cyclic) graph given to Forest/ExplicitGraph.graph_explicit, whose tree must equal lark\'s exactly (cycle retreat, '
        'packed-node cache); cyclic-corpus stream (fixed): 18 cyclic grammars covering every shape of cycle the walk '
        'distinguishes, same comparisons; ignore stream: grammars with one or several '
        '(also overlapping) %ignore terminals, half of them ambiguous at the root between differently shaped start '
        'alternatives (aliases, _rules, ?rules, filtered/kept tokens), inputs with leading/inner/trailing ignored text, '
        'oracle at character level with ignored text allowed before every token and after the last one; '
        'stacked-corpus stream (fixed, independent of VERIF_SEED): 18 grammars with ambiguity stacked through chains of '
        'inlined _rules (ambiguous intermediate node over an ambiguous inlined child, 2-3 levels, ?rules, !rules, filtered and '
        'kept tokens, and filtered anonymous tokens / _-named terminals before, between and after an ambiguous inlined symbol, '
        'so that its index in the expansion differs from its index among the kept children) x 3 lexers x placeholders on/off, '
        'same oracle and Coq comparisons; the random generator draws 20% of '
        'its acyclic grammars from the same class (gen_chain_grammar); '
        'overlap-corpus stream (fixed) and 20% of the ignore / dyn-families grammars: regexp terminals overlapping the ignored '
        'characters (AS = /a\\s/ next to A = "a", greedy %ignore WS, several blanks): one item carried to a position from '
        'two origins; and broad terminals that match with or without the ignorable text in front (/[^;]+/, / ?[ab]+/, /\\s*a/): '
        '"ignore first, then match" and "match including the blank" are two derivations; '
        'dyn-families stream: the same add_family log comparison for the dynamic lexers (with %ignore carry-over) against '
        'Forest/ExplicitDynBuild on recorded regex answers, plus the local-form check of every family over the position '
        'graph of the text; '
        'alg-families stream: every SymbolNode.add_family call of a parse (basic lexer) logged and compared as a set, '
        'with the outcome, with the instrumented executable model evaluated in Coq. '
        'non-trivial = distinct (grammar, lexer, input) whose explicit tree contains at least one _ambig')
TRUSTED_BASE = ['hand model Forest/ExplicitToTree.v of ForestToParseTree(resolve_ambiguity=False) and the rule callback chain, '
                'tied by structural comparison on forests captured inside Lark.parse',
                'hand model Forest/ExplicitGraph.v of the explicit-mode walk on cyclic forests (on_cycle retreat, _successful_visits, '
                'packed-node cache), tied by exact comparison of the returned tree on numbered forest graphs',
                'forest export (unfolding of the shared SPPF into a tree; rule records read from Rule objects)',
                'Python oracle (brute-force derivation enumeration + independent shaping) for the failing-input search and '
                'for completeness of the parser->forest layer (A_complete_partial)']
ASSUMPTIONS = ['no rule or alias is named _ambig/_iambig (reserved tree labels)',
               'propagate_positions=False, no user transformer, tree_class=Tree, no priorities (C05 covers them)',
               'derivations are relative to the token matches of the chosen lexer: basic = the single tokenisation of the '
               'basic lexer; dynamic = terminal matches given by re.match at each position (longest); dynamic_complete = '
               'additionally every proper prefix of that match which the terminal matches',
               '%ignore (dynamic lexers): a chain of non-empty re.match results of %ignore terminals may precede any token and '
               'follow the last one; besides grammars whose terminals are disjoint from the ignorable characters there is a family '
               'whose regexp terminals overlap them (a word may swallow one adjacent blank); '
               'layer A for grammars with %ignore: under the basic lexer on the token list the lexer leaves (positions = token '
               'indices); under the dynamic lexers through the instrumented dynamic model (dyn-families)']

IMPORTS = 'From LV Require Import Base.Prelude Forest.ExplicitToTree Forest.ExplicitCheck.'
IMPORTS_G = ('From LV Require Import Base.Prelude Forest.ExplicitToTree Forest.ExplicitCheck Forest.ExplicitGraph '
             'Forest.ExplicitGraphCheck.')
MAX_GNODES = 300         # size bound of a numbered forest graph given to Forest/ExplicitGraph.v

MAX_NODES = 400          # unfolded forest size bound for a Coq case
MAX_TREE = 4000          # unfolded size bound of an explicit tree that is examined further
MAX_DERIVS = 300         # oracle bound
CALL_TIMEOUT = 10        # seconds per lark call; a hang is a violation (cyclic grammars: on inputs of <= 3 characters)


class Hang(Exception):
    pass


def with_timeout(fn, secs=CALL_TIMEOUT):
    def h(sig, frm):
        raise Hang()
    old = signal.signal(signal.SIGALRM, h)
    signal.setitimer(signal.ITIMER_REAL, secs)
    try:
        return fn()
    finally:
        signal.setitimer(signal.ITIMER_REAL, 0)
        signal.signal(signal.SIGALRM, old)


# ----------------------------------------------------------------------------------------------
# grammar generator
# ----------------------------------------------------------------------------------------------
TERMS_BASIC = [('A', '"a"'), ('B', '"b"')]
TERMS_DYN = [('A', '"a"'), ('AA', '"aa"'), ('B', '"b"'), ('AB', '"ab"'), ('AP', '/a+/')]


def gen_split_grammar(rng, lexer):
    """sequences of 2-4 small non-terminals over one letter: the split points are ambiguous, which gives ambiguous
    intermediate nodes (also nested ones for 4 symbols), ambiguous _inlined symbols and ?rules returning _ambig"""
    pool = ['x', '?q', '_i', '!k', 'y']
    rng.shuffle(pool)
    names = pool[:rng.randint(1, 3)]
    bare = [n.lstrip('?!') for n in names]
    if lexer == 'basic':
        terms = [('A', '"a"'), ('B', '"b"')]
        atoms = ['A', 'A A', '"a"', 'A "a"', 'A?', '[A]', 'A B?', 'A A A', '"a" A', 'A [B]']
    else:
        terms = [('A', '"a"'), ('B', '"b"'), ('AA', '"aa"'), ('AP', '/a+/')]
        atoms = ['A', 'A A', '"a"', 'A "a"', 'A?', '[A]', 'AA', 'AP', 'A B?', '"aa"', 'AA A', 'A AP']
    lines = []
    alts = []
    for _ in range(rng.randint(1, 2)):
        seq = [rng.choice(bare) for _ in range(rng.randint(2, 4))]
        if rng.random() < 0.3:
            seq.insert(rng.randrange(len(seq) + 1), rng.choice(['A', '"a"', 'B', '[B]']))
        alt = ' '.join(seq)
        if rng.random() < 0.15:
            alt += ' -> al0'
        if alt not in alts:
            alts.append(alt)
    if rng.random() < 0.35:
        # a middle layer: the sequences above become a rule m (half of the time !m, whose AmbiguousExpander lifts every
        # ambiguous child), used twice by start: nested _ambig inside _ambig children, _iambig under lifted rules
        mname = rng.choice(['m', '!m', '?m'])
        lines.append('start: ' + rng.choice(['m m', 'm', 'm m | m A', 'm [A] m', '_i m', 'm m m']))
        lines.append(mname + ': ' + '\n  | '.join(a.split(' -> ')[0] for a in alts))
    else:
        lines.append('start: ' + '\n  | '.join(alts))
    for n, b in zip(names, bare):
        k = rng.randint(2, 3)
        al = rng.sample(atoms, k)
        if rng.random() < 0.2:
            other = [x for x in bare if x > b]          # only "later" names: no derivation cycle
            if other:
                al.append(rng.choice(other) + ' ' + rng.choice(['A', '"a"', '']))
        if rng.random() < 0.15 and not n.startswith('_'):
            al[0] += ' -> al1'
        lines.append('%s: %s' % (n, '\n  | '.join(al)))
    for t, pat in terms:
        lines.append('%s: %s' % (t, pat))
    return '\n'.join(lines) + '\n'


# %ignore: the ignorable characters are ' ' and '-', never used by the grammars' own terminals
IGNORE_SETS = [
    ([' '], ['%ignore " "']),
    ([' '], ['WS: / +/', '%ignore WS']),
    ([' ', '-'], ['%ignore " "', '%ignore "-"']),
    (['-'], ['%ignore "-"', '%ignore "--"']),               # overlapping ignored terminals
    ([' ', '-'], ['WS: /[ ]+/', 'DD: "--"', 'D: "-"', '%ignore WS', '%ignore DD', '%ignore D']),
    ([' ', '-'], ['IGN: /[ -]+/', '%ignore IGN']),
]


# Terminals that overlap the ignored characters: a word may swallow one adjacent blank (AS = /a\s/ next to A = "a",
# SB = / b/ next to B = "b") while a greedy multi-character %ignore covers the rest.  One item then reaches a position
# from two different origins inside the ignorable stretch ("a  b": after A at 1 and after AS at 2, both carried to 3),
# and the carry-over must merge the families of both.  Fixed corpus (independent of VERIF_SEED) + random members.
OVERLAP_CORPUS = [
    ('start: w "b"\nw: A | AS\nA: "a"\nAS: /a\\s/\nWS: /\\s+/\n%ignore WS\n', ['a b', 'a  b', 'a \t b', 'a   b', 'ab', ' a  b ']),
    ('start: w B\nw: short | long\nshort: A\nlong: AS\nA: "a"\nB: "b"\nAS: /a\\s/\nWS: /\\s+/\n%ignore WS\n', ['a b', 'a  b', 'a   b']),
    ('start: A sb\nsb: B | SB\nA: "a"\nB: "b"\nSB: / b/\nWS: / +/\n%ignore WS\n', ['a b', 'a  b', 'a   b', 'ab']),
    ('start: x y\nx: A | AS\ny: B | SB\nA: "a"\nB: "b"\nAS: /a /\nSB: / b/\nWS: /[ \\t]+/\n%ignore WS\n', ['a b', 'a  b', 'a   b', 'a \t b']),
    ('start: w w\n?w: A | AS -> sw\nA: "a"\nAS: /a\\s/\nWS: /\\s+/\n%ignore WS\n', ['a a', 'a  a', 'a  a ', 'a   a  ']),
    ('start: _w "b"\n_w: A | AS | A A\nA: "a"\nAS: /a\\s/\nWS: /\\s+/\n%ignore WS\n', ['a  b', 'a a  b', 'a  a  b']),
    ('start: w "b"\nw: A | AD\nA: "a"\nAD: /a-/\n%ignore "-"\n%ignore "--"\n', ['a-b', 'a--b', 'a---b', 'a----b']),
    ('start: w* B\nw: A | AS\nA: "a"\nB: "b"\nAS: /a\\s/\nWS: /\\s+/\n%ignore WS\n', ['a  b', 'a  a  b', '  b']),
    # a broad terminal that can match with and without the ignorable text in front of it: "ignore first, then match"
    # and "match including the blank" are two derivations
    ('start: TEXT ";"\nTEXT: /[^;]+/\n%ignore " "\n', [' foo;', 'foo;', '  foo;', ' f o;', 'foo ;']),
    ('start: item+\nitem: WORD ";"\nWORD: /[^;]+/\n%ignore " "\n', ['ab; cd;', 'ab;cd;', ' ab;  cd;', 'ab ; cd ;']),
    ('start: w+\nw: W\nW: / ?[ab]+/\n%ignore " "\n', [' a', 'a b', ' a  b', 'ab a']),
    ('start: x y\nx: SX\ny: SX | B\nSX: /\\s*a/\nB: "b"\nWS: /\\s+/\n%ignore WS\n', [' a a', 'a  a', '  a b', ' a  a ']),
    ('start: "<" T ">"\nT: /[^<>]+/\n%ignore " "\n%ignore "-"\n', ['< a>', '<-a >', '< -a->', '<a>']),
]


def gen_overlap_grammar(rng, lexer):
    """random member of the family above over the letters a, b"""
    ws = rng.choice(['/\\s+/', '/ +/', '/[ \\t]+/'])
    lines = []
    k = rng.randint(2, 3)
    names = ['w%d' % j for j in range(k)]
    seq = list(names)
    if rng.random() < 0.3:
        seq[rng.randrange(k)] += rng.choice(['*', '?', '+'])
    if rng.random() < 0.3:
        seq.insert(rng.randrange(k + 1), rng.choice(['"b"', 'B', '"a"']))
    lines.append('start: ' + ' '.join(seq) + (' -> top' if rng.random() < 0.2 else ''))
    for nm in names:
        c = rng.choice('ab')
        up = c.upper()
        alts = rng.sample([up, up + 'S', 'S' + up, up + ' ' + up, '"%s"' % c, 'W' + up, 'Q' + up], rng.randint(2, 3))
        if rng.random() < 0.2:
            alts[0] += ' -> al'
        lines.append('%s%s: %s' % (rng.choice(['', '', '?', '_' if False else '']), nm, ' | '.join(alts)))
    lines += ['A: "a"', 'B: "b"', 'AS: /a\\s/', 'BS: /b\\s/', 'SA: / a/', 'SB: / b/',
              'WA: /\\s*a/', 'WB: / ?b+/', 'QA: /[ a]+/', 'QB: /[^a]+/', 'WS: %s' % ws, '%ignore WS']
    return '\n'.join(lines) + '\n'


def overlap_inputs(rng, k=10):
    out = []
    for _ in range(k):
        ws = [rng.choice(['a', 'b']) for _ in range(rng.randint(1, 4))]
        t = ''
        for j, c in enumerate(ws):
            if j:
                t += ' ' * rng.choice([0, 1, 1, 2, 2, 3])
            t += c
        if rng.random() < 0.3:
            t = ' ' * rng.randint(1, 2) + t
        if rng.random() < 0.4:
            t += ' ' * rng.randint(1, 2)
        out.append(t)
    return out


def add_ignores(rng, grammar):
    chars, lines = rng.choice(IGNORE_SETS)
    return grammar + '\n'.join(lines) + '\n', chars


def decorate(rng, text, chars):
    """text with ignorable runs inserted: leading, trailing, between characters"""
    def run():
        return ''.join(rng.choice(chars) for _ in range(rng.choice([1, 1, 2, 3])))
    out = []
    if rng.random() < 0.4:
        out.append(run())
    for k, c in enumerate(text):
        if k > 0 and rng.random() < 0.3:
            out.append(run())
        out.append(c)
    if rng.random() < 0.65:
        out.append(run())
    return ''.join(out)


def gen_root_ambig_grammar(rng, lexer):
    """ambiguity at the root: 2-4 alternatives of the start symbol over a shared small language, shaped differently
    (alias, _inlined rule, ?rule, direct token sequence with filtered/kept tokens, two-rule sequence)"""
    phrases = ['X', 'X Y', 'X X', '"x" Y', 'X "y"', 'Y', 'X Y X', '"x"', 'X [Y]', 'X Y?']
    if lexer != 'basic':
        phrases += ['XX', 'XX Y', '"xx"']
    pool = rng.sample(phrases, rng.randint(1, 3))
    alts, rules = [], []
    for i in range(rng.randint(2, 4)):
        kind = rng.choice(['rule', 'rule', 'inl', 'opt', 'direct', 'two'])
        body = list(dict.fromkeys(rng.sample(pool, rng.randint(1, len(pool))) + ([rng.choice(phrases)] if rng.random() < 0.3 else [])))
        if kind == 'rule':
            alt = 'a%d' % i
            rules.append('%s%s: %s' % (rng.choice(['', '', '!']), alt, ' | '.join(body)))
        elif kind == 'inl':
            alt = '_p%d' % i
            rules.append('%s: %s' % (alt, ' | '.join(body)))
        elif kind == 'opt':
            alt = 'q%d' % i
            rules.append('?%s: %s' % (alt, ' | '.join(body)))
        elif kind == 'direct':
            alt = rng.choice(body)
        else:
            alt = 'l%d r%d' % (i, i)
            rules.append('l%d: X | "x" | ' % i)
            rules.append('r%d: %s' % (i, ' | '.join(body)))
        if kind != 'inl' and rng.random() < 0.45:
            alt += ' -> %s' % rng.choice(['first', 'second', 'third'])
        alts.append(alt)
    lines = ['start: ' + '\n  | '.join(alts)] + rules + ['X: "x"', 'Y: "y"']
    if lexer != 'basic':
        lines.append('XX: "xx"')
    return '\n'.join(lines) + '\n'


# Fixed corpus (independent of VERIF_SEED): *stacked* ambiguity through chains of inlined _rules - an ambiguous
# intermediate node of a rule whose inlined child is itself ambiguous (2-3 levels, filtered and kept tokens, ?rules in the
# chain, !rules lifting every ambiguity).  The explicit tree then nests _ambig inside _ambig below a node that is spliced
# into its parent; every level of flattening/lifting in _collapse_ambig / AmbiguousExpander / AmbiguousIntermediateExpander
# is exercised.  Each grammar runs under all three lexers, with and without placeholders.
STACKED_CORPUS = [
    ('start: _a\n_a: _b x y\n_b: b1 | b2\nb1: P+\nb2: P+\nx: P+\ny: "y"\nP: "p"\n', ['ppy', 'pppy', 'ppppy']),
    ('start: _a\n_a: _b x "y"\n_b: _c | b2\n_c: c1 | c2\nc1: P+\nc2: P P*\nb2: P+\nx: P+\nP: "p"\n', ['ppy', 'pppy', 'ppppy']),
    ('start: _a\n_a: _b y\n_b: _c x\n_c: c1 | c2\nc1: P+\nc2: "p"+\nx: P+\ny: "y"\nP: "p"\n', ['ppy', 'pppy', 'ppppy']),
    ('start: w _a\nw: P?\n_a: _b x\n_b: q | b2\n?q: c1 | c2\nc1: P+\nc2: P+\nb2: P+\nx: P+\nP: "p"\n', ['pp', 'ppp', 'pppp']),
    ('start: w _a\nw: P?\n_a: _b x\n_b: q | b2\n?q: P+ | r\nr: P P\nb2: P+\nx: P+\nP: "p"\n', ['pp', 'ppp', 'pppp']),
    ('start: _a _a\n_a: _b x\n_b: b1 | b2\nb1: "p"+\nb2: P+\nx: P+ | "p" P\nP: "p"\n', ['pppp', 'ppppp']),
    ('start: _a -> top\n   | z\nz: P+\n_a: _b x [Y]\n_b: b1 | _c\n_c: b1 b1 | b2\nb1: P+\nb2: P P+\nx: P+\nP: "p"\nY: "y"\n',
     ['ppp', 'pppp', 'ppppy']),
    ('!start: _a\n_a: _b x "y"\n_b: b1 | b2\nb1: P+\nb2: "p"+\nx: P+\nP: "p"\n', ['pppy', 'ppppy']),
    ('start: k\nk: _a | k2\nk2: P+ "y"\n_a: _b _d "y"\n_b: b1 | b2\n_d: x | x2\nb1: P+\nb2: P+\nx: P+\nx2: P\nP: "p"\n', ['ppy', 'pppy']),
    ('start: _a\n_a: _b _b\n_b: _c x\n_c: c1 | c2 | c1 c2\nc1: P\nc2: P | P P\nx: P+\nP: "p"\n', ['pppp', 'ppppp']),
    ('?start: _a | z\nz: P+\n_a: _b x\n_b: b1 | b2\n?b1: P+\nb2: P+\n?x: P+\nP: "p"\n', ['pp', 'ppp', 'pppp']),
    ('start: _a\n_a: [Y] _b x\n_b: _c | _e\n_c: c1 | c2\n_e: c1 "p" | "p" c2\nc1: P+\nc2: P+\nx: P*\nP: "p"\nY: "y"\n', ['pp', 'ppp', 'yppp']),
    # filtered tokens (anonymous, and _-named terminals) before / between / after an ambiguous inlined symbol: the index an
    # inlined symbol has in the rule's expansion differs from its index among the children that survive token filtering
    ('start: "(" _v ")"\n_v: a | b\na: X\nb: X\nX: "x"\n', ['(x)']),
    ('start: "(" "(" _v ")" _v\n_v: a | b\na: X+\nb: X+\nX: "x"\n', ['((x)x', '((xx)x']),
    ('start: _L _v _R y\n_v: a | b | a b\na: X\nb: X | X X\ny: X*\nX: "x"\n_L: "<"\n_R: ">"\n', ['<x>', '<xx>x', '<xx>']),
    ('start: k "," _v "," k\nk: X\n_v: _w | b\n_w: a | a a\na: X\nb: X+\nX: "x"\n', ['x,x,x', 'x,xx,x']),
    ('?start: "(" _v ")" | z\nz: "(" X ")"\n_v: a | b\n?a: X\nb: X\nX: "x"\n', ['(x)']),
    ('start: r\nr: "[" _v x "]" -> lst\n_v: a | b\na: X+\nb: X+\nx: X*\nX: "x"\n', ['[x]', '[xx]', '[xxx]']),
]


# fixed corpus of grammars with derivation cycles (independent of VERIF_SEED): the forest is a cyclic graph and
# ForestToParseTree has to retreat from cycles; every shape of cycle the walk distinguishes is represented: a unit
# self-loop, mutual unit recursion, a cycle through a nullable sibling (left child / right child on the path), a cycle
# below an intermediate node, a cycle reached from two parents (the packed-node cache is filled under one path and
# reused under another), cycles through inlined and ?rules
CYCLIC_CORPUS = [
    ('start: start | A\nA: "a"\n', ['a']),
    ('start: x\nx: x | A | x x\nA: "a"\n', ['a', 'aa']),
    ('start: b\nb: c | A\nc: b | A\nA: "a"\n', ['a']),
    ('start: e start | A\ne:\nA: "a"\n', ['a']),
    ('start: start e | A\ne:\nA: "a"\n', ['a']),
    ('start: e start e | A\ne: | e e\nA: "a"\n', ['a']),
    ('start: x x\nx: x | A | e\ne:\nA: "a"\n', ['a', 'aa', '']),
    ('start: x y\nx: y | A\ny: x | A | e\ne:\nA: "a"\n', ['a', 'aa']),
    ('start: _x\n_x: _x | A | _x _x\nA: "a"\n', ['a', 'aa']),
    ('start: q\n?q: q | A | q q\nA: "a"\n', ['a', 'aa']),
    ('start: x A\nx: x | e | x x\ne:\nA: "a"\n', ['a']),
    ('start: p p\np: q | A\nq: p | r\nr: A | q\nA: "a"\n', ['aa']),
    ('start: a a\na: b | A\nb: a | A A | b\nA: "a"\n', ['aa', 'aaa']),
    ('start: x\nx: y y | A\ny: x | e\ne: | e\nA: "a"\n', ['a']),
    ('start: x\nx: x e e | e x e | A\ne:\nA: "a"\n', ['a']),
    ('start: l\nl: l l | i\ni: l | A\nA: "a"\n', ['a', 'aa']),
    # the witnesses of C04_B_cyclic_cycle_free_exact_refuted (packed-node cache filled under one path, reused under another)
    ('start: a | x\na: x | A\nx: y\ny: a | A\nA: "a"\n', ['a']),
    ('start: x | a\na: x | A\nx: y\ny: a | A\nA: "a"\n', ['a']),
]


def gen_chain_grammar(rng, lexer):
    """random member of the same class: start uses an inlined _a, _a: _b x .., _b (and below it _c / ?q) ambiguous, the
    symbol after the inlined child makes the intermediate node of _a ambiguous as well"""
    leaf = ['A+', '"a"+', 'A A*', 'A', 'A A', 'A "a"', '"a" A']
    rules = []
    depth = rng.randint(2, 3)
    names = ['_a', '_b', '_c'][:depth]
    start = rng.choice(['_a', '_a', 'w _a', '_a -> top\n  | z', '_a _a', '_a B?', 'k'])
    if 'w ' in start:
        rules.append('w: A?')
    if '| z' in start:
        rules.append('z: A+')
    if start == 'k':
        rules.append('%sk: _a | k2' % rng.choice(['', '?', '!']))
        rules.append('k2: A+ "b"?')
    lines = ['%sstart: %s' % (rng.choice(['', '', '!', '?']), start)]
    for lv, n in enumerate(names):
        if lv + 1 < depth:
            # an inlined child followed by something that can take over part of its text
            nxt = names[lv + 1]
            tail = rng.choice(['x', 'x y', 'x "b"?', 'x [B]', nxt + ' x', 'x2'])
            # filtered tokens before / after the inlined child shift its index among the kept children
            pre = rng.choice(['', '', '"b" ', '"b" "b" ', '_SEP ', 'B "b" '])
            alts = ['%s%s %s' % (pre, nxt, tail)]
            if rng.random() < 0.3:
                alts.append(rng.choice(['b1', 'b1 x']))
        else:
            pool = ['b1', 'b2', 'q', 'b1 b2', 'b2 "a"', '"a" b1']
            alts = rng.sample(pool, rng.randint(2, 3))
        lines.append('%s: %s' % (n, ' | '.join(alts)))
    rules += ['b1: %s' % rng.choice(leaf), '%sb2: %s' % (rng.choice(['', '', '?']), rng.choice(leaf)),
              '?q: c1 | c2', 'c1: %s' % rng.choice(leaf), 'c2: %s' % rng.choice(leaf),
              '%sx: %s' % (rng.choice(['', '', '?']), rng.choice(['A+', 'A*', 'A | A A', '"a"+'])),
              'x2: A+ | b1', 'y: "b" | B', 'A: "a"', 'B: "b"', '_SEP: "b"']
    return '\n'.join(lines + rules) + '\n'


def gen_grammar(rng, lexer, cyclic):
    """returns grammar text. Rule names: start, x, y, ?q, _i, !k ; terminals by lexer."""
    if not cyclic and rng.random() < 0.2:
        return gen_chain_grammar(rng, lexer)
    if not cyclic and rng.random() < 0.45:
        return gen_split_grammar(rng, lexer)
    dense = rng.random() < 0.3     # many non-terminals per alternative over few terminals: split ambiguity,
    #                                nested intermediate-node ambiguity (_iambig inside _iambig)
    names = ['start']
    pool = ['x', 'y', '?q', '_i', '!k', 'z']
    rng.shuffle(pool)
    names += pool[:rng.randint(1, 3)]
    bare = [n.lstrip('?!') for n in names]
    if lexer == 'basic':
        terms = TERMS_BASIC
    else:
        terms = [TERMS_DYN[0], TERMS_DYN[2]] + rng.sample([TERMS_DYN[1], TERMS_DYN[3], TERMS_DYN[4]], rng.randint(1, 2))
    tnames = [t[0] for t in terms]
    lines = []
    for idx, n in enumerate(names):
        alts = []
        for _ in range(rng.randint(1, 3)):
            k = rng.choice([2, 3, 3, 4, 4]) if dense else rng.choice([1, 1, 2, 2, 2, 3, 3, 4])
            items = []
            for _ in range(k):
                r = rng.random()
                if dense and idx > 0:
                    r = 0.5 + r / 2       # leaves of a dense grammar are mostly terminals
                elif dense:
                    r = r * 0.6
                if r < 0.42:
                    # non-terminal; to stay acyclic refer only to later rules, plus guarded self/earlier references
                    if cyclic:
                        cand = bare
                    else:
                        cand = bare[idx + 1:]
                    if cand:
                        s = rng.choice(cand)
                    else:
                        s = rng.choice(tnames)
                elif r < 0.75:
                    s = rng.choice(tnames)
                else:
                    s = rng.choice(['"a"', '"b"']) if lexer == 'basic' else rng.choice(['"a"', '"b"', '"aa"'])
                m = rng.random()
                if m < 0.10:
                    s = '[%s]' % s
                elif m < 0.16:
                    s = '%s?' % s
                elif m < 0.20 and not cyclic:
                    s = '%s*' % s if rng.random() < 0.5 else '%s+' % s
                items.append(s)
            if not cyclic and rng.random() < 0.25 and idx > 0:
                # guarded recursion (consumes a token, so no derivation cycle)
                t = rng.choice(tnames)
                items = [bare[idx], t] if rng.random() < 0.5 else [t, bare[idx]]
                if rng.random() < 0.4:
                    items.insert(1, rng.choice(tnames + bare[idx:]))
            alt = ' '.join(items)
            if rng.random() < 0.15 and not n.startswith('_'):
                alt += ' -> al%d' % rng.randint(0, 1)
            alts.append(alt)
        if rng.random() < 0.1 and not cyclic:
            alts.append('')
        # duplicate alternatives are rejected by lark; dedup textually (not complete, GrammarError is skipped)
        seen = []
        for a in alts:
            if a not in seen:
                seen.append(a)
        lines.append('%s: %s' % (n, '\n  | '.join(seen)))
    for t, pat in terms:
        lines.append('%s: %s' % (t, pat))
    return '\n'.join(lines) + '\n'


# ----------------------------------------------------------------------------------------------
# static analysis on the compiled BNF (lark's own rules): derivation cycles
# ----------------------------------------------------------------------------------------------
def nullable_set(rules):
    nl = set()
    ch = True
    while ch:
        ch = False
        for r in rules:
            if r.origin.name not in nl and all((not s.is_term) and s.name in nl for s in r.expansion):
                nl.add(r.origin.name)
                ch = True
    return nl


def has_derivation_cycle(rules):
    """A =>+ A for some non-terminal (edges A -> B when A: alpha B beta with alpha, beta nullable)"""
    nl = nullable_set(rules)
    edges = {}
    for r in rules:
        for i, s in enumerate(r.expansion):
            if s.is_term:
                continue
            rest = r.expansion[:i] + r.expansion[i + 1:]
            if all((not t.is_term) and t.name in nl for t in rest):
                edges.setdefault(r.origin.name, set()).add(s.name)
    # cycle detection
    color = {}

    def dfs(u):
        color[u] = 1
        for v in edges.get(u, ()):
            c = color.get(v, 0)
            if c == 1 or (c == 0 and dfs(v)):
                return True
        color[u] = 2
        return False
    return any(color.get(u, 0) == 0 and dfs(u) for u in list(edges))


# ----------------------------------------------------------------------------------------------
# running lark, capturing the forest that ForestToParseTree transforms
# ----------------------------------------------------------------------------------------------
class Captured:
    root = None


def make_parser(grammar, lexer, **kw):
    from lark import Lark
    return Lark(grammar, parser='earley', lexer=lexer, ambiguity='explicit', **kw)


def parse_capture(parser, text):
    """returns (tree, forest_root) of one explicit-mode parse; the forest is the object passed to
    ForestToParseTree.transform inside lark.parsers.earley.Parser.parse"""
    from lark.parsers import earley_forest
    orig = earley_forest.ForestToParseTree.transform
    cap = {}

    def transform(self, root):
        cap['root'] = root
        return orig(self, root)
    earley_forest.ForestToParseTree.transform = transform
    try:
        tree = parser.parse(text)
    finally:
        earley_forest.ForestToParseTree.transform = orig
    return tree, cap.get('root')


class TooBig(Exception):
    pass


class Cyclic(Exception):
    pass


def export_forest(root):
    """unfold the SPPF below root into nested tuples:
       ('tok', type, value) | ('sym', label, [fam...]) with label = ('S', name) | ('I', rule, ptr),
       fam = (rule, left|None, right|None).  Raises Cyclic / TooBig."""
    from lark.parsers.earley_forest import TokenNode, SymbolNode
    count = [0]
    path = set()

    def node(n):
        count[0] += 1
        if count[0] > MAX_NODES:
            raise TooBig()
        if isinstance(n, TokenNode):
            return ('tok', str(n.token.type), str(n.token))
        assert isinstance(n, SymbolNode)
        if id(n) in path:
            raise Cyclic()
        path.add(id(n))
        if n.is_intermediate:
            label = ('I', n.s[0], n.s[1])
        else:
            label = ('S', n.s.name)
        fams = []
        for p in n.children:        # sorted by sort_key, as the transformer visits them
            left = node(p.left) if p.left is not None else None
            right = node(p.right) if p.right is not None else None
            fams.append((p.rule, left, right))
        path.discard(id(n))
        return ('sym', label, fams)
    return node(root)


def export_id_graph(root):
    """the SPPF below root as a numbered graph: [('tok', type, value) | ('sym', label, [(rule, left|None, right|None)])],
    a node's number is its position, root = 0; packed children in SymbolNode.children order (as the transformer visits
    them).  None when too big."""
    from lark.parsers.earley_forest import TokenNode
    ids = {}
    order = []

    def num(n):
        k = id(n)
        if k not in ids:
            ids[k] = len(order)
            order.append(n)
        return ids[k]
    num(root)
    nodes = []
    i = 0
    while i < len(order):
        n = order[i]
        i += 1
        if len(order) > MAX_GNODES:
            return None
        if isinstance(n, TokenNode):
            nodes.append(('tok', str(n.token.type), str(n.token)))
            continue
        label = ('I', n.s[0], n.s[1]) if n.is_intermediate else ('S', n.s.name)
        fams = []
        for p in n.children:
            fams.append((p.rule, num(p.left) if p.left is not None else None, num(p.right) if p.right is not None else None))
        nodes.append(('sym', label, fams))
    return nodes


def coq_graph(nodes, rt):
    out = []
    for nd in nodes:
        if nd[0] == 'tok':
            out.append('(GTok %s %s)' % (S(nd[1]), S(nd[2])))
            continue
        _, label, fams = nd
        lb = '(LSym %s)' % S(label[1]) if label[0] == 'S' else '(LInter %s %s)' % (rt.ref(label[1]), N(label[2]))
        fs = ['(mkGP %s %s %s)' % (rt.ref(r), 'None' if l is None else '(Some %d)' % l, 'None' if x is None else '(Some %d)' % x)
              for r, l, x in fams]
        out.append('(GSym %s %s)' % (lb, L(fs)))
    return L(out)


def coq_gcase(nodes, tree, rt, strict):
    t = 'None' if tree is None or tree == ('none',) else '(Some %s)' % coq_tree(tree)
    return rt.wrap('(%s, %s, 0, %s)' % (B(strict), coq_graph(nodes, rt), t))


def forest_is_cyclic(root):
    try:
        export_forest(root)
    except Cyclic:
        return True
    except TooBig:
        return None
    return False


def unfolded_size(t, cap=10 ** 9):
    """number of nodes of the tree with shared sub-objects counted at every occurrence (memo on id), capped"""
    from lark import Tree
    memo = {}

    def go(x):
        if not isinstance(x, Tree):
            return 1
        k = id(x)
        if k not in memo:
            memo[k] = 0     # (no cycles in a Tree; guard anyway)
            memo[k] = min(cap, 1 + sum(go(c) for c in x.children))
        return memo[k]
    return go(t)


def has_shared_ambig(t):
    """is some _ambig Tree object a child of two different parent objects (or twice of one)?  Only then can
    AmbiguousExpander's in-place expand_kids_by_data have flattened it more than once."""
    from lark import Tree
    seen_parent = {}
    done = set()
    stack = [t]
    while stack:
        x = stack.pop()
        if not isinstance(x, Tree) or id(x) in done:
            continue
        done.add(id(x))
        for c in x.children:
            if isinstance(c, Tree):
                if c.data == '_ambig':
                    seen_parent[id(c)] = seen_parent.get(id(c), 0) + 1
                    if seen_parent[id(c)] > 1:
                        return True
                stack.append(c)
    return False


def forest_features(f):
    """(has an ambiguous intermediate node, has one nested in the left spine of another, has an ambiguous _inlined symbol)"""
    feats = [False, False, False]

    def go(n):
        if n[0] == 'tok':
            return
        _, label, fams = n
        if len(fams) > 1:
            if label[0] == 'I':
                feats[0] = True
                for (_, left, _) in fams:
                    if left is not None and left[0] == 'sym' and len(left[2]) > 1:
                        feats[1] = True
            elif label[1].startswith('_'):
                feats[2] = True
        for (_, left, right) in fams:
            if left is not None:
                go(left)
            if right is not None:
                go(right)
    go(f)
    return tuple(feats)


def export_tree(t):
    from lark import Tree, Token
    if t is None:
        return ('none',)
    if isinstance(t, Tree):
        return ('tree', str(t.data), [export_tree(c) for c in t.children])
    if isinstance(t, Token):
        return ('tok', str(t.type), str(t))
    raise ValueError('unexpected leaf %r' % (t,))


# ----------------------------------------------------------------------------------------------
# Coq terms
# ----------------------------------------------------------------------------------------------
def B(b):
    return 'true' if b else 'false'


class RuleTable:
    """Coq terms for the rules occurring in one case, bound by let in the case term (keeps the generated files small)"""

    def __init__(self, prefix, maybe_placeholders):
        self.prefix = prefix
        self.mp = maybe_placeholders
        self.names = {}
        self.defs = []

    def ref(self, rule):
        k = id(rule)
        if k not in self.names:
            nm = '%s_r%d' % (self.prefix, len(self.names))
            self.names[k] = nm
            o = rule.options
            name = rule.alias or o.template_source or rule.origin.name
            syms = L(['(mkSym %s %s %s)' % (S(str(s.name)), B(s.is_term), B(bool(getattr(s, 'filter_out', False))))
                      for s in rule.expansion])
            empty = L([B(b) for b in (o.empty_indices if self.mp else ())])
            self.defs.append((nm, 'mkX %s %s %s %s %s %s %s' % (
                S(str(rule.origin.name)), S(str(name)), B(bool(rule.alias)), B(bool(o.expand1)),
                B(bool(o.keep_all_tokens)), syms, empty)))
        return self.names[k]

    def wrap(self, term):
        for nm, d in reversed(self.defs):
            term = '(let %s := %s in %s)' % (nm, d, term)
        return term


def coq_forest(f, rt):
    if f[0] == 'tok':
        return '(TokN %s %s)' % (S(f[1]), S(f[2]))
    _, label, fams = f
    if label[0] == 'S':
        lb = '(LSym %s)' % S(label[1])
    else:
        lb = '(LInter %s %s)' % (rt.ref(label[1]), N(label[2]))
    fs = []
    for rule, left, right in fams:
        fs.append('(Pack %s %s %s)' % (rt.ref(rule),
                                       '(Some %s)' % coq_forest(left, rt) if left is not None else 'None',
                                       '(Some %s)' % coq_forest(right, rt) if right is not None else 'None'))
    return '(SymN %s %s)' % (lb, L(fs))


def coq_tree(t):
    if t[0] == 'none':
        return 'Nn'
    if t[0] == 'tok':
        return '(Tk %s %s)' % (S(t[1]), S(t[2]))
    return '(Nd %s %s)' % (S(t[1]), L([coq_tree(c) for c in t[2]]))


# ----------------------------------------------------------------------------------------------
# layer A: the forest as a graph (labels with spans), for Forest/ExplicitBuildCheck.check_forestA
# ----------------------------------------------------------------------------------------------
IMPORTS_A = 'From LV Require Import Cfg.Grammar Forest.ExplicitBuild Forest.ExplicitBuildCheck.'
MAX_GRAPH = 600


def graph_families(root):
    """families of all nodes reachable from root: [(label, (rule, left_label|None, right_label|None))];
    label = ('S', name, i, j) | ('I', rule, ptr, i, j) | ('T', type, value, i, j).  None when too big."""
    from lark.parsers.earley_forest import TokenNode

    def label(n):
        if n.is_intermediate:
            return ('I', n.s[0], n.s[1], n.start, n.end)
        return ('S', str(n.s.name), n.start, n.end)
    fams = []
    seen = set()
    stack = [root]
    while stack:
        n = stack.pop()
        if id(n) in seen:
            continue
        seen.add(id(n))
        if len(seen) > MAX_GRAPH:
            return None
        for p in n.children:
            left = None
            if p.left is not None:
                left = label(p.left)
                stack.append(p.left)
            right = None
            if p.right is not None:
                if isinstance(p.right, TokenNode):
                    m = p.left.end if p.left is not None else n.start
                    right = ('T', str(p.right.token.type), str(p.right.token), m, n.end)
                else:
                    right = label(p.right)
                    stack.append(p.right)
            fams.append((label(n), (p.rule, left, right)))
    return fams


def export_graph_case(root, parser, lexer, text, prefix, fams=None):
    """(coq_term, defs) for one acase, or None when too big / not exportable.
    Match, length and occurrence tables are computed here from the terminals' regexps and the text (or from the
    basic lexer's token list), not from what the parser did."""
    import re
    if fams is None:
        fams = graph_families(root)
    if fams is None:
        return None
    nts, tms = {}, {}

    def nt(name):
        return nts.setdefault(str(name), len(nts))

    def tm(name):
        return tms.setdefault(str(name), len(tms))

    def sym(s):
        return '(T %d)' % tm(s.name) if s.is_term else '(NT %d)' % nt(s.name)
    rule_ref = {}
    defs = []
    for k, r in enumerate(parser.rules):
        nm = 'c%d' % k
        rule_ref[r] = nm
        defs.append((nm, 'mkRule %d %s' % (nt(r.origin.name), L([sym(x) for x in r.expansion]))))
    lexemes = {}

    def label(lb):
        if lb[0] == 'I':
            return '(NInter nat %s %d %d %d)' % (rule_ref[lb[1]], lb[2], lb[3], lb[4])
        if lb[0] == 'S':
            return '(NSym nat %d %d %d)' % (nt(lb[1]), lb[2], lb[3])
        x = lexemes.setdefault((lb[1], lb[2]), len(lexemes))
        return '(NTok nat %d %d %d %d)' % (tm(lb[1]), x, lb[3], lb[4])

    def opt(lb):
        return 'None' if lb is None else '(Some %s)' % label(lb)
    cfams = ['(%s, (%s, %s, %s))' % (label(lb), rule_ref[r], opt(l), opt(rt)) for lb, (r, l, rt) in fams]
    lex_by_id = sorted(lexemes.items(), key=lambda kv: kv[1])
    if lexer == 'basic':
        toks = basic_tokens(parser, text)
        n_in = len(toks)
        tlen = [1] * len(lex_by_id)
        tmt = [(tm(ty), x) for (ty, v), x in lex_by_id]
        occ = [(x, i) for (ty, v), x in lex_by_id for i, t in enumerate(toks) if t == (ty, v)]
    else:
        n_in = len(text)
        tlen = [len(v) for (ty, v), x in lex_by_id]
        pats = {td.name: re.compile(td.pattern.to_regexp()) for td in parser.terminals}
        tmt = [(tm(name), x) for name, pat in pats.items() for (ty, v), x in lex_by_id if pat.fullmatch(v)]
        occ = [(x, i) for (ty, v), x in lex_by_id for i in range(n_in + 1) if text.startswith(v, i)]
    pairs = lambda l: L(['(%d, %d)' % ab for ab in l])
    root_label = ('S', str(root.s.name), root.start, root.end)
    term = '(mkA %s %s %s %s %d %d %s %s)' % (L([rule_ref[r] for r in parser.rules]), pairs(tmt), L(['%d' % x for x in tlen]),
                                             pairs(occ), nt('start'), n_in, label(root_label), L(cfams))
    for nm, d in reversed(defs):
        term = '(let %s := %s in %s)' % (nm, d, term)
    return term, []


def spec_families(rules, start, n, tmatch):
    """The relation `added` of Forest/ExplicitBuild_proofs.v evaluated directly (chart closure by the four chart rules,
    then one family per instance of the three add_family rules); scanning generalised to lexemes of any length.
    Same label tuples as graph_families."""
    by_origin = {}
    for r in rules:
        by_origin.setdefault(r.origin.name, []).append(r)
    cols = [set() for _ in range(n + 1)]
    for r in by_origin.get(start, ()):
        cols[0].add((r, 0, 0))
    for k in range(n + 1):
        col = cols[k]
        changed = True
        while changed:
            changed = False
            for (r, d, j) in list(col):
                if d < len(r.expansion):
                    s = r.expansion[d]
                    if not s.is_term:
                        for r2 in by_origin.get(s.name, ()):
                            if (r2, 0, k) not in col:
                                col.add((r2, 0, k))
                                changed = True
                else:
                    for (r0, d0, j0) in list(cols[j]):
                        if d0 < len(r0.expansion) and not r0.expansion[d0].is_term and r0.expansion[d0].name == r.origin.name:
                            if (r0, d0 + 1, j0) not in col:
                                col.add((r0, d0 + 1, j0))
                                changed = True
        for (r, d, j) in col:
            if d < len(r.expansion) and r.expansion[d].is_term:
                for (e, tok) in tmatch(r.expansion[d].name, k):
                    if e <= n:
                        cols[e].add((r, d + 1, j))

    def ilabel(r, d, i, j):
        return ('S', str(r.origin.name), i, j) if d == len(r.expansion) else ('I', r, d, i, j)

    def inode(r, d, j, k):
        return None if d == 0 else ('I', r, d, j, k)
    fams = set()
    for k in range(n + 1):
        for (r, d, j) in cols[k]:
            if d == 0 and len(r.expansion) == 0:
                fams.add((('S', str(r.origin.name), k, k), (r, None, None)))
            if d < len(r.expansion):
                s = r.expansion[d]
                if s.is_term:
                    for (e, tok) in tmatch(s.name, k):
                        if e <= n:
                            fams.add((ilabel(r, d + 1, j, e), (r, inode(r, d, j, k), ('T', tok[0], tok[1], k, e))))
                else:
                    for e in range(k, n + 1):
                        for (r2, d2, j2) in cols[e]:
                            if j2 == k and d2 == len(r2.expansion) and r2.origin.name == s.name:
                                fams.add((ilabel(r, d + 1, j, e), (r, inode(r, d, j, k), ('S', s.name, k, e))))
    return fams


def reachable_families(fams, root_label):
    by_label = {}
    for lb, f in fams:
        by_label.setdefault(lb, []).append(f)
    out = set()
    seen = set()
    stack = [root_label]
    while stack:
        lb = stack.pop()
        if lb in seen:
            continue
        seen.add(lb)
        for f in by_label.get(lb, ()):
            out.add((lb, f))
            for c in (f[1], f[2]):
                if c is not None and c[0] != 'T':
                    stack.append(c)
    return out


def added_vs_forest(parser, lexer, text, fams, root):
    """None if the captured forest has exactly the families of the specification reachable from the root"""
    tmt = make_tmatch(parser, lexer, text)
    if tmt is None:
        return 'input accepted although the basic lexer cannot tokenise it'
    n, tmatch, _ = tmt
    spec = spec_families(parser.rules, 'start', n, tmatch)
    root_label = ('S', str(root.s.name), root.start, root.end)
    if root_label != ('S', 'start', 0, n):
        return 'root of the forest is %r' % (root_label,)
    got = set(fams)
    if len(got) != len(fams):
        return 'a family occurs twice under one node'
    extra = got - spec
    if extra:
        return 'family not generated by the add_family rules over the chart: %r' % (sorted(map(repr, extra))[0],)
    missing = reachable_families(spec, root_label) - got
    if missing:
        return 'family of the specification missing from the forest: %r' % (sorted(map(repr, missing))[0],)
    return None


# ----------------------------------------------------------------------------------------------
# the property's own oracle (Python, independent of the Coq model)
# ----------------------------------------------------------------------------------------------
def py_expand(t):
    """all trees obtained by choosing one alternative at every _ambig (cartesian over siblings)"""
    if t[0] != 'tree':
        return [t]
    alts = [py_expand(c) for c in t[2]]
    if t[1] == '_ambig':
        return [x for a in alts for x in a]
    return [('tree', t[1], list(ch)) for ch in itertools.product(*alts)]


def freeze(t):
    if t[0] == 'tree':
        return ('tree', t[1], tuple(freeze(c) for c in t[2]))
    return tuple(t)


def term_matches(parser, lexer, text):
    """terminal occurrences: dict (name, i) -> set of end positions, by the documented matching of the lexer"""
    import re
    out = {}
    n = len(text)
    for td in parser.terminals:
        pat = re.compile(td.pattern.to_regexp())
        for i in range(n):
            m = pat.match(text, i)
            if not m or m.end() == i:
                continue
            ends = {m.end()}
            if lexer == 'dynamic_complete':
                for j in range(i + 1, m.end()):
                    if pat.fullmatch(text, i, j):
                        ends.add(j)
            out[(td.name, i)] = ends
    return out


def basic_tokens(parser, text):
    return [(str(t.type), str(t)) for t in parser.lex(text)]


class OracleOverflow(Exception):
    pass


def enumerate_derivations(rules, start, n, tmatch, simple_paths):
    """all derivation trees of the compiled BNF for positions 0..n.
    tmatch(name, i) -> iterable of (j, tokentuple).  simple_paths=k>0: derivations in which no (symbol,i,j)
    occurs more than k times along a root-to-leaf path (finite also for cyclic grammars); simple_paths=0: such a
    repetition raises Cyclic."""
    by_origin = {}
    for r in rules:
        by_origin.setdefault(r.origin.name, []).append(r)
    memo = {}
    budget = [200000]

    def sym_derivs(a, i, j, path):
        key = (a, i, j)
        seen = path.get(key, 0)
        if seen:
            if not simple_paths:
                raise Cyclic()
            if seen >= simple_paths:
                return []
        if not simple_paths and key in memo:
            return memo[key]
        path = dict(path)
        path[key] = seen + 1
        res = []
        for r in by_origin.get(a, ()):
            for kids in seq_derivs(r.expansion, 0, i, j, path):
                res.append(('node', r, kids))
                if len(res) > MAX_DERIVS * 4:
                    raise OracleOverflow()
        if not simple_paths:
            memo[key] = res
        return res

    def seq_derivs(exp, k, i, j, path):
        budget[0] -= 1
        if budget[0] < 0:
            raise OracleOverflow()
        if k == len(exp):
            return [[]] if i == j else []
        s = exp[k]
        out = []
        if s.is_term:
            for (m, tok) in tmatch(s.name, i):
                if m <= j:
                    for rest in seq_derivs(exp, k + 1, m, j, path):
                        out.append([('tok',) + tok] + rest)
        else:
            for m in range(i, j + 1):
                rests = seq_derivs(exp, k + 1, m, j, path)
                if not rests:
                    continue
                for d in sym_derivs(s.name, i, m, path):
                    for rest in rests:
                        out.append([d] + rest)
                        if len(out) > MAX_DERIVS * 4:
                            raise OracleOverflow()
        return out
    return sym_derivs(start, 0, n, {})


def py_shape(d, maybe_placeholders):
    """documented shaping of a derivation tree (independent of parse_tree_builder):
       filtered tokens dropped unless keep_all_tokens; _rules spliced; None per untaken [..] slot;
       ?rule with exactly one child (and no alias) replaced by it; alias renames."""
    if d[0] == 'tok':
        return ('tok', d[1], d[2])
    _, r, kids = d
    o = r.options
    out = []
    marks = list(o.empty_indices) if (maybe_placeholders and o.empty_indices) else [False] * len(r.expansion)
    it = iter(zip(r.expansion, kids))
    for mk in marks:
        if mk:
            out.append(('none',))
            continue
        s, kd = next(it)
        if s.is_term:
            if o.keep_all_tokens or not s.filter_out:
                out.append(py_shape(kd, maybe_placeholders))
        else:
            sub = py_shape(kd, maybe_placeholders)
            if s.name.startswith('_'):
                out.extend(sub[2])
            else:
                out.append(sub)
    if o.expand1 and not r.alias and len(out) == 1:
        return out[0]
    return ('tree', str(r.alias or o.template_source or r.origin.name), out)


def ignore_skips(parser, text):
    """%ignore under the dynamic lexers, as documented: ignored text may stand before any token and after the last one.
    skip(i) = positions reachable from i through a chain of matches of %ignore terminals (each the match re gives at that
    position, non-empty).  Identity when the grammar ignores nothing."""
    import re
    n = len(text)
    pats = [re.compile(td.pattern.to_regexp()) for td in parser.terminals if td.name in set(parser.ignore_tokens)]
    step = {}
    for i in range(n):
        ends = set()
        for pat in pats:
            m = pat.match(text, i)
            if m and m.end() > i:
                ends.add(m.end())
        step[i] = ends
    memo = {}

    def skip(i):
        if i not in memo:
            seen = {i}
            stack = [i]
            while stack:
                p = stack.pop()
                for e in step.get(p, ()):
                    if e not in seen:
                        seen.add(e)
                        stack.append(e)
            memo[i] = sorted(seen)
        return memo[i]
    return skip


def oracle_trees(parser, lexer, text, simple_paths=0, maybe_placeholders=True):
    """set of frozen shaped trees of all derivations of text; None if the input cannot be tokenised (basic)"""
    tmt = make_tmatch(parser, lexer, text)
    if tmt is None:
        return None
    n, tmatch, ends = tmt
    out = set()
    total = 0
    for j in ends:
        ds = enumerate_derivations(parser.rules, 'start', j, tmatch, simple_paths)
        total += len(ds)
        if total > MAX_DERIVS:
            raise OracleOverflow()
        out |= {freeze(py_shape(d, maybe_placeholders)) for d in ds}
    return out


def make_tmatch(parser, lexer, text):
    """(n, tmatch, ends) or None when the basic lexer cannot tokenise text.  tmatch(name, i) = token matches of terminal
    name that may follow position i (ignored text skipped first, dynamic lexers); ends = the positions at which a
    derivation of the start symbol may end (n, or any position from which only ignored text follows)."""
    if lexer == 'basic':
        from lark.exceptions import UnexpectedInput
        try:
            toks = basic_tokens(parser, text)
        except UnexpectedInput:
            return None
        n = len(toks)

        def tmatch(name, i):
            if i < n and toks[i][0] == name:
                return [(i + 1, toks[i])]
            return []
        ends = [n]
    else:
        tm = term_matches(parser, lexer, text)
        n = len(text)
        skip = ignore_skips(parser, text)

        def tmatch(name, i):
            return [(j, (name, text[q:j])) for q in skip(i) for j in sorted(tm.get((name, q), ()))]
        ends = [j for j in range(n + 1) if n in skip(j)]
    return n, tmatch, ends


class ShapeMembership:
    """decides 'tree T is the documented shape of SOME derivation of the input' without enumerating
    derivations (there may be infinitely many in a cyclic grammar): goal-directed search over
    (symbol, i, j, expected shaped output); a goal met again below itself is cut (a smallest derivation never
    needs it); negative answers obtained under such a cut are not cached."""

    def __init__(self, rules, n, tmatch, maybe_placeholders):
        self.by_origin = {}
        for r in rules:
            self.by_origin.setdefault(r.origin.name, []).append(r)
        self.n = n
        self.tmatch = tmatch
        self.mp = maybe_placeholders
        self.memo = {}
        self.active = set()
        self.cut = 0
        self.steps = 0

    def goal(self, key, compute):
        if key in self.memo:
            return self.memo[key]
        if key in self.active:
            self.cut += 1
            return False
        self.active.add(key)
        cut0 = self.cut
        res = compute()
        self.active.discard(key)
        if res or self.cut == cut0:
            self.memo[key] = res
        if len(self.active) == 0:
            self.cut = 0
        return res

    def sym_tree(self, a, i, j, T):
        """some derivation of non-terminal a over i..j has shape T"""
        def compute():
            for r in self.by_origin.get(a, ()):
                esc = r.options.expand1 and not r.alias
                name = str(r.alias or r.options.template_source or r.origin.name)
                if esc and self.rule_children(r, i, j, (T,)):
                    return True
                if T[0] == 'tree' and T[1] == name and not (esc and len(T[2]) == 1):
                    if self.rule_children(r, i, j, T[2]):
                        return True
            return False
        return self.goal(('t', a, i, j, T), compute)

    def sym_list(self, a, i, j, Ts):
        """some derivation of the inlined non-terminal a over i..j contributes exactly the children Ts"""
        def compute():
            return any(self.rule_children(r, i, j, Ts) for r in self.by_origin.get(a, ()))
        return self.goal(('l', a, i, j, Ts), compute)

    def rule_children(self, r, i, j, Ts):
        o = r.options
        marks = list(o.empty_indices) if (self.mp and o.empty_indices) else [False] * len(r.expansion)
        exp = r.expansion

        def walk(mi, k, p, q):
            self.steps += 1
            if self.steps > 300000:
                raise OracleOverflow()
            if mi == len(marks):
                return p == j and q == len(Ts)
            if marks[mi]:
                return q < len(Ts) and Ts[q] == ('none',) and walk(mi + 1, k, p, q + 1)
            s = exp[k]
            if s.is_term:
                kept = o.keep_all_tokens or not s.filter_out
                for (m, tok) in self.tmatch(s.name, p):
                    if m > j:
                        continue
                    if kept:
                        if q < len(Ts) and Ts[q] == ('tok',) + tuple(tok) and walk(mi + 1, k + 1, m, q + 1):
                            return True
                    elif walk(mi + 1, k + 1, m, q):
                        return True
                return False
            if s.name.startswith('_'):
                for m in range(p, j + 1):
                    for q2 in range(q, len(Ts) + 1):
                        if self.sym_list(s.name, p, m, tuple(Ts[q:q2])) and walk(mi + 1, k + 1, m, q2):
                            return True
                return False
            if q >= len(Ts):
                return False
            for m in range(p, j + 1):
                if self.sym_tree(s.name, p, m, Ts[q]) and walk(mi + 1, k + 1, m, q + 1):
                    return True
            return False
        return walk(0, 0, i, 0)


def contains_ambig(t):
    return t[0] == 'tree' and (t[1] == '_ambig' or any(contains_ambig(c) for c in t[2]))


def contains_none(t):
    return t[0] == 'none' or (t[0] == 'tree' and any(contains_none(c) for c in t[2]))


def run_case(grammar, lexer, text, parser=None, mp=True):
    """one end-to-end observation. returns dict(status=..., ...)"""
    from lark.exceptions import UnexpectedInput, GrammarError
    if parser is None:
        parser = make_parser(grammar, lexer, maybe_placeholders=mp)
    try:
        tree, root = with_timeout(lambda: parse_capture(parser, text))
    except UnexpectedInput:
        return dict(status='reject')
    except Hang:
        return dict(status='hang')
    except RecursionError:
        return dict(status='reject')      # not examined (python stack), not a verdict
    except Exception as e:     # anything else is not a documented outcome of parse()
        return dict(status='exception', exception='%s: %s' % (type(e).__name__, str(e)[:200]))
    if unfolded_size(tree) > MAX_TREE:
        return dict(status='ok-huge', root=root, parser=parser)
    return dict(status='ok', tree=export_tree(tree), lark_tree=tree, root=root, parser=parser)


def property_verdict(parser, lexer, text, obs, cyclic, mp=True):
    """None if the property holds on this observation, else (kind, detail). obs from run_case."""
    if obs['status'] == 'hang':
        if cyclic and len(text) > 3:
            # the conversion of a cyclic forest enumerates cycle-free paths, which is exponential in the input length
            # (observed: 133 s on 5 characters, terminating); only short inputs can tell a hang from that
            return None
        return ('hang', 'parse did not terminate within %ss' % CALL_TIMEOUT)
    if obs['status'] == 'exception':
        return ('exception', 'parse raised ' + obs['exception'])
    if obs['status'] == 'ok-huge':
        return None
    if cyclic:
        return cyclic_verdict(parser, lexer, text, obs, mp)
    try:
        want = oracle_trees(parser, lexer, text, simple_paths=0, maybe_placeholders=mp)
    except (OracleOverflow, Cyclic):
        return None
    if obs['status'] == 'ok-huge':
        return None
    if obs['status'] == 'reject':
        if want and not cyclic:
            return ('missing', 'input rejected but %d derivation(s) exist, e.g. %r' % (len(want), sorted(want)[0]))
        return None
    if count_expansions(obs['tree']) > 20000:
        return None        # not examined: the expansion itself would not fit (the oracle bound is far below)
    try:
        got = {freeze(t) for t in py_expand(obs['tree'])}
    except MemoryError:
        return None
    if want is None:
        want = set()
    extra = got - want
    if extra:
        return ('extra', 'tree in the result that is not the shape of a derivation: %r' % (sorted(extra)[0],))
    if not cyclic:
        miss = want - got
        if miss:
            return ('missing', 'derivation missing from the result: %r' % (sorted(miss)[0],))
    return None


def cyclic_verdict(parser, lexer, text, obs, mp):
    """cyclic grammars: termination (checked by the caller) and soundness only"""
    if obs['status'] != 'ok':
        return None
    if count_expansions(obs['tree']) > 200:
        return None
    tmt = make_tmatch(parser, lexer, text)
    if tmt is None:
        return ('extra', 'input accepted although the basic lexer cannot tokenise it')
    n, tmatch, ends = tmt
    sm = ShapeMembership(parser.rules, n, tmatch, mp)
    try:
        for t in py_expand(obs['tree']):
            if not any(sm.sym_tree('start', 0, j, freeze(t)) for j in ends):
                return ('extra', 'tree in the result that is not the shape of a derivation: %r' % (freeze(t),))
    except (OracleOverflow, RecursionError):
        return None
    return None


def all_inputs(alphabet, maxlen):
    for k in range(0, maxlen + 1):
        for tup in itertools.product(alphabet, repeat=k):
            yield ''.join(tup)


# ----------------------------------------------------------------------------------------------
# streams
# ----------------------------------------------------------------------------------------------
# regression witnesses of the repaired finding F6 (CollapseAmbiguities with None placeholder children)
F6_CASES = [
    ('start: [A] b\nb: A? "c"\nA: "a"\n', 'ac'),                      # None child of an ordinary node (F6)
    ('start: q A\n?q: [A] | b\nb: B*\nA: "a"\nB: "b"\n', 'a'),        # None alternative directly under _ambig (F6b)
]


def observe_collapse(tree):
    """CollapseAmbiguities().transform on lark's tree -> list of exported trees, or None for AssertionError"""
    from lark.visitors import CollapseAmbiguities
    try:
        res = CollapseAmbiguities().transform(tree)
    except Exception:   # AssertionError / VisitError
        return None
    return [export_tree(t) for t in res]


def hist(ctx, **kw):
    """histogram entries that are not evaluations of their own"""
    for k, v in kw.items():
        h = ctx.histo.setdefault(k, {})
        h[str(v)] = h.get(str(v), 0) + 1


def witness(grammar, lexer, text, opts):
    return {'grammar': grammar, 'lexer': lexer, 'text': text, 'options': opts}


def coq_case(forest, tree, cobs, rt, strict=True):
    if cobs == 'skip':
        o = 'None'
    elif cobs is None:
        o = '(Some None)'
    else:
        o = '(Some (Some %s))' % L([coq_tree(t) for t in cobs])
    return rt.wrap('(%s, %s, %s, %s)' % (B(strict), coq_forest(forest, rt), coq_tree(tree), o))


def tree_size(t):
    return 1 + (sum(tree_size(c) for c in t[2]) if t[0] == 'tree' else 0)


def count_expansions(t, cap=10 ** 6):
    if t[0] != 'tree':
        return 1
    ns = [count_expansions(c, cap) for c in t[2]]
    if t[1] == '_ambig':
        return min(cap, sum(ns))
    n = 1
    for x in ns:
        n = min(cap, n * x)
    return n


def run_stream(ctx, stream, ngrammars, cyclic_wanted, maxlen, cases, meta, defs, acases=None, ignore=False, corpus=None,
               gcases=None):
    from lark.exceptions import GrammarError
    from lark import Tree
    rng = ctx.rng
    made = 0
    attempts = 0
    fixed = []
    if corpus is not None:
        # fixed corpus: every grammar under every lexer, with and without placeholders; no randomness
        fixed = [(g, lexer, {'maybe_placeholders': mp, 'keep_all_tokens': False}, inputs)
                 for g, inputs in corpus for lexer in ('basic', 'dynamic', 'dynamic_complete') for mp in (True, False)]
        ngrammars = len(fixed)
    while made < ngrammars and attempts < max(1, ngrammars) * 30:
        attempts += 1
        alphabet = 'ab'
        if corpus is not None:
            if attempts > len(fixed):
                break
            g, lexer, opts, fixed_inputs = fixed[attempts - 1]
        else:
            lexer = rng.choice(['basic', 'dynamic', 'dynamic_complete', 'dynamic_complete'])
            opts = {'maybe_placeholders': rng.random() < 0.8, 'keep_all_tokens': rng.random() < 0.1}
        if corpus is not None:
            pass
        elif ignore:
            # grammars with %ignore terminals; half of them with the ambiguity at the root between differently shaped
            # alternatives of the start symbol; mostly the dynamic lexers (ignored text is skipped by the parser itself)
            lexer = rng.choice(['basic', 'dynamic', 'dynamic', 'dynamic_complete', 'dynamic_complete'])
            overlap = rng.random() < 0.2
            if overlap:
                # terminals overlapping the ignored blanks (one item carried to a position from two origins)
                g, ign_chars = gen_overlap_grammar(rng, lexer), [' ']
            else:
                if rng.random() < 0.55:
                    g, alphabet = gen_root_ambig_grammar(rng, lexer), 'xy'
                else:
                    g = gen_grammar(rng, lexer, False)
                g, ign_chars = add_ignores(rng, g)
        else:
            g = gen_grammar(rng, lexer, cyclic_wanted)
        try:
            parser = with_timeout(lambda: make_parser(g, lexer, **opts))
        except GrammarError:
            continue
        except Hang:
            ctx.violation('hang', witness(g, lexer, '', opts), True, 'Lark() did not terminate')
            continue
        cyclic = has_derivation_cycle(parser.rules)
        if corpus is None and cyclic != cyclic_wanted:
            continue
        made += 1
        inputs = list(all_inputs(alphabet, maxlen))
        longer = [''.join(rng.choice(alphabet) for _ in range(rng.randint(maxlen + 1, maxlen + 2))) for _ in range(3)]
        if not cyclic:
            # (cyclic grammars: converting the forest of a longer input can take minutes and a time-out there is no verdict)
            inputs += longer
            inputs += ['a' * k for k in range(maxlen + 1, maxlen + 4)] + ['a' * rng.randint(2, 5) + 'b', 'b' + 'a' * rng.randint(2, 5)]
        if ignore and overlap:
            inputs = overlap_inputs(rng, 14) + ['a  b', 'a   b', ' a  a ']
        elif ignore:
            inputs = [t for t in inputs if len(t) <= maxlen]
            inputs = inputs + [decorate(rng, t, ign_chars) for t in inputs for _ in range(2)] + [rng.choice(ign_chars)]
        if corpus is not None:
            inputs = list(fixed_inputs)
        for text in inputs:
            obs = run_case(g, lexer, text, parser=parser)
            verdict = property_verdict(parser, lexer, text, obs, cyclic, mp=opts['maybe_placeholders'])
            amb = obs['status'] == 'ok' and contains_ambig(obs['tree'])
            ctx.count(stream, key=(g, lexer, text, tuple(sorted(opts.items()))), nontrivial=amb,
                      status=obs['status'], lexer=lexer, input_len=len(text),
                      **({'ignored_text': ('trailing' if text and text[-1] in ign_chars else
                                           'leading/inner' if any(c in ign_chars for c in text) else 'none')} if ignore else {}),
                      ambig_nodes=(min(5, repr(obs['tree']).count('_ambig')) if obs['status'] == 'ok' else 'n/a'))
            if verdict:
                ctx.violation('property-oracle:%s' % verdict[0], witness(g, lexer, text, opts), True, verdict[1])
            if obs['status'] in ('ok', 'ok-huge') and acases is not None and (not ignore or lexer == 'basic'):
                gf = graph_families(obs['root'])
                ga = export_graph_case(obs['root'], parser, lexer, text, 'a%s%d_%d' % (stream[0], made, len(acases[0])), gf)
                if gf is not None:
                    msg = added_vs_forest(parser, lexer, text, gf, obs['root'])
                    hist(ctx, added_vs_forest_families=min(40, 10 * (len(gf) // 10)))
                    if msg:
                        # the forest differs from the specification: a failing input of the property itself is one where the
                        # tree set differs (reported by the oracle above); otherwise report the broken tie
                        if not verdict:
                            ctx.violation('correspondence:Forest/ExplicitBuild.added vs earley.py forest',
                                          dict(witness(g, lexer, text, opts), no_longer_checks='families of the SPPF = families of the specification'),
                                          False, msg)
                if ga is not None:
                    acases[0].append(ga[0])
                    acases[1].extend(ga[1])
                    acases[2].append((g, lexer, text, opts, verdict))
            if obs['status'] != 'ok':
                continue
            if gcases is not None and tree_size(obs['tree']) <= 3 * MAX_NODES:
                # the forest as a numbered (possibly cyclic) graph for Forest/ExplicitGraph.v: which packed nodes the walk
                # drops on a cycle, the packed-node cache, and the tree built from what is kept
                gnodes = export_id_graph(obs['root'])
                if gnodes is not None:
                    fc = forest_is_cyclic(obs['root'])
                    hist(ctx, graph_model_forest=('cyclic' if fc else 'too big to unfold' if fc is None else 'acyclic'))
                    gstrict = not has_shared_ambig(obs['lark_tree'])
                    gcases[0].append(coq_gcase(gnodes, obs['tree'], RuleTable('r', opts['maybe_placeholders']), gstrict))
                    gcases[1].append((g, lexer, text, opts, verdict))
            try:
                forest = export_forest(obs['root'])
            except (TooBig, Cyclic):
                hist(ctx, forest_not_unfolded=stream)
                continue
            if tree_size(obs['tree']) > 3 * MAX_NODES:
                continue
            cobs = 'skip'
            if count_expansions(obs['tree']) <= 40 and isinstance(obs.get('lark_tree'), Tree):
                cobs = observe_collapse(obs['lark_tree'])
                msg = collapse_verdict(obs['lark_tree'])
                if msg:
                    ctx.violation('property-oracle:collapse', dict(witness(g, lexer, text, opts), collapse=True), True, msg)
                    verdict = verdict or ('collapse', msg)
            ff = forest_features(forest)
            hist(ctx, iambig=ff[0], nested_iambig=ff[1], ambiguous_inlined=ff[2])
            strict = not has_shared_ambig(obs['lark_tree'])
            if not strict:
                hist(ctx, shared_ambig_object_compared_modulo_flattening=stream)
            cases.append(coq_case(forest, obs['tree'], cobs, RuleTable('r', opts['maybe_placeholders']), strict))
            meta.append((g, lexer, text, opts, verdict))
            if amb:
                ctx.sample({'grammar': g, 'lexer': lexer, 'text': text, 'options': opts,
                            'explicit_tree': repr(obs['tree'])[:600]}, limit=4)


def correspond(ctx):
    cases, meta, defs = [], [], []
    k = 3 if ctx.widen else 1
    acases = ([], [], [])
    run_stream(ctx, 'stacked-corpus', 0, False, 0, cases, meta, defs, acases, corpus=STACKED_CORPUS)
    run_stream(ctx, 'overlap-corpus', 0, False, 0, cases, meta, defs, None, corpus=OVERLAP_CORPUS)
    gcases = ([], [])
    run_stream(ctx, 'cyclic-corpus', 0, True, 0, cases, meta, defs, acases, corpus=CYCLIC_CORPUS, gcases=gcases)
    run_stream(ctx, 'acyclic', ctx.scale(80, 1500) * k, False, 4, cases, meta, defs, acases)
    run_stream(ctx, 'cyclic', ctx.scale(25, 300) * k, True, 3, cases, meta, defs, acases, gcases=gcases)
    # %ignore: layer B and the derivation oracle; layer A (graph form, added-vs-forest) where the lexer is basic - the
    # basic lexer drops the ignored tokens, the parser works on the remaining token list; the dynamic lexers' layer A
    # is the dyn-families stream
    run_stream(ctx, 'ignore', ctx.scale(40, 600) * k, False, 3, cases, meta, defs, acases, ignore=True)
    exotic_f6(ctx, cases, meta, defs)
    check_layer_a(ctx, acases)
    run_alg_families(ctx, ctx.scale(25, 400) * k)
    run_dyn_families(ctx, ctx.scale(20, 300) * k)
    ctx.extra['layer_A_forests_checked'] = len(acases[0])
    # Coq: the model on the captured forests
    bad, errs = ctx.coq_bad_indices('c04', IMPORTS, 'check_case', cases, chunk=150,
                                    extra_defs='\n'.join(_STR_DEFS + defs))
    for e in errs:
        ctx.violation('correspondence:coq-eval', {'no_longer_checks': 'Coq evaluation of the model', 'error': e}, False, e[:300])
    check_graph_model(ctx, gcases, defs)
    for i in bad:
        g, lexer, text, opts, verdict = meta[i]
        if verdict:
            continue        # already reported with a failing input
        ctx.violation('correspondence:Forest/ExplicitToTree.to_tree_explicit vs ForestToParseTree/callbacks',
                      dict(witness(g, lexer, text, opts), no_longer_checks='model/implementation agreement on this case'),
                      False, 'model and implementation disagree on the explicit tree (or CollapseAmbiguities result, or the '
                             'forest is not of the shape assumed by the theorem); the derivation oracle holds on this case')


def check_graph_model(ctx, gcases, defs):
    """Coq: Forest/ExplicitGraph.graph_explicit (cycle retreat, packed-node cache, tree of the kept nodes) on the numbered
    forest graph equals lark's explicit tree, and the graph has the local form the theorems assume (gwfb)"""
    terms, gmeta = gcases
    ctx.extra['graph_model_cases'] = len(terms)
    bad, errs = ctx.coq_bad_indices('c04g', IMPORTS_G, 'gcheck_case', terms, chunk=100, extra_defs='\n'.join(_STR_DEFS + defs))
    for e in errs:
        ctx.violation('correspondence:coq-eval-G', {'no_longer_checks': 'Coq evaluation of gcheck_case', 'error': e}, False, e[:300])
    for i in bad:
        g, lexer, text, opts, verdict = gmeta[i]
        if verdict:
            continue
        ctx.violation('correspondence:Forest/ExplicitGraph.graph_explicit vs ForestToParseTree on a forest graph',
                      dict(witness(g, lexer, text, opts), no_longer_checks='cycle retreat / packed-node cache of the explicit-mode walk'),
                      False, 'the model of the explicit-mode walk over the (cyclic) forest graph and lark disagree on the tree (which '
                             'packed nodes are dropped on a cycle, what the cache returns, or the graph is not of the assumed local '
                             'form); the soundness oracle holds on this case')


def check_layer_a(ctx, acases):
    """Coq: every family of every captured forest (cyclic ones included) has the local form that A_sound assumes"""
    terms, adefs, ameta = acases
    bad, errs = ctx.coq_bad_indices('c04a', IMPORTS_A, 'check_forestA', terms, chunk=150, extra_defs='\n'.join(adefs))
    for e in errs:
        ctx.violation('correspondence:coq-eval-A', {'no_longer_checks': 'Coq evaluation of check_forestA', 'error': e}, False, e[:300])
    for i in bad:
        g, lexer, text, opts, verdict = ameta[i]
        if verdict:
            continue
        ctx.violation('correspondence:Forest/ExplicitBuild.fam_ok vs earley.py add_family',
                      dict(witness(g, lexer, text, opts), no_longer_checks='local form of the packed families of the SPPF'),
                      False, 'a packed family of the captured forest is not of the form (rule, intermediate node of the same '
                             'rule and start, child matching the next symbol over adjacent spans); the derivation oracle '
                             'holds on this case')


def run_alg_families(ctx, ngrammars):
    """stream alg-families: the log of every SymbolNode.add_family call of a real parse (basic lexer, acyclic and
    cyclic grammars, accepted and rejected inputs) against the log of the instrumented model, as sets, plus the outcome"""
    from lark.exceptions import GrammarError
    rng = ctx.rng
    terms, imeta = [], []
    made = attempts = 0
    while made < ngrammars and attempts < ngrammars * 30:
        attempts += 1
        cyc = rng.random() < 0.25
        opts = {'maybe_placeholders': True, 'keep_all_tokens': False}
        g = gen_grammar(rng, 'basic', cyc)
        ign_chars = []
        if rng.random() < 0.33:
            g, ign_chars = add_ignores(rng, g)
        try:
            parser = with_timeout(lambda: make_parser(g, 'basic', **opts))
        except (GrammarError, Hang):
            continue
        made += 1
        texts = list(all_inputs('ab', 3)) + ['a' * 4, 'a' * 5, 'abab', 'aabb']
        if ign_chars:
            texts += [decorate(rng, t, ign_chars) for t in texts]
        for text in texts:
            try:
                r = parse_logged(parser, text)
            except Hang:
                continue            # hangs are judged by the other streams
            if r is None:
                continue
            code, log = r
            term = coq_icase(parser, text, code, log)
            if term is None or len(term) > 60000:
                continue
            ctx.count('alg-families', key=(g, text), nontrivial=len(log) >= 4 and code == 0,
                      alg_outcome=('accept' if code == 0 else 'eof' if code == 1 else 'token'),
                      add_family_calls=min(60, 10 * (len(log) // 10)))
            terms.append(term)
            imeta.append((g, text, opts, parser))
    bad, errs = ctx.coq_bad_indices('c04i', IMPORTS_I, 'icheck', terms, chunk=200)
    for e in errs:
        ctx.violation('correspondence:coq-eval-alg', {'no_longer_checks': 'Coq evaluation of icheck', 'error': e}, False, e[:300])
    for i in bad:
        g, text, opts, parser = imeta[i]
        # is this a failing input of the property itself?
        cyclic = has_derivation_cycle(parser.rules)
        obs = run_case(g, 'basic', text, parser=make_parser(g, 'basic', **opts))
        verdict = property_verdict(parser, 'basic', text, obs, cyclic)
        if verdict:
            ctx.violation('property-oracle:%s' % verdict[0], witness(g, 'basic', text, opts), True, verdict[1])
        else:
            ctx.violation('correspondence:Forest/ExplicitAlgBuild.iearley_parse vs earley.py add_family log',
                          dict(witness(g, 'basic', text, opts), no_longer_checks='add_family calls / outcome of the parse = those of the instrumented model'),
                          False, 'the set of add_family calls (or the outcome) of lark differs from the instrumented model; '
                                 'the derivation oracle holds on this case')
    ctx.extra['alg_families_cases'] = len(terms)


def run_dyn_families(ctx, ngrammars):
    """stream dyn-families: the add_family log and outcome of real dynamic / dynamic_complete parses (string and simple
    regexp terminals, half of the grammars with %ignore and inputs with leading/inner/trailing ignored text, a quarter
    ambiguous at the root) against the instrumented model Forest/ExplicitDynBuild run on oracle tables of the regex
    engine; in the same Coq evaluation every family of the log must have the local form of dyn_forest_sound over the
    position graph computed by re.fullmatch on slices of the text"""
    from lark.exceptions import GrammarError
    rng = ctx.rng
    terms, dmeta = [], []
    made = attempts = 0
    # the fixed overlap corpus first (both dynamic lexers, independent of the seed), then random grammars
    corpus_left = [(g, ins, lx) for g, ins in OVERLAP_CORPUS for lx in ('dynamic', 'dynamic_complete')]
    while (corpus_left or made < ngrammars) and attempts < ngrammars * 30 + len(OVERLAP_CORPUS) * 2:
        attempts += 1
        lexer = rng.choice(['dynamic', 'dynamic_complete'])
        opts = {'maybe_placeholders': True, 'keep_all_tokens': False}
        chars, alpha = [], 'ab'
        fixed_inputs = None
        from_corpus = bool(corpus_left)
        if corpus_left:
            g, fixed_inputs, lexer = corpus_left.pop()
        elif rng.random() < 0.2:
            g, fixed_inputs = gen_overlap_grammar(rng, lexer), overlap_inputs(rng, 10) + ['a  b', 'a   b']
        elif rng.random() < 0.5:
            if rng.random() < 0.5:
                g, alpha = gen_root_ambig_grammar(rng, lexer), 'xy'
            else:
                g = gen_grammar(rng, lexer, rng.random() < 0.15)
            g, chars = add_ignores(rng, g)
        else:
            g = gen_grammar(rng, lexer, rng.random() < 0.15)
        try:
            parser = with_timeout(lambda: make_parser(g, lexer, **opts))
        except (GrammarError, Hang):
            continue
        if not from_corpus:
            made += 1
        inputs = list(all_inputs(alpha, 3))
        if chars:
            inputs += [decorate(rng, t, chars) for t in inputs] + [rng.choice(chars)]
        if fixed_inputs is not None:
            inputs = list(fixed_inputs)
        for text in inputs:
            try:
                code, log = parse_logged_dyn(parser, text)
            except Hang:
                continue
            except Exception:
                continue            # undocumented exceptions are judged by the other streams
            term = coq_idcase(parser, lexer, text, code, log)
            if term is None or len(term) > 60000:
                continue
            ctx.count('dyn-families', key=(g, lexer, text), nontrivial=len(log) >= 4 and code == 0,
                      dyn_outcome=('accept' if code == 0 else 'eof' if code == 1 else 'chars'), dyn_lexer=lexer,
                      dyn_ignored=('yes' if any(c in text for c in chars) else 'no'))
            terms.append(term)
            dmeta.append((g, lexer, text, opts, parser))
    bad, errs = ctx.coq_bad_indices('c04d', IMPORTS_D, 'idcheck', terms, chunk=150)
    for e in errs:
        ctx.violation('correspondence:coq-eval-dyn', {'no_longer_checks': 'Coq evaluation of idcheck', 'error': e}, False, e[:300])
    for i in bad:
        g, lexer, text, opts, parser = dmeta[i]
        cyclic = has_derivation_cycle(parser.rules)
        obs = run_case(g, lexer, text, parser=make_parser(g, lexer, **opts))
        verdict = property_verdict(parser, lexer, text, obs, cyclic)
        if verdict:
            ctx.violation('property-oracle:%s' % verdict[0], witness(g, lexer, text, opts), True, verdict[1])
        else:
            ctx.violation('correspondence:Forest/ExplicitDynBuild.idyn_parse vs xearley add_family log',
                          dict(witness(g, lexer, text, opts), no_longer_checks='add_family calls / outcome of the dynamic parse = those of the instrumented model, each of the local form that makes the stored trees spell the text'),
                          False, 'the set of add_family calls (or the outcome) of lark differs from the instrumented dynamic '
                                 'model, or a family is not a derivation step over the position graph of the text; the '
                                 'derivation oracle holds on this case')
    ctx.extra['dyn_families_cases'] = len(terms)


def collapse_verdict(tree):
    """the CollapseAmbiguities half of the property on one explicit tree: its result is the expansion"""
    from lark.visitors import CollapseAmbiguities
    want = [freeze(t) for t in py_expand(export_tree(tree))]
    try:
        got = [freeze(export_tree(t)) for t in CollapseAmbiguities().transform(tree)]
    except Exception as e:     # AssertionError / VisitError(TypeError)
        return 'CollapseAmbiguities().transform raises %s on the explicit tree' % type(e).__name__
    if sorted(got) != sorted(want):
        return 'CollapseAmbiguities result differs from the expansion of the tree'
    return None


def exotic_f6(ctx, cases, meta, defs):
    opts = {'maybe_placeholders': True, 'keep_all_tokens': False}
    for n, (g, text) in enumerate(F6_CASES):
        parser = make_parser(g, 'dynamic', **opts)
        obs = run_case(g, 'dynamic', text, parser=parser)
        ctx.count('exotic-F6', key=(g, text), nontrivial=True)
        msg = collapse_verdict(obs['lark_tree'])
        verdict = property_verdict(parser, 'dynamic', text, obs, False)
        if msg:
            ctx.violation('exotic:CollapseAmbiguities-None', dict(witness(g, 'dynamic', text, opts), collapse=True), True, msg)
        if verdict:
            ctx.violation('property-oracle:%s' % verdict[0], witness(g, 'dynamic', text, opts), True, verdict[1])
        cases.append(coq_case(export_forest(obs['root']), obs['tree'], observe_collapse(obs['lark_tree']), RuleTable('r', True)))
        meta.append((g, 'dynamic', text, opts, verdict or msg))


def replay(ctx, case):
    w = case['witness']
    if 'grammar' not in w:
        return False
    opts = w.get('options', {})
    from lark.exceptions import GrammarError
    try:
        parser = with_timeout(lambda: make_parser(w['grammar'], w['lexer'], **opts))
    except Hang:
        return True
    except GrammarError:
        return False
    if w.get('collapse'):
        return collapse_verdict(parser.parse(w['text'])) is not None
    cyclic = has_derivation_cycle(parser.rules)
    obs = run_case(w['grammar'], w['lexer'], w['text'], parser=parser)
    return property_verdict(parser, w['lexer'], w['text'], obs, cyclic, mp=opts.get('maybe_placeholders', True)) is not None


# ----------------------------------------------------------------------------------------------
# round 3: the add_family log of lark's parser against the instrumented model Forest/ExplicitAlgBuild
# ----------------------------------------------------------------------------------------------
IMPORTS_I = 'From LV Require Import Cfg.Grammar Earley.Spec Earley.Alg Forest.ExplicitBuild Forest.ExplicitAlgBuild.'


def parse_logged(parser, text):
    """runs parser.parse(text) (basic lexer) with SymbolNode.add_family and Parser.predict_and_complete wrapped.
    returns (outcome code, log) with log = [(label, rule, left, right)] for every add_family call, labels as in
    graph_families; None when the lexer itself rejects the text."""
    from lark.parsers import earley_forest, earley
    from lark.exceptions import UnexpectedCharacters, UnexpectedEOF, UnexpectedToken
    log = []
    calls = [0]
    orig_add = earley_forest.SymbolNode.add_family
    orig_pc = earley.Parser.predict_and_complete

    def label(n):
        if n.is_intermediate:
            return ('I', n.s[0], n.s[1], n.start, n.end)
        return ('S', str(n.s.name), n.start, n.end)

    def add_family(self, lr0, rule, start, left, right):
        lf = label(left) if left is not None else None
        if right is None:
            rt = None
        elif isinstance(right, earley_forest.TokenNode):
            rt = ('T', str(right.token.type), str(right.token.type), self.end - 1, self.end)
        else:
            rt = label(right)
        log.append((label(self), rule, lf, rt))
        return orig_add(self, lr0, rule, start, left, right)

    def pc(self, i, *a, **kw):
        calls[0] += 1
        return orig_pc(self, i, *a, **kw)
    earley_forest.SymbolNode.add_family = add_family
    earley.Parser.predict_and_complete = pc
    try:
        try:
            with_timeout(lambda: parser.parse(text))
            code = 0
        except UnexpectedCharacters:
            return None
        except UnexpectedEOF:
            code = 1
        except UnexpectedToken:
            code = 2 + calls[0] - 1
    finally:
        earley_forest.SymbolNode.add_family = orig_add
        earley.Parser.predict_and_complete = orig_pc
    return code, log


def coq_icase(parser, text, code, log):
    """Coq term of one icase; None when the basic lexer cannot tokenise the whole text (the model has no lexer)"""
    from lark.exceptions import UnexpectedInput
    try:
        lexed = basic_tokens(parser, text)
    except UnexpectedInput:
        return None
    nts, tms = {}, {}

    def nt(name):
        return nts.setdefault(str(name), len(nts))

    def tm(name):
        return tms.setdefault(str(name), len(tms))

    def sym(s):
        return '(T %d)' % tm(s.name) if s.is_term else '(NT %d)' % nt(s.name)
    nt('start')
    rule_term = {}
    rules = []
    for r in parser.rules:
        rule_term[r] = '(mkRule %d %s)' % (nt(r.origin.name), L([sym(x) for x in r.expansion]))
        rules.append('(%d, %s)' % (nt(r.origin.name), L([sym(x) for x in r.expansion])))

    def label(lb):
        if lb[0] == 'I':
            return '(NInter nat %s %d %d %d)' % (rule_term[lb[1]], lb[2], lb[3], lb[4])
        if lb[0] == 'S':
            return '(NSym nat %d %d %d)' % (nt(lb[1]), lb[2], lb[3])
        return '(NTok nat %d %d %d %d)' % (tm(lb[1]), tm(lb[2]), lb[3], lb[4])

    def opt(lb):
        return 'None' if lb is None else '(Some %s)' % label(lb)
    seen = set()
    fams = []
    for lb, r, l, rt in log:
        k = (lb, r, l, rt)
        if k in seen:
            continue
        seen.add(k)
        fams.append('(%s, (%s, %s, %s))' % (label(lb), rule_term[r], opt(l), opt(rt)))
    toks = [tm(t[0]) for t in lexed]
    return '(%s, %d, %s, %d, %s)' % (L(rules), nt('start'), TL(['%d' % t for t in toks], 'nat'), code,
                                     TL(fams, 'fam nat'))


# ----------------------------------------------------------------------------------------------
# round 8: the add_family log of the dynamic lexers against Forest/ExplicitDynBuild (oracle tables for the regex engine)
# ----------------------------------------------------------------------------------------------
IMPORTS_D = ('From LV Require Import Cfg.Grammar Earley.Spec Earley.Alg Earley.AlgCheck Earley.Dyn Earley.DynCheck '
             'Forest.ExplicitBuild Forest.ExplicitAlgBuild Forest.ExplicitDynBuild Forest.ExplicitDynCheck.')


def TL(items, ty):
    """a Coq list literal whose type is known also when it is empty (a chunk of cases that all have an empty list in
    one position would otherwise leave the element type undetermined: a Coq elaboration error, not a disagreement)"""
    return L(items) if items else '(@nil (%s))' % ty


def parse_logged_dyn(parser, text):
    """as parse_logged for lexer dynamic / dynamic_complete: token nodes are labelled by (terminal, start_pos, end_pos);
    outcome 0 accept, 1 UnexpectedEOF, 2+i UnexpectedCharacters raised by scan(i)"""
    from lark.parsers import earley_forest, earley
    from lark.exceptions import UnexpectedCharacters, UnexpectedEOF
    log = []
    calls = [0]
    orig_add = earley_forest.SymbolNode.add_family
    orig_pc = earley.Parser.predict_and_complete

    def label(n):
        if n.is_intermediate:
            return ('I', n.s[0], n.s[1], n.start, n.end)
        return ('S', str(n.s.name), n.start, n.end)

    def add_family(self, lr0, rule, start, left, right):
        lf = label(left) if left is not None else None
        if right is None:
            rt = None
        elif isinstance(right, earley_forest.TokenNode):
            tk = right.token
            rt = ('T', str(tk.type), str(tk.type), tk.start_pos, tk.end_pos)
        else:
            rt = label(right)
        log.append((label(self), rule, lf, rt))
        return orig_add(self, lr0, rule, start, left, right)

    def pc(self, i, *a, **kw):
        calls[0] += 1
        return orig_pc(self, i, *a, **kw)
    earley_forest.SymbolNode.add_family = add_family
    earley.Parser.predict_and_complete = pc
    try:
        try:
            with_timeout(lambda: parser.parse(text))
            code = 0
        except UnexpectedEOF:
            code = 1
        except UnexpectedCharacters:
            code = 2 + calls[0] - 1
    finally:
        earley_forest.SymbolNode.add_family = orig_add
        earley.Parser.predict_and_complete = orig_pc
    return code, log


def coq_idcase(parser, lexer, text, code, log):
    """Coq term of one idcase.  The regex engine's answers are computed here by direct calls of the parser's own
    term_matcher: match(t, text, i) for every terminal and position, and match(t, s[:-j]) for every proper truncation of
    that match (what complete_lex may ask)."""
    from lark.grammar import Terminal
    if len(text) >= 60:
        return None
    nts, tms = {}, {}

    def nt(name):
        return nts.setdefault(str(name), len(nts))

    def tm(name):
        return tms.setdefault(str(name), len(tms))

    def sym(s):
        return '(T %d)' % tm(s.name) if s.is_term else '(NT %d)' % nt(s.name)
    nt('start')
    rule_term, rules = {}, []
    for r in parser.rules:
        body = L([sym(x) for x in r.expansion])
        rule_term[r] = '(mkRule %d %s)' % (nt(r.origin.name), body)
        rules.append('(%d, %s)' % (nt(r.origin.name), body))
    ign = [tm(name) for name in parser.ignore_tokens]
    matcher = parser.parser.parser.term_matcher
    mt, tt = [], []
    for name, t in list(tms.items()):
        term = Terminal(name)
        for i in range(len(text)):
            m = matcher(term, text, i)
            if m is None:
                continue
            mt.append((t * 64 + i) * 64 + m.end())
            sm = m.group(0)
            for j in range(1, len(sm)):
                m2 = matcher(term, sm[:-j])
                if m2 is not None:
                    tt.append(((t * 64 + i) * 64 + (i + len(sm) - j)) * 64 + i + m2.end())

    def label(lb):
        if lb[0] == 'I':
            return '(NInter nat %s %d %d %d)' % (rule_term[lb[1]], lb[2], lb[3], lb[4])
        if lb[0] == 'S':
            return '(NSym nat %d %d %d)' % (nt(lb[1]), lb[2], lb[3])
        return '(NTok nat %d %d %d %d)' % (tm(lb[1]), tm(lb[2]), lb[3], lb[4])

    def opt(lb):
        return 'None' if lb is None else '(Some %s)' % label(lb)
    seen, fams = set(), []
    for lb, r, l, rt in log:
        k = (lb, r, l, rt)
        if k in seen:
            continue
        seen.add(k)
        fams.append('(%s, (%s, %s, %s))' % (label(lb), rule_term[r], opt(l), opt(rt)))
    nl = lambda xs: ('(' + L(['%d' % x for x in sorted(xs)]) + ')%N') if xs else '(@nil N)'
    # the position graph of the text, by re.fullmatch on slices (no reference to what the parser or its matcher did)
    import re
    pats = {td.name: re.compile(td.pattern.to_regexp()) for td in parser.terminals}
    n = len(text)
    te = ['(%d, %d, %d)' % (t, i, j) for name, t in tms.items() if name in pats
          for i in range(n) for j in range(i + 1, n + 1) if pats[name].fullmatch(text, i, j)]
    ig = sorted({(i, j) for name in parser.ignore_tokens for i in range(n) for j in range(i + 1, n + 1)
                 if pats[name].fullmatch(text, i, j)})
    return '(%s, %d, %s, %d, %s, %s, %s, %d, %s, %s, %s)' % (
        L(rules), nt('start'), TL(['%d' % x for x in ign], 'nat'), len(text), B(lexer == 'dynamic_complete'),
        nl(mt), nl(tt), code, TL(fams, 'dfam'), TL(te, '(nat * nat * nat)'), TL(['(%d, %d)' % p for p in ig], '(nat * nat)'))
