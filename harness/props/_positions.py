"""Shared machinery of C06 / C15: grammar + input generators, run-time tracer of lark's position bookkeeping,
the properties' own oracles (direct definition of coordinates; representation differential) and the
emitters of Coq correspondence cases (Pos/PosCheck.v)."""
import contextlib

from lib import coq_term_str as S, coq_list as L, coq_Z as Z, coq_nat as N

IMPORTS = 'From LV Require Import Pos.PosBase Pos.LexCoords Pos.MetaSpan Pos.PosCheck Pos.RawMeta Pos.PosCheck2.'

CONFIGS = [('lalr', 'basic'), ('lalr', 'contextual'), ('earley', 'basic'), ('earley', 'dynamic'),
           ('earley', 'dynamic_complete')]
DYNAMIC = ('dynamic', 'dynamic_complete')


# ============================================================================================ oracle
def as_text(x):
    return x.decode('latin-1') if isinstance(x, bytes) else x


def coord(buf, p):
    """(line, column) of offset p in buf, by the direct definition (buf: str or bytes)."""
    nl = b'\n' if isinstance(buf, bytes) else '\n'
    return 1 + buf.count(nl, 0, p), p - (buf.rfind(nl, 0, p) + 1) + 1


def end_coord(buf, e, dynamic):
    if not dynamic:
        return coord(buf, e)
    ln, col = coord(buf, e - 1)
    return ln, col + 1


def tok_fields(t):
    return (str(t.type), as_text(t.value), t.start_pos, t.line, t.column, t.end_line, t.end_column, t.end_pos)


def token_claim(buf, t, dynamic, lo=0, hi=None):
    """None if token t satisfies the C06 token claim in buffer buf (window [lo, hi)), else a description."""
    ty, val, s, ln, col, eln, ecol, e = tok_fields(t)
    if None in (s, ln, col, eln, ecol, e):
        return 'token %s %r lacks a position field: %r' % (ty, val, (s, ln, col, eln, ecol, e))
    hi = len(buf) if hi is None else hi
    if not (lo <= s <= e <= hi):
        return 'token %s %r [%d,%d) lies outside the input window [%d,%d)' % (ty, val, s, e, lo, hi)
    if type(t.value) is not type(buf) or t.value != buf[s:e]:
        return ('token %s: value %r (python type %s) is not the %s text[%d:%d] = %r'
                % (ty, t.value, type(t.value).__name__, type(buf).__name__, s, e, buf[s:e]))
    if as_text(buf[s:e]) != val:
        return 'token %s: text[%d:%d] = %r differs from the value %r' % (ty, s, e, as_text(buf[s:e]), val)
    if (ln, col) != coord(buf, s):
        return 'token %s %r at offset %d: line/column %r, exact coordinates %r' % (ty, val, s, (ln, col), coord(buf, s))
    if e > s and (eln, ecol) != end_coord(buf, e, dynamic):
        return 'token %s %r ending at offset %d: end_line/end_column %r, expected %r' % (
            ty, val, e, (eln, ecol), end_coord(buf, e, dynamic))
    return None


# ============================================================================================ tracer
class Run:
    """one lexer_state's life: matches returned by the regex engine, tokens returned by next_token"""
    def __init__(self, lex_state, lexer):
        self.slice = lex_state.text
        self.ctr = lex_state.line_ctr
        self.ignore = sorted(lexer.ignore_types)
        self.nlt = set(lexer.newline_types)
        self.matches = []       # (pos, length, type_)
        self.tokens = []        # (pretype, fields)
        self.events = []        # recover mode: ('tok', pretype, fields) | ('err', pos, line, column), in order
        self.tok_objs = []
        self.code = 2
        self.err = (0, 0, 0)
        self.closed = False


class Tracer:
    def __init__(self):
        self.counters = {}      # id(counter) -> dict(text,start,snap,init,ops)
        self.runs = {}          # id(lex_state) -> Run
        self.keep = []
        self.cur = []
        self.in_fts = 0
        self.pp_calls = []      # PropagatePositions calls, in order
        self.node_of = {}       # id(result object) -> index of the latest call that returned it
        self.own = {}           # id(tree) -> index of the call that created it
        self.firstpos = {}      # id(tree) -> index of the first call returning it whose rule matched a token
        self.cont = {}          # id(obj) -> (first_token, last_token) true span of the rule(s) that returned obj
        self.recover = False    # on_error route: a lexer error does not end a run
        self.copies = {}        # id(copied counter) -> dict(buf, orig, copied, ops): LexerState.__copy__
        self.pp_raw = []        # attribute-wise record of every PropagatePositions call

    @staticmethod
    def state(c):
        return (c.char_pos, c.line, c.column, c.line_start_pos)

    @contextlib.contextmanager
    def active(self):
        import lark.lexer as LX
        import lark.parse_tree_builder as PTB
        from lark.exceptions import UnexpectedCharacters
        from lark import Tree, Token
        tr = self
        LC, BL, PP, LS = LX.LineCounter, LX.BasicLexer, PTB.PropagatePositions, LX.LexerState
        o_feed, o_adv, o_fts = LC.feed, LC.advance_to, LC.__dict__['from_text_slice']
        o_lscopy = LS.__copy__
        o_tdc = Tree.__deepcopy__

        def tree_deepcopy(self, memo):
            # forks deep-copy the value stack: the copy stands for the same rule applications
            new = o_tdc(self, memo)
            tr.keep.append(new)
            for reg in (tr.node_of, tr.own, tr.firstpos, tr.cont):
                if id(self) in reg:
                    reg[id(new)] = reg[id(self)]
            return new

        def ls_copy(self):
            before = tr.state(self.line_ctr) if self.line_ctr is not None else None
            new = o_lscopy(self)
            if before is not None and new.line_ctr is not None and isinstance(self.text, LX.TextSlice):
                tr.keep.append(new)
                tr.copies[id(new.line_ctr)] = dict(buf=self.text.text, orig=before, copied=tr.state(new.line_ctr), ops=[],
                                                   end=self.text.end)
            return new
        o_match, o_next, o_pp = BL.match, BL.next_token, PP.__call__

        def feed(self, token, test_newline=True):
            o_feed(self, token, test_newline)
            rec = tr.counters.get(id(self)) or tr.copies.get(id(self))
            if rec is not None and not tr.in_fts:
                rec['ops'].append(('feed', as_text(token), bool(test_newline), tr.state(self)))

        def advance_to(self, text, pos):
            o_adv(self, text, pos)
            rec = tr.counters.get(id(self)) or tr.copies.get(id(self))
            if rec is not None and not tr.in_fts:
                if text is not rec['buf']:
                    rec['foreign'] = True
                rec['ops'].append(('adv', pos, tr.state(self)))

        def from_text_slice(cls, text_slice):
            tr.in_fts += 1
            try:
                c = o_fts.__func__(cls, text_slice)
            finally:
                tr.in_fts -= 1
            snap = None
            if isinstance(text_slice, LX._TextSlice_WithLineCount):
                snap = (text_slice.line, text_slice.line_start_pos)
            tr.keep.append(c)
            tr.counters[id(c)] = dict(buf=text_slice.text, start=text_slice.start, snap=snap, init=tr.state(c), ops=[])
            return c

        def match(self, text, pos):
            res = o_match(self, text, pos)
            if tr.cur and not tr.cur[-1].closed:
                run = tr.cur[-1]
                if res:
                    run.matches.append((pos, len(res[0]), str(res[1])))
                elif not tr.recover:
                    run.closed = True
            return res

        def next_token(self, lex_state, parser_state=None):
            run = tr.runs.get(id(lex_state))
            if run is None:
                run = tr.runs[id(lex_state)] = Run(lex_state, self)
                tr.keep.append(lex_state)
            was_closed = run.closed
            tr.cur.append(run)
            try:
                t = o_next(self, lex_state, parser_state)
            except EOFError:
                if not was_closed:
                    run.code = 0
                    run.closed = True
                raise
            except UnexpectedCharacters as e:
                if tr.recover:
                    ev = ('err', e.pos_in_stream, e.line, e.column)
                    # the contextual lexer retries with its root lexer at the same position: one error, not two
                    if not (run.events and run.events[-1] == ev):
                        run.events.append(ev)
                elif not was_closed:
                    run.code = 1
                    run.err = (e.pos_in_stream, e.line, e.column)
                    run.closed = True
                raise
            finally:
                tr.cur.pop()
            if not was_closed:
                pre = run.matches[-1][2] if run.matches else str(t.type)
                run.tokens.append((pre, tok_fields(t)))
                run.events.append(('tok', pre, tok_fields(t)))
                run.tok_objs.append(t)
            return t

        def span_of(c):
            if id(c) in tr.cont:
                return tr.cont[id(c)]
            if isinstance(c, Token):
                return (c, c)
            return None

        def pp_call(self, children):
            kids = list(children)
            flt = self.node_filter
            keep = [True if flt is None else bool(flt(c)) for c in kids]
            spans = [span_of(c) for c, k in zip(kids, keep) if c is not None and k]
            spans = [s for s in spans if s is not None]
            true = (spans[0][0], spans[-1][1]) if spans else None
            # attribute-wise record: children as _pp_get_meta classifies them (before the call: the result may be
            # one of them), the result's meta before (spied on node_builder) and after
            raw_kids = []
            for c in kids:
                if isinstance(c, Tree):
                    raw_kids.append(('tree', raw_meta(c.meta)))
                elif isinstance(c, Token):
                    raw_kids.append(('tok', raw_token(c)))
                elif hasattr(c, '__lark_meta__'):
                    m = c.__lark_meta__()
                    raw_kids.append(('custom', None if m is None else raw_meta(m)))
                else:
                    raw_kids.append(('other', None))
            nb = self.node_builder
            spy = {}

            def spying(ch):
                r = nb(ch)
                if isinstance(r, Tree):
                    spy['before'] = raw_meta(r.meta)
                return r
            self.node_builder = spying
            try:
                try:
                    res = o_pp(self, children)
                except AttributeError:
                    if 'before' in spy:
                        tr.pp_raw.append(dict(kids=raw_kids, keep=keep, before=spy['before'], after=None))
                    raise
            finally:
                self.node_builder = nb
            if 'before' in spy and isinstance(res, Tree):
                tr.pp_raw.append(dict(kids=raw_kids, keep=keep, before=spy['before'], after=raw_meta(res.meta)))
            idx = len(tr.pp_calls)
            sel = None
            for k, c in enumerate(kids):
                if c is res:
                    sel = k
            kid_refs = []
            for c in kids:
                if id(c) in tr.node_of:
                    kid_refs.append(('node', tr.node_of[id(c)]))
                elif isinstance(c, Token):
                    kid_refs.append(('tok', tok_fields(c)))
                elif isinstance(c, Tree):
                    kid_refs.append(('tree', meta_fields(c.meta)))
                else:
                    kid_refs.append(('other', None))
            obs = ('tree', meta_fields(res.meta)) if isinstance(res, Tree) else \
                  ('tok', tok_fields(res)) if isinstance(res, Token) else ('other', None)
            custom = any(k[0] == 'custom' for k in raw_kids)
            tr.pp_calls.append(dict(sel=sel, kids=kid_refs, obs=obs, true=true, filtered=flt is not None, keep=keep,
                                    custom=custom))
            tr.keep.append(res)
            tr.keep.append(kids)
            if res is not None and not isinstance(res, (Tree, Token)) and true is not None:
                tr.cont[id(res)] = true
            if isinstance(res, (Tree, Token)):
                tr.node_of[id(res)] = idx
                if true is not None:
                    tr.cont[id(res)] = true
                if isinstance(res, Tree) and id(res) not in tr.own:
                    tr.own[id(res)] = idx
                if isinstance(res, Tree) and true is not None and id(res) not in tr.firstpos:
                    tr.firstpos[id(res)] = idx
            return res

        LC.feed, LC.advance_to, LC.from_text_slice = feed, advance_to, classmethod(from_text_slice)
        BL.match, BL.next_token, PP.__call__ = match, next_token, pp_call
        LS.__copy__ = ls_copy
        Tree.__deepcopy__ = tree_deepcopy
        try:
            yield self
        finally:
            LC.feed, LC.advance_to, LC.from_text_slice = o_feed, o_adv, o_fts
            BL.match, BL.next_token, PP.__call__ = o_match, o_next, o_pp
            LS.__copy__ = o_lscopy
            Tree.__deepcopy__ = o_tdc


META_ATTRS = ('start_pos', 'line', 'column', 'end_pos', 'end_line', 'end_column',
              'container_start_pos', 'container_line', 'container_column',
              'container_end_pos', 'container_end_line', 'container_end_column')


RAW_FIELDS = ('line', 'column', 'start_pos', 'end_line', 'end_column', 'end_pos')
RAW_ALL = RAW_FIELDS + tuple('container_' + f for f in RAW_FIELDS)


def raw_meta(m):
    """(empty, the twelve position attributes in the order of coq/Pos/RawMeta.field; None = attribute absent)"""
    return (bool(getattr(m, 'empty', False)),) + tuple(getattr(m, f, None) for f in RAW_ALL)


def raw_token(t):
    """a Token read as a position source: own attributes, no container_* ones"""
    return (False,) + tuple(getattr(t, f, None) for f in RAW_FIELDS) + (None,) * 6


def meta_fields(m):
    """(empty, own start triple|None, own end triple|None, container start|None, container end|None)"""
    def trip(a, b, c):
        if hasattr(m, a):
            return (getattr(m, a), getattr(m, b), getattr(m, c))
        return None
    return (bool(m.empty), trip('start_pos', 'line', 'column'), trip('end_pos', 'end_line', 'end_column'),
            trip('container_start_pos', 'container_line', 'container_column'),
            trip('container_end_pos', 'container_end_line', 'container_end_column'))


# ============================================================================================ running lark
_LARKS = {}


# ---- callable propagate_positions filters (named, so that witnesses stay replayable) ------------------------
def _flt_no_punct(c):
    """ignore anonymous punctuation tokens when propagating"""
    from lark import Token
    return not (isinstance(c, Token) and c.type in ('LPAR', 'RPAR', 'LSQB', 'RSQB', 'LBRACE', 'RBRACE', 'SEMICOLON',
                                                     'COMMA', 'EQUAL', 'LESSTHAN', 'MORETHAN', 'PLUS', 'AT', 'BANG'))


def _flt_trees_only(c):
    from lark import Tree
    return isinstance(c, Tree)


def _flt_tokens_only(c):
    from lark import Token
    return isinstance(c, Token)


def _flt_no_names(c):
    from lark import Token
    return not (isinstance(c, Token) and c.type == 'NAME')


def _flt_none(c):
    return False


PP_FILTERS = {'no_punct': _flt_no_punct, 'trees_only': _flt_trees_only, 'tokens_only': _flt_tokens_only,
              'no_names': _flt_no_names, 'nothing': _flt_none, 'everything': lambda c: True}


class Boxed:
    """a transformer result that is neither Tree nor Token but offers positions through __lark_meta__"""
    def __init__(self, what, meta):
        self.what, self._m = what, meta

    def __lark_meta__(self):
        return self._m


class BoxedNoMeta(Boxed):
    """__lark_meta__ answers None: _pp_get_meta stops its search there"""
    def __lark_meta__(self):
        return None


def _mk_boxing():
    from lark import Transformer, Tree

    class Boxing(Transformer):
        """embedded transformer for CUSTOM_GRAMMAR: `num` leaves become Boxed objects whose __lark_meta__ is the NUM
        token, `paren` becomes a Boxed carrying what its content offers, `nil` a BoxedNoMeta (__lark_meta__ -> None)"""
        def num(self, ch):
            return Boxed(('num', str(ch[0])), ch[0])

        def nil(self, ch):
            return BoxedNoMeta('nil', None)

        def paren(self, ch):
            inner = ch[0]
            return Boxed(('paren', inner), inner.meta if isinstance(inner, Tree) else inner.__lark_meta__())
    return Boxing


CUSTOM_GRAMMAR = ('start: item+\nitem: "<" atom ">" | atom atom | atom\n?atom: NUM -> num | "(" item ")" -> paren | "[" "]" -> nil\n'
                  'NUM: /[0-9]+/\n%ignore /[ \\n]+/\n')
CUSTOM_TEXTS = ['1', '<1>', '(1)', '[]', '1 []', '[] 1', '<[]>', '<(1)>\n[] 2', '( <1> )\n3', '[] []', '<\n(\n12\n)\n> 7 []',
                '(1 [])', '([] 1)\n<2>']

TRANSFORMERS = {'boxing': lambda: _mk_boxing()()}


def get_lark(grammar, parser, lexer, use_bytes, extra=()):
    from lark import Lark
    key = (grammar, parser, lexer, use_bytes, tuple(extra))
    if key not in _LARKS:
        if len(_LARKS) > 400:
            _LARKS.clear()
        kw = dict(propagate_positions=True)
        for k, v in extra:
            if k == 'pp_filter':
                kw['propagate_positions'] = PP_FILTERS[v]
            elif k == 'transformer':
                kw['transformer'] = TRANSFORMERS[v]()
            else:
                kw[k] = v
        try:
            _LARKS[key] = Lark(grammar, parser=parser, lexer=lexer, use_bytes=use_bytes, **kw)
        except Exception as e:     # grammar not supported by this configuration (e.g. LALR conflict, collision)
            _LARKS[key] = e
    return _LARKS[key]


def make_input(text, rep, window):
    """text: str (ASCII). rep: 'str'|'bytes'. window: None | (prefix, suffix) -> (input object, buffer, a)"""
    from lark.utils import TextSlice
    if window is None:
        buf = text
        a = 0
    else:
        buf = window[0] + text + window[1]
        a = len(window[0])
    if rep == 'bytes':
        buf = buf.encode('latin-1')
    if window is None:
        return buf, buf, 0
    return TextSlice(buf, a, a + len(text)), buf, a


def error_sig(e):
    from lark.exceptions import UnexpectedCharacters, UnexpectedToken, UnexpectedEOF, UnexpectedInput
    if isinstance(e, UnexpectedCharacters):
        return ('UnexpectedCharacters', e.pos_in_stream, e.line, e.column, tuple(sorted(e.allowed or ())))
    if isinstance(e, UnexpectedToken):
        t = e.token
        return ('UnexpectedToken', t.start_pos, t.line, t.column, str(t.type), as_text(t.value) if t.type != '$END' else '',
                tuple(sorted(e.accepts or e.expected or ())))
    if isinstance(e, UnexpectedEOF):
        return ('UnexpectedEOF', tuple(sorted(str(x) for x in (e.expected or ()))))
    if isinstance(e, UnexpectedInput):
        return (type(e).__name__, getattr(e, 'pos_in_stream', None), e.line, e.column)
    return (type(e).__name__,)


def value_kind(t, buf):
    """'text' when the token's value has exactly the Python type of the input buffer (str stays str, bytes stays
    bytes), else the offending type name"""
    return 'text' if type(t.value) is type(buf) else 'py:' + type(t.value).__name__


def tree_sig(t, buf=''):
    """canonical nested form of a result: trees with meta, tokens with all fields and the kind of their value;
    lists/tuples (fork pairs, scan matches (start, end, tree)) element-wise"""
    from lark import Tree, Token
    if isinstance(t, Tree):
        return ('T', str(t.data), meta_fields(t.meta)[:3], tuple(tree_sig(c, buf) for c in t.children))
    if isinstance(t, Token):
        return ('K',) + tok_fields(t) + (value_kind(t, buf),)
    if isinstance(t, ScanHit):
        return ('R', t.start, t.end, tree_sig(t.value, buf))
    if isinstance(t, (list, tuple)):
        return ('L', tuple(tree_sig(c, buf) for c in t))
    return ('O', repr(t))


class ScanHit:
    def __init__(self, start, end, value):
        self.start, self.end, self.value = start, end, value


ROUTES_LALR = ('interactive', 'fork', 'immutable', 'scan')
ROUTES_ANY = ('deepcopy', 'tree_copy', 'pickle')


def run_route(lk, inp, api):
    """the public ways of obtaining a result other than parse()/lex()"""
    import copy
    import pickle
    from lark import Token
    if api == 'interactive':
        ip = lk.parse_interactive(inp)
        last = None
        for t in ip.lexer_thread.lex(ip.parser_state):
            ip.feed_token(t)
            last = t
        return ip.feed_eof(last)
    if api == 'fork':
        # feed two tokens, fork, finish both the fork and the original
        ip = lk.parse_interactive(inp)
        stream = ip.lexer_thread.lex(ip.parser_state)
        for _ in range(2):
            t = next(stream, None)
            if t is None:
                break
            ip.feed_token(t)
        fork = ip.copy()
        shallow = copy.copy(ip)
        r_fork = fork.resume_parse()
        r_shallow = shallow.resume_parse()
        r_orig = ip.resume_parse()
        return [r_fork, r_shallow, r_orig]
    if api == 'immutable':
        toks = list(lk.parse_interactive(inp).iter_parse())
        imm = lk.parse_interactive(inp).as_immutable()
        for t in toks:
            imm = imm.feed_token(t)
        end = Token.new_borrow_pos('$END', '', toks[-1]) if toks else Token('$END', '', 0, 1, 1)
        return imm.feed_token(end).result
    if api == 'scan':
        return [ScanHit(m.range[0], m.range[1], m.value) for m in lk.scan(inp)]
    if api.startswith('forkat:'):
        # feed k tokens, fork (copy() / copy.copy / as_immutable), let the FORK lex and parse the rest, then the original
        _, k, mode = api.split(':')
        ip = lk.parse_interactive(inp)
        stream = ip.lexer_thread.lex(ip.parser_state)
        last = None
        for _ in range(int(k)):
            t = next(stream, None)
            if t is None:
                break
            ip.feed_token(t)
            last = t
        if mode == 'copy':
            fork = ip.copy()
        elif mode == 'shallow':
            fork = copy.copy(ip)
        else:
            fork = ip.as_immutable()
        if mode == 'immutable':
            done = fork.exhaust_lexer()
            toks = []       # the immutable route does not hand the tokens out: borrow from the fork's lexer state
            lt = done.lexer_thread.state.last_token
            r_fork = done.feed_eof(lt if lt is not None else last).result
        else:
            toks = fork.exhaust_lexer()
            r_fork = fork.feed_eof(toks[-1] if toks else last)
        toks = ip.exhaust_lexer()
        r_orig = ip.feed_eof(toks[-1] if toks else last)
        return [r_fork, r_orig]
    if api == 'on_error':
        from lark.exceptions import UnexpectedCharacters
        return lk.parse(inp, on_error=lambda e: isinstance(e, UnexpectedCharacters))
    res = lk.parse(inp)
    if api == 'deepcopy':
        return copy.deepcopy(res)
    if api == 'tree_copy':
        return res.copy()
    if api == 'pickle':
        return pickle.loads(pickle.dumps(res))
    raise ValueError(api)


def run_case(grammar, parser, lexer, text, rep='str', window=None, api='parse', extra=()):
    """Runs lark once under the tracer. Returns dict(kind='unsupported'|'ok'|'error', ...)."""
    from lark import Tree, Token
    lk = get_lark(grammar, parser, lexer, rep == 'bytes', extra)
    if isinstance(lk, Exception):
        return dict(kind='unsupported', why=type(lk).__name__)
    inp, buf, a = make_input(text, rep, window)
    tr = Tracer()
    tr.recover = api == 'on_error'
    out = dict(buf=buf, a=a, b=a + len(text), tracer=tr, dynamic=lexer in DYNAMIC)
    with tr.active():
        try:
            if api == 'parse':
                res = lk.parse(inp)
                out.update(kind='ok', result=res)
            elif api == 'lex':
                res = list(lk.lex(inp))
                out.update(kind='ok', result=res)
            elif api == 'lex_all':
                res = list(lk.lex(inp, dont_ignore=True))
                out.update(kind='ok', result=res)
            elif api == 'scan_raw':
                res = [(m.range[0], m.range[1], m.value) for m in lk.scan(inp)]
                out.update(kind='ok', result=res)
            else:
                out.update(kind='ok', result=run_route(lk, inp, api))
        except Exception as e:   # noqa
            out.update(kind='error', error=e, sig=error_sig(e))
    return out


def result_tokens(out):
    """all Token objects reachable from the result + those the lexer returned (identity-deduplicated)"""
    from lark import Tree, Token
    seen, toks = set(), []

    def add(t):
        if id(t) not in seen and isinstance(t, Token) and t.type != '$END':
            seen.add(id(t))
            toks.append(t)

    def walk(x):
        if isinstance(x, Tree):
            for c in x.children:
                walk(c)
        elif isinstance(x, Token):
            add(x)
        elif isinstance(x, ScanHit):
            walk(x.value)
        elif isinstance(x, (list, tuple)):
            for c in x:
                walk(c)
    if out['kind'] == 'ok':
        walk(out['result'])
    for run in out['tracer'].runs.values():
        for t in run.tok_objs:
            add(t)
    return toks


# ============================================================================================ meta oracle
def meta_violations(out):
    """C06 tree half, evaluated on the implementation: every tree created by a rule carries the span from
    the first to the last token the rule matched (filtered ones included); None-span rules are empty."""
    tr = out['tracer']
    bad = []
    seen = set()
    from lark import Tree
    roots = []
    if out['kind'] == 'ok':
        roots = [r for r in (out['result'] if isinstance(out['result'], list) else [out['result']]) if isinstance(r, Tree)]
    if any(c['custom'] for c in tr.pp_calls):
        return bad          # __lark_meta__ children: what they offer is the user's business (model-vs-code only)
    for node in [n for r in roots for n in r.iter_subtrees()]:
        if id(node) in seen or id(node) not in tr.own:
            continue
        seen.add(id(node))
        # the rule application that created the node; a tree created empty (its rule matched no token) and then
        # handed through by inlined ?rules takes the span of the first enclosing rule that matched a token
        call = tr.pp_calls[tr.firstpos.get(id(node), tr.own[id(node)])]
        true = call['true']
        m = meta_fields(node.meta)
        if true is None:
            if not m[0]:
                bad.append('node %s matched no token but its meta is not empty: %r' % (node.data, m))
            continue
        f, l = true
        exp = ((f.start_pos, f.line, f.column), (l.end_pos, l.end_line, l.end_column))
        if m[0] or (m[1], m[2]) != exp:
            bad.append('node %s: meta start/end %r, rule matched tokens spanning %r' % (node.data, (m[1], m[2]), exp))
    return bad


def spans_nested(t, bad):
    """children's spans ordered, disjoint, inside the parent's"""
    from lark import Tree, Token
    if not isinstance(t, Tree):
        return
    last = None
    for c in t.children:
        if isinstance(c, Tree):
            spans_nested(c, bad)
            if c.meta.empty:
                continue
            s, e = c.meta.start_pos, c.meta.end_pos
        elif isinstance(c, Token):
            s, e = c.start_pos, c.end_pos
        else:
            continue
        if not t.meta.empty and not (t.meta.start_pos <= s <= e <= t.meta.end_pos):
            bad.append('child span [%d,%d) not inside parent %s [%d,%d)' % (s, e, t.data, t.meta.start_pos, t.meta.end_pos))
        if last is not None and s < last:
            bad.append('children of %s overlap or are out of order at offset %d' % (t.data, s))
        last = e


# ============================================================================================ Coq emitters
def T(s):
    """text -> flat Coq string literal decoded by PosCheck.unesc: non-printables and the backslash as \\DDD"""
    out = []
    for ch in s:
        o = ord(ch)
        if o > 255:
            raise ValueError('non-latin1 character in model text')
        if ch == '\\' or not (32 <= o < 127):
            out.append('\\%03d' % o)
        elif ch == '"':
            out.append('""')
        else:
            out.append(ch)
    return '"' + ''.join(out) + '"'


def coq_obs(st):
    return '(Obs %s %s %s %s)' % tuple(Z(x) for x in st)


def coq_snap(snap):
    return 'NoSnap' if snap is None else '(Snap %s %s)' % (Z(snap[0]), Z(snap[1]))


def coq_trace(rec):
    ops = []
    for o in rec['ops']:
        if o[0] == 'feed':
            ops.append('OpFeed %s %s %s' % (T(o[1]), 'true' if o[2] else 'false', coq_obs(o[3])))
        else:
            ops.append('OpAdvance %s %s' % (Z(o[1]), coq_obs(o[2])))
    return 'TraceCase %s %s %s %s %s' % (T(as_text(rec['buf'])), Z(rec['start']), coq_snap(rec['snap']),
                                        coq_obs(rec['init']), L(ops))


def coq_tokobs(f):
    return 'TokObs %s %s %s %s %s %s %s %s' % (S(f[0]), T(f[1]), Z(f[2]), Z(f[3]), Z(f[4]), Z(f[5]), Z(f[6]), Z(f[7]))


def coq_lex_case(run, tr):
    rec = tr.counters.get(id(run.ctr))
    if rec is None or rec['ops'] is None:
        return None
    sl = run.slice
    table = L(['Entry %s %s %s' % (Z(p), N(n), S(ty)) for p, n, ty in run.matches])
    toks = L([coq_tokobs((pre,) + f[1:]) for pre, f in run.tokens])
    return 'LexCase %s %s %s %s %s %s %s %s %s %s %s %s' % (
        T(as_text(sl.text)), Z(rec['start']), Z(sl.end), coq_snap(rec['snap']), L([S(x) for x in run.ignore]),
        L([S(x) for x in sorted(run.nlt)]), table, toks, Z(run.code), Z(run.err[0] or 0), Z(run.err[1] or 0), Z(run.err[2] or 0))


def coq_copy_case(rec):
    ops = []
    for o in rec['ops']:
        if o[0] == 'feed':
            ops.append('OpFeed %s %s %s' % (T(o[1]), 'true' if o[2] else 'false', coq_obs(o[3])))
        else:
            ops.append('OpAdvance %s %s' % (Z(o[1]), coq_obs(o[2])))
    return 'CopyCase %s %s %s %s' % (T(as_text(rec['buf'])), coq_obs(rec['orig']), coq_obs(rec['copied']), L(ops))


def coq_fork_case(run, rec):
    """the token stream a forked lexer state produced, from the state of the ORIGINAL counter at the copy"""
    sl = run.slice
    table = L(['Entry %s %s %s' % (Z(p), N(n), S(ty)) for p, n, ty in run.matches])
    toks = L([coq_tokobs((pre,) + f[1:]) for pre, f in run.tokens])
    return 'ForkCase %s %s %s %s %s %s %s %s %s %s %s' % (
        T(as_text(sl.text)), Z(sl.end), coq_obs(rec['orig']), L([S(x) for x in run.ignore]),
        L([S(x) for x in sorted(run.nlt)]), table, toks, Z(run.code), Z(run.err[0] or 0), Z(run.err[1] or 0), Z(run.err[2] or 0))


def coq_rec_case(run, tr):
    """on_error route: tokens and accepted UnexpectedCharacters errors of one lexer state, in order"""
    rec = tr.counters.get(id(run.ctr))
    if rec is None:
        return None
    sl = run.slice
    table = L(['Entry %s %s %s' % (Z(p), N(n), S(ty)) for p, n, ty in run.matches])
    evs = []
    for ev in run.events:
        if ev[0] == 'tok':
            evs.append('ObsTok (%s)' % coq_tokobs((ev[1],) + ev[2][1:]))
        else:
            evs.append('ObsErr %s %s %s' % (Z(ev[1]), Z(ev[2]), Z(ev[3])))
    return 'RecCase %s %s %s %s %s %s %s %s %s' % (
        T(as_text(sl.text)), Z(rec['start']), Z(sl.end), coq_snap(rec['snap']), L([S(x) for x in run.ignore]),
        L([S(x) for x in sorted(run.nlt)]), table, L(evs), 'true' if run.code == 0 else 'false')


def coq_oz(v):
    return 'NoZ' if v is None else '(Some %s)' % Z(v)


def coq_rmeta(m):
    return '(RM %s %s)' % ('true' if m[0] else 'false', ' '.join(coq_oz(v) for v in m[1:]))


def coq_pp_case(r):
    """None when the call is outside the raw model's reading (a Token child whose position attributes are None:
    Python's getattr then yields None values, not AttributeError)"""
    kids = []
    for (kind, m), keep in zip(r['kids'], r['keep']):
        if kind == 'tok':
            if any(v is None for v in m[1:7]):
                return None
            c = 'RTok %s' % coq_rmeta(m)
        elif kind == 'tree':
            c = 'RTree %s' % coq_rmeta(m)
        elif kind == 'custom':
            c = 'RCustom %s' % ('None' if m is None else '(Some %s)' % coq_rmeta(m))
        else:
            c = 'ROther'
        kids.append('(%s, %s)' % (c, 'true' if keep else 'false'))
    return 'PPCase %s %s %s' % (L(kids), coq_rmeta(r['before']),
                                'None' if r['after'] is None else '(Some %s)' % coq_rmeta(r['after']))


def coq_dyn_case(buf, toks):
    return 'DynCase %s %s %s' % (T(as_text(buf)), 'true' if isinstance(buf, bytes) else 'false',
                                 L([coq_tokobs(tok_fields(t)) for t in toks]))


def coq_trip(t):
    return 'None' if t is None else '(Some (T3 %s %s %s))' % (Z(t[0]), Z(t[1]), Z(t[2]))


def coq_meta(m):
    return '(mkMeta %s %s %s %s)' % (coq_trip(m[1]), coq_trip(m[2]), coq_trip(m[3]), coq_trip(m[4]))


def coq_ptree(tr, idx, top=True, obs_tr=None):
    """ptree term for PropagatePositions call idx (children produced by recorded calls are nested).
    obs_tr: take the observed results from another tracer's call of the same index (C15: structure and
    tokens of the substring run, observations of the window run)"""
    call = tr.pp_calls[idx]
    kids = []
    for k, (kind, v) in enumerate(call['kids']):
        if not call['keep'][k] and call['sel'] != k:
            kids.append('PNone')        # rejected by the node_filter: skipped like an unpositioned child
        elif kind == 'node':
            kids.append(coq_ptree(tr, v, False, obs_tr))
        elif kind == 'tok':
            kids.append('PTok %s' % coq_span_tok(v))
        elif kind == 'tree':
            kids.append('PLeaf %s' % coq_meta(v))
        else:
            kids.append('PNone')
    sel = 'None' if call['sel'] is None else '(Some %s)' % N(call['sel'])
    ob = (obs_tr or tr).pp_calls[idx]['obs']
    if ob[0] == 'tree':
        obs = '(OTree %s)' % coq_meta(ob[1])
    elif ob[0] == 'tok':
        obs = '(OTok %s)' % coq_span_tok(ob[1])
    else:
        obs = 'OOther'
    return 'PNode %s %s %s' % (sel, obs, L(kids))


def coq_span_tok(f):
    # (start_pos, line, column), (end_pos, end_line, end_column)
    return '(SE (T3 %s %s %s) (T3 %s %s %s))' % (Z(f[2]), Z(f[3]), Z(f[4]), Z(f[7]), Z(f[5]), Z(f[6]))


def meta_roots(tr):
    """indices of PropagatePositions calls whose result is not a child of a later recorded call"""
    used = set()
    for c in tr.pp_calls:
        for k, (kind, v) in enumerate(c['kids']):
            if kind == 'node' and (c['keep'][k] or c['sel'] == k):
                used.add(v)
    return [i for i in range(len(tr.pp_calls)) if i not in used and ptree_ok(tr, i)]


def ptree_ok(tr, idx):
    """the grouped model (MetaSpan.build) can express this callback tree: no __lark_meta__ children, and the node
    builder did not return a child the node_filter rejects"""
    c = tr.pp_calls[idx]
    if c['custom'] or (c['sel'] is not None and not c['keep'][c['sel']]):
        return False
    return all(ptree_ok(tr, v) for k, (kind, v) in enumerate(c['kids'])
               if kind == 'node' and (c['keep'][k] or c['sel'] == k))


# ============================================================================================ generators
NL_SPELLINGS = [r'\n', r'\r?\n', r'[\n]', r'\s', r'[^a-z0-9,()\[\]"#<>]', r'\W', r'\D', r'[\t-\r]', r'(?s:.)',
                r'\x0a', r'[\x00-\x1f]', r'[ \n]', r'(\n|;)', r'\S|\n', r'[^\S ]']

# name -> (lark pattern text, sample matches)
PLAIN_TERMS = {
    'WORD': ('/[a-z]+/', ['a', 'if', 'xy', 'foo']),
    'NUM': ('/[0-9]+/', ['1', '42', '007']),
    'KW': ('"if"', ['if']),
    'STR': ('/"[^"]*"/', ['"s"', '"a\nb"', '""', '"\n\n"']),
    'COMMENT': ('/#[^\\n]*/', ['#c', '# x y', '#']),
    'ML': ('/<(.|\\n)*?>/', ['<>', '<a\nb>', '<\n>']),
    'DOTS': ('/<.*?>/s', ['<>', '<a\nb>', '<\n\n>']),
    'SP': ('/[ \\t]+/', [' ', '\t', '  ']),
    'SEMI': ('";"', [';']),
    'BANG': ('/!+/', ['!', '!!']),
}


def gen_flat_grammar(rng):
    """permissive token-soup grammar: start: item*, with 2-5 kept and 0-2 ignored terminals, at least one of
    which can match a newline by a randomly chosen spelling. Returns (grammar, pieces, extra_options)."""
    names = list(PLAIN_TERMS)
    rng.shuffle(names)
    kept = names[:rng.randint(1, 4)]
    ignored = [n for n in names[4:6] if rng.random() < 0.5]
    # a keyword is only interesting next to the regexp terminal that also matches it (UnlessCallback re-typing)
    if rng.random() < 0.3 and 'KW' not in kept + ignored:
        kept.append('KW')
    if 'KW' in kept + ignored and 'WORD' not in kept + ignored:
        kept.append('WORD')
    if 'ML' in kept + ignored and 'DOTS' in kept + ignored:
        (kept if 'DOTS' in kept else ignored).remove('DOTS')
    defs = {n: PLAIN_TERMS[n][0] for n in kept + ignored}
    pieces = [s for n in kept + ignored for s in PLAIN_TERMS[n][1]]
    # newline-capable terminal(s) by spelling
    for k in range(rng.randint(1, 2)):
        sp = rng.choice(NL_SPELLINGS)
        q = rng.choice(['', '+', '+', '{1,3}'])
        name = 'NL%d' % k
        defs[name] = '/(%s)%s/' % (sp, q) if q else '/%s/' % sp
        (ignored if rng.random() < 0.45 else kept).append(name)
        pieces += ['\n', '\n\n', ' \n', '\n ']
    extra = ()
    if rng.random() < 0.12:
        # any-character terminal relying on a global DOTALL flag
        import re
        defs['ANY'] = '/./'
        kept.append('ANY')
        extra = (('g_regex_flags', re.S),)
    alts = []
    for n in kept:
        alts.append(n if rng.random() < 0.6 else '%s -> %s' % (n, n.lower()))
    if rng.random() < 0.6:
        alts.append('"(" item* ")" -> group')
        pieces += ['(', ')', '(', ')']
    if rng.random() < 0.3:
        alts.append('"[" item "," item "]" -> pair')
        pieces += ['[', ',', ']']
    g = 'start: item*\nitem: ' + '\n    | '.join(alts) + '\n'
    for n, p in defs.items():
        g += '%s: %s\n' % (n, p)
    for n in ignored:
        g += '%%ignore %s\n' % n
    return g, pieces, extra


def gen_flat_input(rng, pieces):
    n = rng.randint(0, 10)
    s = ''.join(rng.choice(pieces) for _ in range(n))
    # newlines at arbitrary positions
    for _ in range(rng.randint(0, 2)):
        k = rng.randint(0, len(s))
        s = s[:k] + '\n' + s[k:]
    return s


WS_SPELLINGS = [r'\s+', r'[ \t\n]+', r'[^!-~]+', r'[\t-\r ]+', r'( |\n|\t)+', r'[\x00-\x20]+', r'(?s:[ \t]|.(?<=\n))+',
                r'([ \t]|\r?\n)+']

STRUCT_GRAMMAR = r'''
start: stmt*
?stmt: NAME "=" expr ";"   -> assign
     | block
     | "<" block ">"
     | "[" emp "]"
     | _call ";"           -> callstmt
emp:
block: "{" stmt* "}"
_call: NAME "(" [args] ")"
args: expr ("," expr)*
?expr: term | expr "+" term -> add
?term: NUM | NAME | "(" expr ")" -> paren | "@" opt NUM -> withopt
opt: "!"?
NAME: /[a-z]+/
NUM: /[0-9]+/
WS: /%s/
%%ignore WS
%s
'''


def gen_struct_grammar(rng):
    ws = rng.choice(WS_SPELLINGS)
    tail = ''
    comments = []
    if rng.random() < 0.5:
        tail += 'COMMENT: /#[^\\n]*/\n%ignore COMMENT\n'
        comments.append('#c')
    if rng.random() < 0.4:
        tail += 'MLC: /\\/\\*(.|\\n)*?\\*\\//\n%ignore MLC\n'
        comments += ['/* x */', '/*\n*/', '/*a\n\nb*/']
    return STRUCT_GRAMMAR % (ws, tail), comments


def gen_struct_tokens(rng, depth=0):
    def expr(d):
        r = rng.random()
        if d > 2 or r < 0.45:
            return term(d)
        return expr(d + 1) + ['+'] + term(d + 1)

    def term(d):
        r = rng.random()
        if d > 2 or r < 0.35:
            return [rng.choice(['1', '23', '456'])]
        if r < 0.6:
            return [rng.choice(['a', 'bc', 'xyz'])]
        if r < 0.85:
            return ['('] + expr(d + 1) + [')']
        return ['@'] + (['!'] if rng.random() < 0.5 else []) + ['7']

    def stmt(d):
        r = rng.random()
        if d > 2 or r < 0.4:
            return [rng.choice(['a', 'v', 'foo']), '='] + expr(d) + [';']
        if r < 0.5:
            return block(d)
        if r < 0.57:
            return ['[', ']']
        if r < 0.7:
            return ['<'] + block(d) + ['>']
        args = []
        for k in range(rng.randint(0, 3)):
            args += ([','] if k else []) + expr(d + 1)
        return [rng.choice(['f', 'go']), '('] + args + [')', ';']

    def block(d):
        out = ['{']
        for _ in range(rng.randint(0, 2)):
            out += stmt(d + 1)
        return out + ['}']
    out = []
    for _ in range(rng.randint(0, 4)):
        out += stmt(depth)
    return out


def gen_struct_input(rng, comments):
    toks = gen_struct_tokens(rng)
    gaps = ['', '', ' ', '\n', '\n\n', ' \n ', '\t', '\n  '] + comments * 2
    s = rng.choice(['', '', '', '\n', ' ', '\n\n '])     # half of the inputs start at offset 0
    tight_end = rng.random() < 0.5                          # ... and half end with their last token
    for i, t in enumerate(toks):
        s += t
        g = rng.choice(gaps)
        if tight_end and i + 1 == len(toks):
            g = ''
        if g.startswith('#'):
            g = ' ' + g + '\n'
        s += g
        if g == '' and i + 1 < len(toks) and (t[-1].isalnum() and toks[i + 1][0].isalnum()):
            s += ' '
    return s


WINDOW_PARTS = ['', 'x', '\n', 'ab\n', '\ncd', 'q\n\nr', '(', 'a b', '\n\n\n', ' ']


# ============================================================================================ collector
def enough(ctx, n=12):
    """the failing-input search has produced enough unlisted concrete witnesses: stop generating"""
    return sum(1 for v in ctx.violations if v['found'] and v.get('key') is None) >= n


class Collector:
    """runs lark under the tracer, applies the property oracle, accumulates the Coq correspondence cases"""
    KINDS = (('trace', 'check_trace', 'Gen/LineCounter (from_text_slice, feed, advance_to) vs the recorded LineCounter calls'),
             ('lex', 'check_lex', 'Pos/LexCoords.lex_slice vs the token stream of BasicLexer.next_token'),
             ('dyn', 'check_dyn', 'Pos/LexCoords.dyn_token vs the tokens of the dynamic Earley scanner'),
             ('meta', 'check_ptree', 'Pos/MetaSpan.build vs the metas written by PropagatePositions'),
             ('copy', 'check_copy', 'Gen/CounterCopy.lc_copy vs copy(line_ctr) in LexerState.__copy__ and the calls on the copy'),
             ('fork', 'check_fork', 'Pos/Recover.lex_fork vs the token stream of a forked lexer state'),
             ('rec', 'check_rec', 'Pos/Recover.lex_slice_rec vs tokens and skipped characters of parse(on_error=...)'),
             ('pp', 'check_pp', 'Pos/PropPosModel.rpropagate (regenerated PropagatePositions, attribute-wise) vs each callback'),
             ('slice', 'check_slice', 'Gen/TextSlice.ts_start/ts_end/ts_complete/ts_len vs TextSlice(buf, start, end)'))

    def __init__(self, ctx, prefix, oracle, witness, run_witness):
        self.ctx = ctx
        self.prefix, self.oracle, self.witness, self.run_witness = prefix, oracle, witness, run_witness
        self.cases = {k: [] for k, _, _ in self.KINDS}       # kind -> [(coq term, witness)]
        self.pp_seen = set()
        self.pp_budget = 300
        self.pp_all_budget = 450

    # kept for C15's direct use
    @property
    def traces(self):
        return self.cases['trace']

    @property
    def lexes(self):
        return self.cases['lex']

    @property
    def dyns(self):
        return self.cases['dyn']

    @property
    def metas(self):
        return self.cases['meta']

    def run(self, stream, g, parser, lexer, text, rep='str', window=None, api='parse', extra=(), key=None, all_pp=False):
        ctx = self.ctx
        w = self.witness(g, parser, lexer, text, rep, window, api, extra)
        out = run_case(g, parser, lexer, text, rep, window, api, extra)
        if out['kind'] == 'unsupported':
            ctx.count(stream, nontrivial=False, outcome='unsupported:' + out['why'])
            return out
        toks = result_tokens(out)
        nontriv = len(toks) >= 2 and any((t.line or 0) >= 2 for t in toks)
        outcome = 'ok' if out['kind'] == 'ok' else out['sig'][0]
        if out['kind'] == 'error' and not outcome.startswith('Unexpected') and stream != 'custom-meta':
            note = 'unexpected exception class %s in stream %s (api %s)' % (outcome, stream, api)
            if note not in ctx.notes:
                ctx.note(note)
        ctx.count(stream, key=(g, parser, lexer, text, rep, window, api, extra), nontrivial=nontriv,
                  config='%s/%s/%s%s' % (parser, lexer, rep, '/window' if window else ''), outcome=outcome,
                  tokens=min(len(toks), 12), api=api.split(':')[0] + (':' + api.split(':')[2] if api.count(':') == 2 else ''))
        if nontriv:
            ctx.sample({'grammar': g, 'config': [parser, lexer, rep, api], 'window': window, 'text': text,
                        'tokens': [tok_fields(t) for t in toks[:8]]}, limit=4)
        for stage, msg in self.oracle(out)[:3]:
            ctx.violation(stage, w, True, msg, key=key)
        self.add(out, w, all_pp)
        return out

    def add(self, out, w, all_pp=False):
        tr = out['tracer']
        cs = self.cases
        for rec in tr.counters.values():
            if not rec.get('foreign'):
                cs['trace'].append((coq_trace(rec), w))
        for rec in tr.copies.values():
            cs['copy'].append((coq_copy_case(dict(rec, ops=rec['ops'][:4])), w))
        for run in tr.runs.values():
            if tr.recover:
                c = coq_rec_case(run, tr)
                if c:
                    cs['rec'].append((c, w))
                continue
            rec = tr.copies.get(id(run.ctr))
            if rec is not None:
                cs['fork'].append((coq_fork_case(run, rec), w))
                continue
            c = coq_lex_case(run, tr)
            if c:
                cs['lex'].append((c, w))
        toks = result_tokens(out)
        if out['dynamic'] and toks:
            cs['dyn'].append((coq_dyn_case(out['buf'], toks), w))
        for r in meta_roots(tr):
            cs['meta'].append((coq_ptree(tr, r), w))
        for r in tr.pp_raw:
            c = coq_pp_case(r)
            if c is None or c in self.pp_seen:
                continue
            if all_pp:
                if self.pp_all_budget <= 0:
                    continue
                self.pp_all_budget -= 1
            else:
                if self.pp_budget <= 0:
                    continue
                self.pp_budget -= 1
            self.pp_seen.add(c)
            cs['pp'].append((c, w))

    def check(self):
        ctx = self.ctx
        jobs = []
        for kind, fn, what in self.KINDS:
            seen, uniq = set(), []
            for c, w in self.cases[kind]:      # identical observations (e.g. the same text under two parsers) are checked once
                if c not in seen:
                    seen.add(c)
                    uniq.append((c, w))
            if uniq:
                jobs.append((kind, fn, what, uniq))
                ctx.extra.setdefault('coq_case_kinds', {})[fn] = len(uniq)
        results = coq_multi(ctx, [('%s_%s' % (self.prefix, kind), IMPORTS, fn, [c for c, _ in uniq])
                                  for kind, fn, what, uniq in jobs])
        for (kind, fn, what, cases), (bad, errs) in zip(jobs, results):
            for e in errs:
                ctx.violation('correspondence:coq-eval', {'error': e}, False, e[:300])
            for i in bad[:5]:
                w = cases[i][1]
                # the property's own oracle has already been evaluated on this run; re-evaluate for the report
                msgs = self.oracle(self.run_witness(w))
                if msgs:
                    ctx.violation('correspondence+oracle:' + fn, w, True, msgs[0][1])
                else:
                    ctx.violation('correspondence:' + what, dict(w, no_longer_checks=what, coq_case=cases[i][0][:1500]),
                                  False, 'model and implementation disagree; the property oracle holds on this case')


def coq_multi(ctx, jobs):
    """[(name, imports, check_fn, [coq terms])] -> [(bad indices, errors)]: like ctx.coq_bad_indices for several case
    kinds at once.  Starting coqc and loading the libraries costs more than evaluating a few hundred cases, so the
    cases of all kinds are packed into VERIF_NCPU files of about equal size, each evaluated by one coqc process."""
    import re
    import lib
    from concurrent.futures import ThreadPoolExecutor
    out = [([], []) for _ in jobs]
    total = sum(len(c) + 2 for _, _, _, cases in jobs for c in cases)
    if not total:
        return out
    nbins = max(1, min(lib.NCPU, total // 20000 + 1))
    limit = total // nbins + 1
    parts = []          # (job index, first case index, cases)
    for j, (name, imports, fn, cases) in enumerate(jobs):
        k0, size = 0, 0
        for k, c in enumerate(cases):
            size += len(c) + 2
            if size >= limit:
                parts.append((j, k0, cases[k0:k + 1]))
                k0, size = k + 1, 0
        if k0 < len(cases):
            parts.append((j, k0, cases[k0:]))
    parts.sort(key=lambda p: -sum(len(c) for c in p[2]))
    bins = [[] for _ in range(nbins)]
    load = [0] * nbins
    for p in parts:
        b = load.index(min(load))
        bins[b].append(p)
        load[b] += sum(len(c) for c in p[2])
    imports = '\n'.join(dict.fromkeys(imp for _, imp, _, _ in jobs))

    def text_of(b):
        txt = ('%s\nFrom Coq Require Import List String Ascii ZArith NArith Bool.\nImport ListNotations.\n'
               'Open Scope string_scope.\n'
               'Fixpoint lv_bad {A} (f : A -> bool) (i : nat) (l : list A) : list nat :=\n'
               '  match l with [] => [] | x :: r => if f x then lv_bad f (S i) r else i :: lv_bad f (S i) r end.\n') % imports
        for j, k0, cases in b:
            txt += ('Definition lv_cases_%d_%d := %s.\n'
                    'Definition lv_result_%d_%d := Eval vm_compute in lv_bad (%s) 0%%nat lv_cases_%d_%d.\n'
                    'Print lv_result_%d_%d.\n' % (j, k0, '[\n' + ';\n'.join(cases) + '\n]', j, k0, jobs[j][2], j, k0, j, k0))
        return txt
    prefix = jobs[0][0].split('_')[0]
    with ThreadPoolExecutor(max_workers=nbins) as ex:
        results = list(ex.map(lambda ib: ctx.coq_run('%s_pack_%d' % (prefix, ib[0]), text_of(ib[1])), enumerate(bins)))
    for b, (rc, text) in zip(bins, results):
        flat = ' '.join(text.split())
        for j, k0, cases in b:
            m = re.search(r'lv_result_%d_%d = (\[[^\]]*\])' % (j, k0), flat)
            if not m:
                out[j][1].append('%s from case %d rc=%d: %s' % (jobs[j][0], k0, rc, text[-800:]))
                continue
            out[j][0].extend(k0 + int(n) for n in re.findall(r'\d+', m.group(1)))
    for j, (name, imports_, fn, cases) in enumerate(jobs):
        ctx.coq_cases_checked += len(cases)
        out[j][0].sort()
    return out


# ============================================================================================ boundary family
# Fixed structured grammars whose inputs start at absolute offset 0 with a filtered opening token and end with a
# filtered closing token at the very end of the buffer: inlined ?rules wrapping a sub-tree in filtered tokens,
# bracketed lists, nested wrappers, an empty child handed through an inlined rule.  Run on every check.
BOUNDARY = [
    ('?start: sum\n?sum: product | sum "+" product -> add\n?product: atom | product "*" atom -> mul\n'
     '?atom: NUMBER -> num | "(" sum ")"\nNUMBER: /[0-9]+/\n%ignore /[ \\n]+/\n',
     ['(1+2)*3', '(1)', '((1))', '(1+2)', '3*(1+2)', '((1+2)*3)', '(1\n+2)*\n(3)', '((1)*(2))+(3)', '( 1 )', '(1)\n']),
    ('?start: value\n?value: list | NAME -> name | "<" value ">"\nlist: "[" [value ("," value)*] "]"\n'
     'NAME: /[a-z]+/\n%ignore /[ \\n]+/\n',
     ['[a,[b],[]]', '<[a]>', '[]', '<<a>>', '<[a,b]>', '[<a>,<[b]>]', '<\n[a]\n>', '[[[]]]']),
    ('start: item+\n?item: "[" emp "]" | "{" item "}" | "(" emp NAME ")" -> pair | NAME -> name\nemp:\n'
     'NAME: /[a-z]+/\n%ignore /[ \\n]+/\n',
     ['[]', '{[]}', '[]a', 'a[]', '{{a}}', '{[]}{a}', '(a)', '{(a)}[]', '[\n]', '{a}']),
]
BOUNDARY_WINDOWS = [None, ('', ''), ('', ' z'), ('x\n', ''), ('ab', '\n\n'), ('\n(', ')')]


# ============================================================================================ round-12 families
# Forks: the lexer state is copied mid-stream and the COPY lexes the rest.  Systematic: for every text the fork
# points are 0, 1, the end, and every token index whose next token lies on a line >= 2 away from the line start
# (where a counter copy that loses line_start_pos, or any other field, shows).
FORK_GRAMMARS = [
    ('start: stmt+\nstmt: NAME "=" NUMBER ";"\nNAME: /[a-z]+/\nNUMBER: /[0-9]+/\n%ignore /[ \\t\\n]+/\n',
     ['a = 1;\nbb = 22; ccc = 333; dd = 4;\n  e = 55;\nf = 6; g = 7;', '\n\n x = 1; y = 2;\n z = 3;', 'a = 1; b = 2;',
      'q = 9;\n\n\n   r = 10; s = 11;']),
    ('start: (NAME | STR | group)*\ngroup: "(" start ")"\nNAME: /[a-z]+/\nSTR: /"[^"]*"/\n%ignore /[ ]+/\nNL: /\\n/\n%ignore NL\n',
     ['a "x\ny" (b c\n d) e', '"\n\n" a (("\n" b) c) d', '(a\n(b\n(c d) e) f) g']),
]
FORK_MODES = ('copy', 'shallow', 'immutable')


def fork_points(lk, inp, buf):
    """token indices at which to fork: 0, 1, n and every k whose k-th token starts mid-line on a line >= 2"""
    try:
        toks = list(lk.lex(inp))
    except Exception:       # noqa
        return [0, 1]
    ks = {0, 1, len(toks)}
    mid = [k for k, t in enumerate(toks) if (t.line or 1) >= 2 and (t.column or 1) > 1]
    # on every line >= 2: the first and the last token that does not start the line
    by_line = {}
    for k in mid:
        by_line.setdefault(toks[k].line, []).append(k)
    for l in by_line.values():
        ks.update((l[0], l[-1]))
    return sorted(ks)


# on_error recovery: grammars that have no terminal for a newline outside comments / at all, inputs with stray
# unlexable characters - newlines among them - between valid tokens
RECOVER_GRAMMARS = [
    ('start: item+\nitem: NAME ":" NUMBER\nNAME: /[a-z]+/\nNUMBER: /[0-9]+/\nCOMMENT: /#[^\\n]*\\n/\n%ignore /[ \\t]+/\n%ignore COMMENT\n',
     [['a', ':', '1'], ['bb', ':', '22'], ['ccc', ':', '333'], ['#c\n'], ['d', ':', '4']]),
    ('start: (WORD | "(" start ")" | ";")*\nWORD: /[a-z]+/\n%ignore " "\n',
     [['a'], ['(', 'b', 'c', ')'], [';'], ['(', '(', 'd', ')', ')'], ['ef']]),
]
RECOVER_JUNK = ['\n', '\n', '$', '\n\n', '$\n', '\n$', '\n \n', '?']
RECOVER_FIXED = ['a:1 bb:22\nccc:333 d:4\n\n  e:55 # trailing comment\nf:6 g:7\nh:8', '\na:1', 'a:1\n', 'a:1\n\n\nb:2 $ c:3\n d:4']


def gen_recover_input(rng, groups):
    out = ''
    for _ in range(rng.randint(2, 6)):
        g = rng.choice(groups)
        out += rng.choice(['', ' ', '  ']).join(g) if len(g) > 1 else g[0]
        r = rng.random()
        out += rng.choice(RECOVER_JUNK) if r < 0.6 else ' '
        if rng.random() < 0.3:
            out += ' '
    return out
