"""C14 - scan() yields leftmost-longest non-overlapping matches consistent with parse().

Model: coq/Scan/Scan.v (the loop of ParsingFrontend._scan over abstract oracles); theorems in
coq/Scan/Scan_proofs.v, restated in coq/Props/C14.v.

Tie (checked on every run):
  * regeneration: translator/gen_scan.py pins _scan, search_scanner, Scanner.search, search_start,
    LineCounter.advance_to/from_text_slice/__init__ by AST templates and regenerates the integer
    constants into coq/Gen/ScanHoles.v (Scan_proofs.v proves what it needs about them);
  * correspondence: the oracles of the model are *observed from the running code* (search_start calls,
    every Scanner match made by the lexer, every feed_token and $END trial of the stunted parse, the
    line-counter snapshot handed to each mid-text parse, the replayed tokens, the yielded ranges); the
    search oracle is recomputed independently (brute force over the non-ignored terminals of the start
    state's lexer); Coq runs the model loop on these tables by vm_compute and must reproduce the whole
    observed sequence of turns.
Search for failing inputs: the property's own statement evaluated by brute force on the implementation
(parse() of every snippet of the window).
"""
import re

from lib import coq_list as L, coq_nat as N

THEOREMS = ['C14_scan_terminates', 'C14_fuel_irrelevant', 'C14_scan_ordered', 'C14_scan_no_ignored_edges', 'C14_scan_positions_global',
            'C14_scan_longest_wrt_tokens', 'C14_scan_value_eq_parse', 'C14_scan_longest', 'C14_scan_no_miss',
            'C14_search_scanner', 'C14_line_counter', 'C14_scan_no_miss_refuted', 'C14_scan_no_miss_head_refuted',
            'C14_example',
            'C14_lexer_chain_instantiated', 'C14_lexer_model_instantiated', 'C14_loop_lexer_exact_instantiated',
            'C14_feed_prefix_closed_instantiated',
            'C14_stunted_incremental', 'C14_trial_cannot_disturb', 'C14_H_stable_instantiated',
            'C14_scan_value_eq_parse_instantiated', 'C14_scan_value_eq_parse_substring_instantiated',
            'C14_scan_longest_instantiated', 'C14_scan_no_miss_instantiated', 'C14_instantiated_example']
GEN_DEPS = ['ScanHoles', 'DynStep', 'LexStep', 'LineCounter']
RULE = ('random LALR grammars (1-3 nonterminals, EBNF operators, nullable starts, keywords through the unless '
        'mechanism, ignored whitespace / comment terminals whose bodies overlap real terminals) x lexer in '
        '{contextual, basic} x str/bytes x propagate_positions x whole text or TextSlice window; texts are built from '
        'sentences sampled with the interactive parser, terminal samples and junk. Stream "prefix-free": terminal sets '
        'in which no match can be extended by following text (H_stable holds by construction; the unrestricted property '
        'is checked). Stream "general": NAME/NUMBER/overlapping literals (the property is checked for the snippets on '
        'which H_stable holds, which is tested per snippet). non-trivial = distinct case with >= 1 match and >= 1 failed '
        'candidate turn.')
TRUSTED_BASE = ['the lexer, the LALR driver and Python re are oracles of the model (observed at run time, not modelled)',
                '_scan control skeleton pinned by translator/gen_scan.py templates; constants regenerated',
                'run-time observation by wrapping search_start, ParsingFrontend.parse_interactive, '
                'ParserState.feed_token and BasicLexer.match; the lexer / parser oracle tables come from an independent '
                'driver (interactive parser + lexer run outside _scan) and must agree with what _scan itself lexed and fed']
ASSUMPTIONS = ['instantiated theorems (round 6): regex-oracle properties scan_positive, scan_bounded, scan_endfree (no look-ahead); H_nonignored_wins (F28 exclusion) and H_search_covers for no_miss; per snippet the decidable boundary condition (F8 exclusion); scan_endfree, boundary <-> stable and H_search_covers are checked on the implementation for every generated case',
               'H_stable (lexing a snippet alone yields the corresponding prefix of lexing the rest of the text, and '
               'conversely for accepted snippets) for scan_value_eq_parse / scan_longest / scan_no_miss; fails for '
               'greedy tokens crossing the snippet end (F8)',
               'H_head (at a search result the first token the lexer produces is not an ignored one) for scan_no_miss; '
               'fails when an ignored terminal out-prioritises a real one at match_start (F28)',
               'no look-around in terminals, no lexer callbacks, no postlex']

IMPORTS = 'From LV Require Import Scan.Scan Scan.ScanCheck.'

F8_KEY = 'F8:greedy-token-crosses-snippet-end'
F28_KEY = 'F28:scan-ignored-preferred-at-search-start'


# ------------------------------------------------------------------------------------------------
# grammars
# name -> (definition, samples, prefix_free)
TERMS_PF = {
    'A': ('"a"', ['a']), 'B': ('"b"', ['b']), 'C': ('"c"', ['c']), 'D': ('"d"', ['d']),
    'LP': ('"("', ['(']), 'RP': ('")"', [')']), 'COMMA': ('","', [',']), 'EQ': ('"="', ['=']),
    'ARROW': ('"->"', ['->']),
    'STR': ('/<[a-z]*>/', ['<>', '<ab>', '<z>']),
    'NUM': (r'/[0-9]+\./', ['1.', '42.']),
    'WORD': ('/[A-Z]+!/', ['X!', 'IFX!', 'QQ!']),
    'KIF': ('"IF!"', ['IF!']), 'KDO': ('"DO!"', ['DO!']),
    'NL': (r'/\n/', ['\n']),
}
TERMS_GEN = {
    'NAME': ('/[a-z]+/', ['a', 'ab', 'if', 'ifx', 'zz']),
    'NUMBER': ('/[0-9]+/', ['1', '42']),
    'KIF2': ('"if"', ['if']), 'KA': ('"a"', ['a']), 'AB': ('"ab"', ['ab']), 'A': ('"a"', ['a']), 'B': ('"b"', ['b']),
    'C': ('"c"', ['c']),
    'EQ': ('"="', ['=']), 'EQEQ': ('"=="', ['==']), 'LP': ('"("', ['(']), 'RP': ('")"', [')']),
    'DOTS': (r'/\.+/', ['.', '...']),
}
IGNORES = [
    [],
    [('WS', r'/[ \n]+/', [' ', '  ', '\n', ' \n '])],
    [('WS', r'/[ \n]+/', [' ', '\n', '\n\n']), ('COMMENT', '/#[a-z]*/', ['#', '#ab', '#cd'])],
    [('WS', r'/ +/', [' ', '  '])],
    [('WS', r'/[ \n]+/', [' ', '\n']), ('COMMENT', r'/%[a-z(]*\n/', ['%\n', '%ab\n', '%a(\n'])],
]

# hand-written shapes that exercise particular branches of _scan
SHAPES = [
    # '$END' in choices() but the trial feed fails (LALR look-ahead merging)
    ('start: A x D | B x\nx: C', ['A', 'B', 'C', 'D']),
    # nullable start
    ('start: x y\nx: A?\ny: B*', ['A', 'B']),
    ('start: (A B)*', ['A', 'B']),
    # several accepted prefixes, parse continues after the longest
    ('start: A+ (B A+)*', ['A', 'B']),
    ('start: item (COMMA item)*\nitem: A | B | LP start RP', ['A', 'B', 'COMMA', 'LP', 'RP']),
    ('start: A B? C?', ['A', 'B', 'C']),
    ('start: STR (EQ STR)?', ['STR', 'EQ']),
    ('start: (KIF WORD | WORD)+', ['KIF', 'WORD']),
    ('start: A (NL A)*', ['A', 'NL']),
]


def rand_rules(rng, terms):
    nts = ['start'] + rng.sample(['x', 'y'], rng.randint(0, 2))
    lines = []
    for nt in nts:
        alts = []
        for _ in range(rng.choice([1, 1, 2, 2, 3])):
            syms = []
            for _ in range(rng.choice([1, 1, 2, 2, 3])):
                if len(nts) > 1 and rng.random() < 0.3:
                    sym = rng.choice(nts[1:] if rng.random() < 0.9 else nts)
                else:
                    sym = rng.choice(terms)
                syms.append(sym + rng.choice(['', '', '', '', '?', '*', '+']))
            alt = ' '.join(syms)
            if rng.random() < 0.12:
                alt = '(' + alt + ')' + rng.choice(['?', '*'])
            alts.append(alt)
        lines.append('%s: %s' % (nt, ' | '.join(alts)))
    return '\n'.join(lines)


def gen_grammar(rng, general):
    """returns dict(grammar=..., samples={term: [...]}, ignored=[names])"""
    pool = TERMS_GEN if general else TERMS_PF
    ign = rng.choice(IGNORES)
    if not general and rng.random() < 0.35:
        rules, terms = rng.choice(SHAPES)
    else:
        names = sorted(pool)
        if general:
            terms = rng.sample(names, rng.randint(2, 5))
            if 'NAME' not in terms and rng.random() < 0.6:
                terms.append('NAME')
        else:
            terms = rng.sample([n for n in names if n != 'NL'], rng.randint(2, 5))
            if rng.random() < 0.3 and 'WORD' not in terms:
                terms += ['WORD', 'KIF']
            if ign and ign[0][1] == r'/ +/' and rng.random() < 0.7:
                terms.append('NL')
        rules = rand_rules(rng, terms)
    if 'NL' in terms and any(r'\n' in d for _, d, _ in ign):
        ign = IGNORES[3]     # a newline terminal next to an ignored terminal that eats newlines is never produced
    used = [t for t in terms if re.search(r'\b%s\b' % t, rules)]
    g = rules + '\n' + '\n'.join('%s: %s' % (t, pool[t][0]) for t in used)
    g += ''.join('\n%s: %s\n%%ignore %s' % (n, d, n) for n, d, _ in ign) + '\n'
    samples = {t: pool[t][1] for t in used}
    samples.update({n: s for n, _, s in ign})
    return dict(grammar=g, samples=samples, ignored=[n for n, _, _ in ign])


def build(cfg):
    from lark import Lark
    return Lark(cfg['grammar'], parser='lalr', lexer=cfg['lexer'], use_bytes=cfg['use_bytes'],
                propagate_positions=cfg['propagate'])


def gen_text(rng, p, cfg):
    """sentences sampled by walking the parse table + terminal samples + junk"""
    from lark.lexer import Token
    samples = cfg['samples']
    ign = cfg['ignored']
    pieces = []

    def sep():
        if ign and rng.random() < 0.5:
            pieces.append(rng.choice(samples[rng.choice(ign)]))

    for _ in range(rng.choice([0, 1, 2, 2, 3, 3, 4])):
        r = rng.random()
        if r < 0.65:
            ip = p.parse_interactive('')
            for _ in range(rng.randint(1, 6)):
                acc = sorted(t for t in ip.accepts() if t != '$END' and t in samples)
                if not acc:
                    break
                t = rng.choice(acc)
                try:
                    ip.feed_token(Token(t, ''))
                except Exception:
                    break
                pieces.append(rng.choice(samples[t]))
                sep()
        elif r < 0.85:
            for _ in range(rng.randint(1, 3)):
                pieces.append(rng.choice(samples[rng.choice(sorted(samples))]))
                sep()
        else:
            pieces.append(rng.choice(['z', '?', 'zz', '\n', ' ', 'a', '(', '#', '!']))
        if rng.random() < 0.5:
            pieces.append(rng.choice(['z', '?', ' ', '\n', '', '#a', '\n\n']))
    text = ''.join(pieces)
    return text[:rng.choice([8, 12, 16, 20])]


# ------------------------------------------------------------------------------------------------
# observation of the oracles from the running code
class Recorder:
    def __init__(self, p):
        self.p = p
        self.log = []
        self.on = False

    def __enter__(self):
        from lark.parsers.lalr_parser_state import ParserState
        from lark.lexer import BasicLexer
        fe = self.p.parser
        log = self.log
        rec = self
        self._PS, self._BL, self._fe, self._lexer = ParserState, BasicLexer, fe, fe.lexer
        orig_search = fe.lexer.search_start
        orig_pi = fe.parse_interactive
        self._orig_feed = orig_feed = ParserState.feed_token
        self._orig_match = orig_match = BasicLexer.match

        def search_start(text_slice, start_state, pos):
            res = orig_search(text_slice, start_state, pos)
            log.append(('search', pos, res))
            return res

        def parse_interactive(text=None, start=None):
            ip = orig_pi(text, start=start)
            snap = None
            if text is not None:
                snap = (text.start, text.end, getattr(text, 'line', None), getattr(text, 'line_start_pos', None))
            log.append(('ip', snap, ip.parser_state))
            return ip

        def feed_token(state, token, is_end=False):
            if not rec.on:
                return orig_feed(state, token, is_end)
            try:
                r = orig_feed(state, token, is_end)
            except Exception:
                log.append(('feed', state, token.type, token.start_pos, token.end_pos, is_end, False))
                raise
            log.append(('feed', state, token.type, token.start_pos, token.end_pos, is_end, True))
            return r

        def match(lexer, text, pos):
            res = orig_match(lexer, text, pos)
            if rec.on:
                if res is None:
                    log.append(('raw', pos, None, None, None))
                else:
                    log.append(('raw', pos, pos + len(res[0]), res[1], res[1] in lexer.ignore_types))
            return res

        fe.lexer.search_start = search_start
        fe.parse_interactive = parse_interactive
        ParserState.feed_token = feed_token
        BasicLexer.match = match
        self.on = True
        return self

    def __exit__(self, *a):
        self.on = False
        self._PS.feed_token = self._orig_feed
        self._BL.match = self._orig_match
        del self._lexer.search_start
        del self._fe.parse_interactive


def observe_scan(p, text, a, b, whole):
    """runs list(p.scan(...)) under observation; returns dict(turns, final, matches, error)"""
    from lark.utils import TextSlice
    arg = text if whole else TextSlice(text, a, b)
    matches, err = [], None
    with Recorder(p) as rec:
        try:
            for m in p.scan(arg):
                rec.log.append(('yield', m.range))
                matches.append((m.range[0], m.range[1], m.value))
        except Exception as e:   # noqa
            err = '%s: %s' % (type(e).__name__, str(e)[:200])
    turns, cur, final = [], None, None
    for ev in rec.log:
        k = ev[0]
        if k == 'search':
            if cur is not None:
                turns.append(cur)
                cur = None
            if ev[2] is None:
                final = ev[1]
            else:
                cur = dict(pos=ev[1], m=ev[2], snap=None, raw=[], raw_done=False, toks=[], replay=0, eof=None,
                           range=None, st=None, rp=None)
        elif cur is None:
            continue
        elif k == 'ip':
            if ev[1] is not None and cur['st'] is None:
                cur['snap'], cur['st'] = ev[1], ev[2]
            else:
                cur['rp'] = ev[2]
                cur['raw_done'] = True
        elif k == 'raw':
            if not cur['raw_done']:
                if ev[2] is None:
                    cur['raw_done'] = True
                else:
                    cur['raw'].append(ev[1:])
        elif k == 'feed':
            _, st, ty, s, e, is_end, ok = ev
            if st is cur['st']:
                cur['toks'].append(dict(type=ty, s=s, e=e, ok=ok, choice=False, trial=False))
            elif st is cur['rp']:
                if is_end:
                    cur['eof'] = ok
                elif ok:
                    cur['replay'] += 1
            elif is_end and cur['toks']:
                cur['toks'][-1]['choice'] = True
                cur['toks'][-1]['trial'] = ok
        elif k == 'yield':
            cur['range'] = ev[1]
    if cur is not None:
        turns.append(cur)
    return dict(turns=turns, final=final, matches=matches, error=err)


HYP_FAILS = []      # failures of the oracle hypotheses of the instantiated theorems, drained by run_case


def independent_stream(p, text, m, b):
    """the lexer / parser oracles at position m, obtained *outside* _scan by a driver of our own: every lexer
    match from m on (ignored included) in lockstep with an interactive parser; for every token whether the feed
    succeeded, whether '$END' is in choices() afterwards and whether feeding $END to a copy succeeds.
    Stops like any LALR parse: at the first lexer error, feed error, or at the end of the window."""
    from lark.utils import TextSlice
    from lark.exceptions import UnexpectedInput
    from lark.lexer import BasicLexer, Token
    raw, toks = [], []
    orig_match = BasicLexer.match

    def match(lexer, txt, pos):
        res = orig_match(lexer, txt, pos)
        if res is not None:
            raw.append((pos, pos + len(res[0]), res[1], res[1] in lexer.ignore_types))
            # scan_endfree (hypothesis of the instantiated theorems): cutting the text anywhere after the end of
            # the match does not change the match
            for e in range(pos + len(res[0]), txt.end):
                r2 = orig_match(lexer, TextSlice(txt.text, txt.start, e), pos)
                if r2 != res:
                    HYP_FAILS.append(('scan_endfree', 'terminal %s at %d: window end %d gives %r, window end %d gives %r'
                                      % (res[1], pos, txt.end, res, e, r2)))
                    break
        return res
    BasicLexer.match = match
    try:
        ip = p.parse_interactive(TextSlice(text, m, b))
        ip.parser_state.parse_conf.callbacks = {}
        try:
            for t in ip.lexer_thread.lex(ip.parser_state):
                rec = dict(type=t.type, s=t.start_pos, e=t.end_pos, ok=False, choice=False, trial=False)
                toks.append(rec)
                ip.feed_token(t)
                rec['ok'] = True
                # the $END trial is made on a parser fed from scratch (no use of ParserState.copy)
                ip2 = p.parse_interactive('')
                ip2.parser_state.parse_conf.callbacks = {}
                for f in toks:
                    ip2.feed_token(Token(f['type'], ''))
                if '$END' in ip2.choices():
                    rec['choice'] = True
                    try:
                        ip2.feed_eof()
                        rec['trial'] = True
                    except UnexpectedInput:
                        pass
        except UnexpectedInput:
            pass
    finally:
        BasicLexer.match = orig_match
    # drop lexer matches made after the last yielded token by error-reporting paths (contextual fallback)
    return raw, toks


def start_positions(p, text, a, b):
    """independent recomputation of the search oracle: offsets in [a, b) at which some non-ignored terminal of
    the start state's lexer matches (one re.match per terminal and offset)"""
    conf = p.parser.lexer_conf
    ignore = set(conf.ignore)
    names = [t.name for t in conf.terminals if t.name not in ignore]
    if p.options.lexer == 'contextual':
        pt = p.parser.parser._parse_table
        (start_state,) = pt.start_states.values()
        acc = set(pt.states[start_state].keys())
        names = [n for n in names if n in acc]
    rx = []
    for t in conf.terminals:
        if t.name in names:
            pat = t.pattern.to_regexp()
            if conf.use_bytes:
                pat = pat.encode('latin-1')
            rx.append(re.compile(pat, conf.g_regex_flags))
    return [i for i in range(a, b) if any(r.match(text, i, b) for r in rx)]


# ------------------------------------------------------------------------------------------------
# Coq case
def type_ids(p):
    names = sorted(t.name for t in p.parser.lexer_conf.terminals)
    return {n: i for i, n in enumerate(names)}


def coq_tok(ty, s, e, ign):
    return '(mkTok %d %d %d %s)' % (ty, s, e, 'true' if ign else 'false')


def B_(x):
    return 'true' if x else 'false'


def tables_of(p, text, a, b, obs):
    """the oracle tables as Python data: (nls, starts, streams, parser); or raises ValueError(reason) when the
    observation cannot be aligned (reported as a correspondence failure)"""
    ids = type_ids(p)
    nl = 10 if isinstance(text, bytes) else '\n'
    nls = [i for i, c in enumerate(text) if c == nl]
    starts = start_positions(p, text, a, b)
    streams, parser = [], []
    for t in obs['turns']:
        raw, fed = independent_stream(p, text, t['m'], b)
        # what _scan itself lexed and fed in this turn must be a prefix of the independent stream
        seen = [(f['type'], f['s'], f['e'], f['ok'], f['choice'], f['trial']) for f in t['toks']]
        ind = [(f['type'], f['s'], f['e'], f['ok'], f['choice'], f['trial']) for f in fed]
        if seen != ind[:len(seen)]:
            raise ValueError('tokens / parser outcomes observed inside _scan from %d %r differ from the independent '
                             'lexer+parser run %r' % (t['m'], seen, ind))
        if [r for r in t['raw']] != raw[:len(t['raw'])]:
            raise ValueError('lexer matches observed inside _scan from %d differ from the independent run' % t['m'])
        stream = []
        k = 0
        for (s, e, ty, ign) in raw:
            if ign:
                stream.append((ids[ty], s, e, True))
            else:
                if k >= len(fed):
                    break       # matched by the lexer after the parse had already failed (error reporting)
                f = fed[k]
                k += 1
                if (f['s'], f['e']) != (s, e):
                    raise ValueError('token %r [%s,%s) does not align with lexer match [%d,%d)'
                                     % (f['type'], f['s'], f['e'], s, e))
                stream.append((ids[f['type']], s, e, False))
        if k != len(fed):
            raise ValueError('token produced without a lexer match')
        streams.append((t['m'], stream))
        tys = [ids[f['type']] for f in fed]
        for i, f in enumerate(fed):
            ent = (tys[:i + 1], (f['ok'], f['choice'], f['trial']))
            if ent not in parser:     # identical observations are kept once; conflicting ones are all kept (Coq rejects them)
                parser.append(ent)
    return nls, starts, streams, parser


def coq_tables(a, b, tabs):
    nls, starts, streams, parser = tabs
    return '(mkTables %d %d %s %s %s %s)' % (
        a, b, L([str(x) for x in nls]), L([str(x) for x in starts]),
        L(['(%d, %s)' % (m, L([coq_tok(*t) for t in st])) for m, st in streams]),
        L(['(%s, (%s, %s, %s))' % (L([str(x) for x in k]), B_(f[0]), B_(f[1]), B_(f[2])) for k, f in parser]))


def coq_case(a, b, tabs, obs):
    turns = []
    for t in obs['turns']:
        snap = t['snap'] or (None, None, 0, 0)
        nfed = sum(1 for f in t['toks'] if f['ok'])
        turns.append('(%d, %d, (%d, %d), %d, %d)' % (t['pos'], t['m'], snap[2] or 0, snap[3] or 0, nfed, t['replay']))
    return '(mkCase %s %s %d %s)' % (coq_tables(a, b, tabs), L(turns), obs['final'] if obs['final'] is not None else 0,
                                     L(['(%d, %d)' % (s, e) for s, e, _ in obs['matches']]))


# ------------------------------------------------------------------------------------------------
# the property itself, by brute force on the implementation
def coords(text, pos):
    nl = b'\n' if isinstance(text, bytes) else '\n'
    line = 1 + text.count(nl, 0, pos)
    lsp = text.rfind(nl, 0, pos) + 1
    return line, pos - lsp + 1


def cmp_values(text, s, v_scan, v_snip):
    """None if the scan value equals parse(text[s:e]) with positions shifted to the full text; else a reason"""
    from lark import Tree, Token

    def go(x, y, path):
        if isinstance(x, Tree) != isinstance(y, Tree) or isinstance(x, Token) != isinstance(y, Token):
            return '%s: node kinds differ' % path
        if isinstance(x, Tree):
            if x.data != y.data or len(x.children) != len(y.children):
                return '%s: tree %r/%d vs %r/%d' % (path, x.data, len(x.children), y.data, len(y.children))
            mx, my = x.meta, y.meta
            if mx.empty != my.empty:
                return '%s: meta.empty differs' % path
            if not mx.empty and hasattr(mx, 'start_pos'):
                if (mx.start_pos, mx.end_pos) != (my.start_pos + s, my.end_pos + s):
                    return '%s: meta positions %r vs snippet %r + %d' % (path, (mx.start_pos, mx.end_pos),
                                                                        (my.start_pos, my.end_pos), s)
                if (mx.line, mx.column) != coords(text, mx.start_pos) or \
                        (mx.end_line, mx.end_column) != coords(text, mx.end_pos):
                    return '%s: meta line/column %r are not those of the full text' % (
                        path, (mx.line, mx.column, mx.end_line, mx.end_column))
            for i, (cx, cy) in enumerate(zip(x.children, y.children)):
                r = go(cx, cy, '%s/%d' % (path, i))
                if r:
                    return r
            return None
        if isinstance(x, Token):
            if x.type != y.type or str(x) != str(y):
                return '%s: token %r %r vs %r %r' % (path, x.type, str(x), y.type, str(y))
            if (x.start_pos, x.end_pos) != (y.start_pos + s, y.end_pos + s):
                return '%s: token positions %r vs snippet %r + %d' % (path, (x.start_pos, x.end_pos),
                                                                      (y.start_pos, y.end_pos), s)
            if (x.line, x.column) != coords(text, x.start_pos) or (x.end_line, x.end_column) != coords(text, x.end_pos):
                return '%s: token %r line/column %r are not those of the full text (expected %r, %r)' % (
                    path, str(x), (x.line, x.column, x.end_line, x.end_column), coords(text, x.start_pos),
                    coords(text, x.end_pos))
            return None
        return None if x == y else '%s: %r vs %r' % (path, x, y)
    return go(v_scan, v_snip, '')


def pull_tokens(p, snippet, shift):
    """(tokens pulled from the lexer in lockstep with the parser, all fed ok?) with positions shifted"""
    from lark.exceptions import UnexpectedInput
    ip = p.parse_interactive(snippet)
    out = []
    ok = True
    try:
        for t in ip.lexer_thread.lex(ip.parser_state):
            out.append((t.type, t.start_pos + shift, t.end_pos + shift))
            ip.feed_token(t)
    except UnexpectedInput:
        ok = False
    return out, ok


def property_oracle(p, text, a, b, matches, restrict, stats=None):
    """returns None or (kind, detail).  restrict=True: quantify only over snippets on which H_stable holds."""
    from lark.exceptions import UnexpectedInput
    # ordering
    lo = a
    for s, e, _ in matches:
        if not (lo <= s < e <= b):
            return 'order', 'match (%d,%d) after position %d in window [%d,%d): not increasing / overlapping / empty' % (s, e, lo, a, b)
        lo = e
    # brute force: which snippets parse
    ok = {}
    val = {}
    for s in range(a, b):
        for e in range(s + 1, b + 1):
            try:
                val[(s, e)] = p.parse(text[s:e])
                ok[(s, e)] = True
            except UnexpectedInput:
                ok[(s, e)] = False
    streams = {}
    bounds = {}
    starts = set(start_positions(p, text, a, b))

    def stream_from(s):
        if s not in streams:
            streams[s] = pull_tokens(p, text[s:b], s)[0]
        return streams[s]

    def boundaries_from(s):
        """ends of the lexer matches (ignored included) of lexing the rest of the window from s"""
        if s not in bounds:
            try:
                bounds[s] = set(r[1] for r in independent_stream(p, text, s, b)[0])
            except Exception as ex:   # noqa - a defect of the lexer / parser under test can break the driver
                HYP_FAILS.append(('driver', 'independent oracle driver raised %s' % type(ex).__name__))
                bounds[s] = set()
        return bounds[s]
    info = {}

    def snippet_info(s, e):
        """(tight, stable) for a snippet that parses.  stable = H_stable for this snippet; the instantiated
        theorems derive it from [boundaryb s e] (a token boundary of lexing the rest of the text falls on e) and
        scan_endfree, and assume H_search_covers: both are checked here on the implementation."""
        if (s, e) not in info:
            toks, fed = pull_tokens(p, text[s:e], s)
            tight = bool(toks) and toks[0][1] == s and toks[-1][2] == e
            stable = toks == stream_from(s)[:len(toks)]
            if tight:
                boundary = e in boundaries_from(s)
                if boundary != stable:
                    HYP_FAILS.append(('boundary_iff_stable', 'snippet (%d,%d): token boundary at the end = %s but '
                                      'snippet tokens %s a prefix of the stream lexed from %d'
                                      % (s, e, boundary, 'are' if stable else 'are not', s)))
                if s not in starts:
                    HYP_FAILS.append(('H_search_covers', 'snippet (%d,%d) parses and begins with a token at %d, where '
                                      'no terminal of the search scanner matches' % (s, e, s)))
            info[(s, e)] = (tight, stable)
        return info[(s, e)]
    # each match
    for s, e, v in matches:
        if not ok[(s, e)]:
            return 'value', 'match (%d,%d) but parse(%r) fails' % (s, e, text[s:e])
        r = cmp_values(text, s, v, val[(s, e)])
        if r:
            return 'value', 'match (%d,%d): %s' % (s, e, r)
        tight, stable = snippet_info(s, e)
        if not tight:
            return 'edges', 'match (%d,%d) starts or ends with ignored text' % (s, e)
        for e2 in range(e + 1, b + 1):
            if ok[(s, e2)]:
                t2, st2 = snippet_info(s, e2)
                if t2 and stats is not None and not st2:
                    stats['unstable'] = stats.get('unstable', 0) + 1
                if t2 and (st2 or not restrict):
                    return 'longest', 'match (%d,%d) but parse(%r) also succeeds (end %d)' % (s, e, text[s:e2], e2)
    # no miss
    covered = set()
    for s, e, _ in matches:
        covered.update(range(s, e))
    for q in range(a, b):
        if q in covered:
            continue
        for e in range(q + 1, b + 1):
            if ok[(q, e)]:
                t2, st2 = snippet_info(q, e)
                if t2 and stats is not None and not st2:
                    stats['unstable'] = stats.get('unstable', 0) + 1
                if t2 and (st2 or not restrict):
                    return 'miss', 'position %d is in no match although parse(%r) succeeds' % (q, text[q:e])
    return None


# ------------------------------------------------------------------------------------------------
def run_case(cfg, text, a, b, whole, restrict, stats=None):
    """-> (obs, tabs or None, table_error, verdict)"""
    p = cfg.get('_p') or build(cfg)
    cfg['_p'] = p
    data = text.encode('latin-1') if cfg['use_bytes'] else text
    del HYP_FAILS[:]
    obs = observe_scan(p, data, a, b, whole)
    if obs['error']:
        return obs, None, None, ('raised', 'scan() raised %s' % obs['error'])
    verdict = property_oracle(p, data, a, b, obs['matches'], restrict, stats)
    try:
        tabs = tables_of(p, data, a, b, obs)
        terr = None
    except ValueError as e:
        tabs, terr = None, str(e)
    except Exception as e:   # noqa - the independent driver uses lark's lexer and parser; a defect there can break it
        tabs, terr = None, 'independent oracle driver raised %s: %s' % (type(e).__name__, str(e)[:200])
    return obs, tabs, terr, verdict


def witness(cfg, text, a, b, whole, restrict):
    return dict(grammar=cfg['grammar'], lexer=cfg['lexer'], use_bytes=cfg['use_bytes'], propagate=cfg['propagate'],
                text=text, window=[a, b], whole_text=whole, restrict_to_stable=restrict)


EXOTIC = [
    # F8: a greedy token crosses the end of the snippet that would parse
    dict(key=F8_KEY, grammar='start: A | AB "c"\nA: "a"\nAB: "ab"\n', text='abd', expect='miss'),
    # F28: an ignored terminal wins at match_start; the candidates under it are never tried
    dict(key=F28_KEY, grammar='start: A B | X "!"\nA: "a"\nB: "b"\nX: "x"\nCOMMENT: /x[a-z]*/\n%ignore COMMENT\n%ignore " "\n',
         text='xab ab', expect='miss'),
]


def correspond(ctx):
    rng = ctx.rng
    ngram = ctx.scale(160, 2000) * (3 if ctx.widen else 1)
    cases, meta = [], []
    stats = {}
    built = 0
    tries = 0
    while built < ngram and tries < ngram * 6:
        tries += 1
        general = rng.random() < 0.4
        cfg = gen_grammar(rng, general)
        cfg.update(lexer=rng.choice(['contextual', 'contextual', 'basic']), use_bytes=rng.random() < 0.25,
                   propagate=rng.random() < 0.4)
        try:
            p = build(cfg)
        except Exception:   # grammar not LALR / terminal collision: not a case
            stats['rejected_grammars'] = stats.get('rejected_grammars', 0) + 1
            continue
        cfg['_p'] = p
        built += 1
        stream = 'general' if general else 'prefix-free'
        for _ in range(rng.randint(2, 4)):
            text = gen_text(rng, p, cfg)
            whole = rng.random() < 0.65
            if whole:
                a, b = 0, len(text)
            else:
                a = rng.randint(0, len(text))
                b = rng.randint(a, len(text))
            st1 = {}
            obs, tabs, terr, verdict = run_case(cfg, text, a, b, whole, general, st1)
            if st1.get('unstable'):
                stats['unstable_snippets_' + stream] = stats.get('unstable_snippets_' + stream, 0) + st1['unstable']
            nmatch = len(obs['matches'])
            nshift = sum(1 for t in obs['turns'] if t['range'] and t['range'][0] != t['m'])
            if nshift:      # outside the H_head class: the generators are not supposed to produce this
                stats['head_shift_' + stream] = stats.get('head_shift_' + stream, 0) + nshift
            nfail = sum(1 for t in obs['turns'] if t['range'] is None)
            ntrial_fail = sum(1 for t in obs['turns'] for f in t['toks'] if f['choice'] and not f['trial'])
            ctx.count(stream, key=(cfg['grammar'], cfg['lexer'], cfg['use_bytes'], text, a, b),
                      nontrivial=(nmatch > 0 and nfail > 0), matches=min(nmatch, 4), lexer=cfg['lexer'],
                      input=('bytes' if cfg['use_bytes'] else 'str') + ('' if whole else '-slice'),
                      failed_turns=min(nfail, 6), end_trial_failed=min(ntrial_fail, 2),
                      ignored_inside_match=int(any(t['range'] and any(r[3] and t['range'][0] < r[0] < t['range'][1] for r in t['raw'])
                                                   for t in obs['turns'])),
                      newline_before_match=int(any(t['range'] and (t['snap'][2] or 1) > 1 for t in obs['turns'])))
            w = witness(cfg, text, a, b, whole, general)
            for name in sorted(set(h[0] for h in HYP_FAILS)):
                det = [h[1] for h in HYP_FAILS if h[0] == name][0]
                stats['hypothesis_' + name] = stats.get('hypothesis_' + name, 0) + 1
                ctx.violation('instantiation-hypothesis:' + name,
                              dict(w, no_longer_checks='oracle hypothesis %s of the instantiated C14 theorems' % name),
                              False, det)
            if verdict:
                ctx.violation('property-oracle:' + verdict[0], w, True, verdict[1])
            if terr:
                ctx.violation('correspondence:observation', dict(w, no_longer_checks='alignment of lexer matches and fed tokens'),
                              False, terr)
            if tabs is not None:
                cases.append(coq_case(a, b, tabs, obs))
                meta.append((w, obs))
            if len(ctx.samples) < 3 and nmatch > 0 and nfail > 0:
                ctx.sample(dict(w, matches=[(s, e) for s, e, _ in obs['matches']],
                                turns=[(t['pos'], t['m'], t['range']) for t in obs['turns']]))
    for k, v in stats.items():
        ctx.histo.setdefault('generator', {})[k] = v
    for k in ('unstable_snippets_prefix-free', 'head_shift_prefix-free', 'head_shift_general'):
        if stats.get(k):
            ctx.note('generator left its class: %s = %d (H_stable / H_head are supposed to hold there by construction)'
                     % (k, stats[k]))
    bad, errs = ctx.coq_bad_indices('c14', IMPORTS, 'check_case', cases, chunk=170)
    for e in errs:
        ctx.violation('correspondence:coq-eval', {'error': e}, False, e[:300])
    for i in bad[:20]:
        w, obs = meta[i]
        # the property oracle already ran on this case (a failing input, if any, was reported above)
        ctx.violation('correspondence:Scan/Scan.scan_iters vs ParsingFrontend._scan',
                      dict(w, no_longer_checks='model/implementation agreement on the sequence of turns',
                           observed_turns=[(t['pos'], t['m'], t['snap'], sum(1 for f in t['toks'] if f['ok']), t['replay'],
                                            t['range']) for t in obs['turns']], observed_final=obs['final']),
                      False, 'the model loop run on the recorded oracles does not reproduce the observed turns')
    # exotic, fixed witnesses of the known findings (unrestricted property on grammars outside the class)
    for ex in EXOTIC:
        for lexer in ('contextual', 'basic'):
            cfg = dict(grammar=ex['grammar'], lexer=lexer, use_bytes=False, propagate=False)
            text = ex['text']
            obs, tabs, terr, verdict = run_case(cfg, text, 0, len(text), True, False)
            ctx.count('exotic', key=(ex['key'], lexer), nontrivial=True)
            if verdict:
                ctx.violation('exotic:' + verdict[0], witness(cfg, text, 0, len(text), True, False), True, verdict[1],
                              key=ex['key'] if verdict[0] == ex['expect'] else None)


def replay(ctx, case):
    w = case['witness']
    if 'grammar' not in w:
        return False
    cfg = dict(grammar=w['grammar'], lexer=w['lexer'], use_bytes=w['use_bytes'], propagate=w['propagate'])
    a, b = w['window']
    obs, tabs, terr, verdict = run_case(cfg, w['text'], a, b, w['whole_text'], w['restrict_to_stable'])
    return verdict is not None
