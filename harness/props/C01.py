"""C01 - Earley accepts exactly the language of the grammar."""
import signal
import sys
import time

from lib import coq_list


def L(items, ty=None):
    """Coq list literal; an empty list carries its element type (the generated cases have no type annotation)"""
    items = list(items)
    if not items and ty:
        return '(@nil %s)' % ty
    return coq_list(items)

THEOREMS = ['C01_predictions_spec', 'C01_nullable_spec', 'C01_chart_is_language', 'C01_alg_sound', 'C01_alg_complete', 'C01_basic_trace',
            'C01_fuel_suffices', 'C01_basic', 'C01_general', 'C01_example',
            'C01_dynamic_ends', 'C01_dynamic_trace', 'C01_dynamic_fuel', 'C01_dynamic_sound', 'C01_dynamic_complete',
            'C01_dynamic_strings', 'C01_dynamic_example', 'C01_distribute_language', 'C01_distribute_nodup',
            'C01_distribute_example',
            'C01_basic_decisions_are_source', 'C01_dynamic_decisions_are_source', 'C01_analysis_decisions_are_source',
            'C01_decisions_example']
GEN_DEPS = ['EarleySteps']
RULE = ('random CFGs (<=5 non-terminals, <=4 single-character terminals, <=3 alternatives of length <=3; nullable '
        'alternatives, left/right/middle recursion, unit cycles, ambiguity, useless rules; optionally EBNF operators) '
        'rendered as Lark text; the compiled BNF is read back from parser_conf.rules and given to the model. Inputs: all '
        'strings up to a small length over the alphabet (+ one foreign character), sentences sampled from the bounded '
        'language, one-edit mutations. Each (grammar, lexer in basic/dynamic/dynamic_complete, input): Earley column '
        'item sets and to_scan sets after every predict_and_complete call, accept/reject, exception class and position, '
        'compared inside Coq with Earley/Alg.earley_parse; acceptance is also compared with an independent span-based '
        'derivability oracle in Python. non-trivial = distinct (compiled rules, input) with >= 2 columns and >= 1 '
        'completed item. Text-level streams (oracle computed from the meaning of the grammar text, props/earley_ignore_gen.py): '
        'multi-ignore = string terminals with 2-3 %ignore strings of different lengths overlapping each other and the '
        'following terminals, all strings up to length 5 plus sentences with ignored text spliced in, all three lexers '
        '(character-level derivability with IGN* at the start and after every terminal for the dynamic lexers; '
        'longest-literal tokenisation for basic); anon-names = anonymous punctuation/keyword literals next to user-defined '
        'or imported terminals that occupy the names lark derives from those literals, inputs = sentences, random '
        'concatenations of the grammar\'s token strings, one-edit mutations. dyn-model = multi-character string terminals '
        'with overlapping %ignore strings, and regexp terminals (several match lengths, alternations whose first alternative '
        'is not the longest) with string/regexp ignores, under dynamic and dynamic_complete: the regex engine\'s answers (the '
        'parser\'s own term_matcher on every terminal, position and truncation; the calls made during the parse must agree '
        'with them) are given to Earley/Dyn.dyn_parse as oracle tables; compared '
        'inside Coq: item sets of every column and to_scan, the keys of delayed_matches after every scan, the outcome. '
        'construct (seed independent) = EBNF-level source grammars (fixed corpus + random family with a fixed generator seed): '
        'nested groups, groups whose distribution repeats a sibling alternative, repeated alternatives, duplicates through '
        '? * + ~ [...], nullable/recursive/cyclic variants; construction terminates and succeeds or raises the documented '
        'GrammarError exactly as an independent expander predicts; then all strings up to length 4 (thorough 5) against '
        'the expander\'s flat rules')
TRUSTED_BASE = ['hand model Earley/Alg.v of earley.Parser.predict_and_complete/scan/_parse/parse and Cfg/Analysis.v of '
                'GrammarAnalyzer.expand_rule (tied by per-column item-set comparison and direct comparison of '
                'Parser.predictions / NULLABLE)',
                'hand model Earley/Dyn.v of xearley.Parser._parse/scan (tied by per-column item sets, delayed_matches keys '
                'and outcome on recorded regex answers); the regex engine itself is an oracle (rmatch/rtrunc) - its answers '
                'are recorded, not modelled; hypothesis fwd (no empty match) is lark\'s construction-time zero-width check',
                'the grammar-of-grammars front end and the operator expansion of EBNF_to_BNF are not modelled (compiled rules '
                'are read back from lark; C09 owns the operators); group distribution / flattening / duplicate removal '
                '(SimplifyRule_Visitor) is modelled at set level by Cfg/AnalysisDistribute.flat and tied on the rule bodies of '
                'the construct stream']
ASSUMPTIONS = ['terminals of the main streams are distinct single-character strings, so the basic lexer\'s token string '
               'is the character string', 'SPPF construction does not influence item creation (not modelled)']
IMPORTS = 'From LV Require Import Cfg.Grammar Cfg.Analysis Earley.Spec Earley.Alg Earley.AlgCheck.'

LEXERS = ('basic', 'dynamic', 'dynamic_complete')
CHARS = 'xyzw'
FOREIGN = 'q'
F7_KEY = 'F7:dynamic-regex-alternation'


class Hang(Exception):
    pass


def _alarm(signum, frame):
    raise Hang()


def with_timeout(seconds, fn, *a, **kw):
    old = signal.signal(signal.SIGALRM, _alarm)
    signal.setitimer(signal.ITIMER_REAL, seconds)
    try:
        return fn(*a, **kw)
    finally:
        signal.setitimer(signal.ITIMER_REAL, 0)
        signal.signal(signal.SIGALRM, old)


# ---------------------------------------------------------------------------------------------
# grammar generation
def gen_cfg(rng, ebnf=False):
    """abstract CFG: dict name -> list of alternatives; an alternative is a list of items;
    item = ('t', char) | ('n', name) | (op, [items])  with op in ? * + [] grp (EBNF stream only)"""
    nnt = rng.choice([1, 2, 2, 3, 3, 4, 5])
    nt = rng.choice([1, 2, 2, 3, 4])
    names = ['start'] + ['abcd'[i] for i in range(nnt - 1)]
    if rng.random() < 0.3:
        names = [n if n == 'start' or rng.random() < 0.6 else '_' + n for n in names]
    chars = CHARS[:nt]
    p_null = rng.choice([0.0, 0.1, 0.3])
    p_nt = rng.choice([0.3, 0.5, 0.7])

    def sym():
        if rng.random() < p_nt:
            return ('n', rng.choice(names))
        return ('t', rng.choice(chars))

    def item(depth=0):
        if ebnf and depth < 2 and rng.random() < 0.3:
            op = rng.choice(['?', '*', '+', '[]', 'grp?', 'grp*'])
            if op.startswith('grp'):
                return (op, [item(depth + 1) for _ in range(rng.randint(1, 2))])
            return (op, [sym()])
        return sym()

    g = {}
    for n in names:
        alts = []
        for _ in range(rng.randint(1, 3)):
            ln = 0 if rng.random() < p_null else rng.randint(1, 3)
            alt = [item() for _ in range(ln)]
            if alt not in alts:
                alts.append(alt)
        g[n] = alts
    # forced features
    others = names[1:]
    if rng.random() < 0.25:
        a = rng.choice(names)
        alt = [('n', a), ('t', rng.choice(chars))]          # left recursion
        if alt not in g[a]:
            g[a].append(alt)
    if rng.random() < 0.2:
        a = rng.choice(names)
        alt = [('t', rng.choice(chars)), ('n', a)]          # right recursion
        if alt not in g[a]:
            g[a].append(alt)
    if others and rng.random() < 0.2:
        a, b = rng.choice(names), rng.choice(others)         # unit cycle
        for x, y in ((a, b), (b, a)):
            if [('n', y)] not in g[x]:
                g[x].append([('n', y)])
    if rng.random() < 0.15:
        a = rng.choice(names)
        alt = [('n', a), ('n', a)]                           # ambiguity, hidden left recursion with nullables
        if alt not in g[a]:
            g[a].append(alt)
    if rng.random() < 0.15:
        a = rng.choice(names)
        if [] not in g[a]:
            g[a].append([])
    return names, chars, g


def render(rng, names, chars, g):
    named = {c: c.upper() for c in chars}
    use_named = rng.random() < 0.5

    def r_item(it):
        k = it[0]
        if k == 't':
            return named[it[1]] if use_named else '"%s"' % it[1]
        if k == 'n':
            return it[1]
        inner = ' '.join(r_item(x) for x in it[1])
        if k == '[]':
            return '[%s]' % inner
        if k.startswith('grp'):
            return '(%s)%s' % (inner, k[3:])
        return '%s%s' % (inner, k)

    lines = []
    for n in names:
        pre = ''
        if n != 'start' and not n.startswith('_'):
            pre = rng.choice(['', '', '', '?', '!'])
        alts = [' '.join(r_item(x) for x in alt) for alt in g[n]]
        lines.append('%s%s: %s' % (pre, n, ' | '.join(alts)))
    if use_named:
        for c in chars:
            lines.append('%s: "%s"' % (named[c], c))
    return '\n'.join(lines) + '\n'


# ---------------------------------------------------------------------------------------------
# independent oracle: derivability by a least fixed point over spans
def member(rules, start, n, tspans):
    """rules: list of (lhs, [('T', t) | ('N', a)]); tspans: t -> set of (i, j). True iff start derives [0, n)."""
    S = {}
    tnext = {}
    for t, sp in tspans.items():
        d = tnext.setdefault(t, {})
        for (i, j) in sp:
            d.setdefault(i, set()).add(j)
    changed = True
    while changed:
        changed = False
        for lhs, rhs in rules:
            tgt = S.setdefault(lhs, {})
            for i in range(n + 1):
                cur = {i}
                for kind, s in rhs:
                    src = tnext.get(s, {}) if kind == 'T' else S.get(s, {})
                    nxt = set()
                    for p in cur:
                        nxt |= src.get(p, set())
                    cur = nxt
                    if not cur:
                        break
                have = tgt.setdefault(i, set())
                if not cur <= have:
                    have |= cur
                    changed = True
    return n in S.get(start, {}).get(0, set())


def bounded_language(rules, start, alphabet, maxlen):
    """all sentences of length <= maxlen over token ids (least fixed point on string sets)"""
    S = {}
    changed = True
    while changed:
        changed = False
        for lhs, rhs in rules:
            cur = {()}
            for kind, s in rhs:
                opts = {(s,)} if kind == 'T' else S.get(s, set())
                cur = {u + v for u in cur for v in opts if len(u) + len(v) <= maxlen}
                if not cur:
                    break
            have = S.setdefault(lhs, set())
            if not cur <= have:
                have |= cur
                changed = True
    return S.get(start, set())


# ---------------------------------------------------------------------------------------------
# observation of lark
_LOG = []
_PATCHED = [False]


def patch_lark():
    if _PATCHED[0]:
        return
    from lark.parsers import earley
    orig = earley.Parser.predict_and_complete

    def wrapped(self, i, to_scan, columns, transitives, node_cache):
        r = orig(self, i, to_scan, columns, transitives, node_cache)
        dm = sys._getframe(1).f_locals.get('delayed_matches')      # xearley._parse's pending matches (None for basic)
        _LOG.append((i, [(it.rule, it.ptr, it.start) for it in columns[i]],
                     [(it.rule, it.ptr, it.start) for it in to_scan],
                     sorted(dm.keys()) if dm is not None else None))
        return r
    wrapped._lv_orig = orig
    earley.Parser.predict_and_complete = wrapped
    _PATCHED[0] = True


class Compiled:
    """lark instance + numbering of its compiled BNF"""
    def __init__(self, lark):
        self.lark = lark
        p = lark.parser.parser
        self.parser = p
        self.rules = list(p.parser_conf.rules)
        (st,) = p.parser_conf.start
        self.ntid = {}
        self.tid = {}
        for r in self.rules:
            self.ntid.setdefault(r.origin.name, len(self.ntid))
        for r in self.rules:
            for s in r.expansion:
                if s.is_term:
                    self.tid.setdefault(s.name, len(self.tid))
                else:
                    self.ntid.setdefault(s.name, len(self.ntid))
        self.start = self.ntid[st]
        self.ridx = {id(r): k for k, r in enumerate(self.rules)}
        self.abs_rules = [(self.ntid[r.origin.name],
                           [('T', self.tid[s.name]) if s.is_term else ('N', self.ntid[s.name]) for s in r.expansion])
                          for r in self.rules]
        # single-character string terminals: char -> terminal id (None when the terminal is not used by a rule)
        self.char_tid = {}
        self.single_char = True
        self.ignored_chars = set()
        for t in lark.terminals:
            pat = t.pattern
            if type(pat).__name__ == 'PatternStr' and len(pat.value) == 1 and not pat.flags:
                if t.name in lark.ignore_tokens:
                    self.ignored_chars.add(pat.value)
                    if t.name in self.tid:
                        self.single_char = False     # an ignored terminal used by a rule: outside the modelled class
                else:
                    self.char_tid[pat.value] = self.tid.get(t.name)
            else:
                self.single_char = False

    def rule_index(self, r):
        k = self.ridx.get(id(r))
        if k is None:
            k = self.rules.index(r)
        return k

    def coq_rules(self):
        return L(['(%d, %s)' % (lhs, L(['%s %d' % ('T' if k == 'T' else 'NT', s) for k, s in rhs], 'symbol'))
                  for lhs, rhs in self.abs_rules])


def build(grammar, lexer, ambiguity, timeout=10.0):
    """-> ('ok', lark) | ('GrammarError', msg) | ('hang', None) | ('error', repr)"""
    from lark import Lark
    from lark.exceptions import GrammarError
    kw = {} if ambiguity is None else {'ambiguity': ambiguity}
    try:
        return 'ok', with_timeout(timeout, Lark, grammar, parser='earley', lexer=lexer, **kw)
    except GrammarError as e:
        return 'GrammarError', str(e)[:200]
    except Hang:
        if timeout < 60:       # slow machine or a real hang: decide with a generous limit
            return build(grammar, lexer, ambiguity, timeout=90.0)
        return 'hang', None
    except Exception as e:       # noqa
        return 'error', '%s: %s' % (type(e).__name__, str(e)[:200])


def run_parse(lark, text, timeout=3.0):
    """-> (status, position, trace): status in accept / UnexpectedEOF / UnexpectedToken / UnexpectedCharacters /
    hang / other:<class>"""
    from lark.exceptions import UnexpectedEOF, UnexpectedToken, UnexpectedCharacters, UnexpectedInput
    del _LOG[:]
    pos = None
    try:
        with_timeout(timeout, lark.parse, text)
        status = 'accept'
    except UnexpectedEOF:
        status = 'UnexpectedEOF'
    except UnexpectedToken as e:
        status = 'UnexpectedToken'
        pos = getattr(e.token, 'start_pos', None)
    except UnexpectedCharacters as e:
        status = 'UnexpectedCharacters'
        pos = e.pos_in_stream
    except UnexpectedInput as e:
        status = 'UnexpectedInput:' + type(e).__name__
    except Hang:
        status = 'hang'
    except Exception as e:      # noqa
        status = 'other:%s' % type(e).__name__
    return status, pos, list(_LOG)


def canon_trace(comp, log):
    cols, scans = [], []
    for k, (i, col, sc, _dm) in enumerate(log):
        if i != k:
            return None
        cols.append(sorted({(comp.rule_index(r), p, s) for r, p, s in col}))
        scans.append(sorted({(comp.rule_index(r), p, s) for r, p, s in sc}))
    return cols, scans


def coq_sets(cols):
    for c in cols:
        for (r, p, st) in c:
            if p >= 64 or st >= 64:
                raise ValueError('item outside the packed range')
    return '(' + L([L(['%d' % ((r * 64 + p) * 64 + st) for (r, p, st) in c], 'N') for c in cols], '(list N)') + ')%N'


def expected_observation(lexer, status, ncols, toks, bad_at):
    """translate lark's outcome into the model's outcome code and the number of trailing model columns lark
    did not compute. None = the outcome has no counterpart in the model (reported separately)."""
    if status == 'accept':
        return 0, 0
    if status == 'UnexpectedEOF':
        return 1, 0
    if status == 'UnexpectedToken' and lexer == 'basic':
        return 2 + (ncols - 1), 0
    if status == 'UnexpectedCharacters' and lexer != 'basic':
        return 2 + (ncols - 1), 0
    if status == 'UnexpectedCharacters' and lexer == 'basic' and bad_at is not None and bad_at == ncols:
        # the basic lexer fails on the foreign character before predict_and_complete(bad_at) is called;
        # the model sees a token that matches no terminal and rejects it one step later
        return 2 + ncols, 1
    return None


# ---------------------------------------------------------------------------------------------
def gen_inputs(rng, comp, alphabet, n_exh, n_extra):
    """token-id level language is used to sample sentences; inputs are character strings"""
    id2c = {t: c for c, t in comp.char_tid.items() if t is not None}
    sents = bounded_language(comp.abs_rules, comp.start, sorted(id2c), 6)
    sent_strs = sorted(''.join(id2c[t] for t in s) for s in sents)
    out = []
    seen = set()

    def add(s, why):
        if s not in seen and len(s) <= 8:
            seen.add(s)
            out.append((s, why))
    # exhaustive short strings
    level = ['']
    allshort = ['']
    L_exh = 3 if len(alphabet) >= 3 else 4
    for _ in range(L_exh):
        level = [s + c for s in level for c in alphabet]
        allshort += level
    if len(allshort) > n_exh:
        keep = allshort[:1 + len(alphabet)] + rng.sample(allshort[1 + len(alphabet):], n_exh - 1 - len(alphabet))
    else:
        keep = allshort
    for s in keep:
        add(s, 'exhaustive')
    pool = sent_strs if len(sent_strs) <= n_extra else rng.sample(sent_strs, n_extra)
    for s in pool:
        add(s, 'sentence')
    for s in pool[:n_extra]:
        if rng.random() < 0.7:
            k = rng.randint(0, len(s))
            r = rng.random()
            if r < 0.35 and s:
                k = min(k, len(s) - 1)
                m = s[:k] + s[k + 1:]
            elif r < 0.7:
                m = s[:k] + rng.choice(alphabet) + s[k:]
            elif s:
                k = min(k, len(s) - 1)
                m = s[:k] + rng.choice(alphabet) + s[k + 1:]
            else:
                m = rng.choice(alphabet)
            add(m, 'mutation')
    # a foreign character somewhere
    for _ in range(2):
        base = rng.choice(out)[0]
        k = rng.randint(0, len(base))
        add(base[:k] + FOREIGN + base[k:], 'foreign')
    return out


def spaced(rng, text):
    out = []
    for ch in text:
        if rng.random() < 0.3:
            out.append(' ' * rng.randint(1, 2))
        out.append(ch)
    if rng.random() < 0.4:
        out.append(' ')
    return ''.join(out)


def check_grammar(ctx, rng, gtext, stream, cases, meta, seen_terms, n_exh, n_extra, lexers=LEXERS, exp_build=None,
                  ignore=False):
    if ignore:
        gtext += '%ignore " "\n'
    # ambiguity='explicit' enumerates all derivations (exponential output on these grammars): it belongs to C04
    ambiguity = rng.choice([None, 'forest', 'forest'])
    comps = {}
    for lexer in lexers:
        st, obj = build(gtext, lexer, ambiguity)
        ctx.count(stream + ':construct', key=(gtext, lexer), nontrivial=False, construct=st)
        if st == 'ok':
            comps[lexer] = Compiled(obj)
        elif st == 'GrammarError':
            if exp_build != 'maybe-GrammarError':
                ctx.note('GrammarError for a generated plain CFG: %s' % obj)
                ctx.violation('construct', {'grammar': gtext, 'lexer': lexer, 'ambiguity': ambiguity, 'mode': 'construct',
                                            'observed': 'GrammarError: ' + obj}, True,
                              'constructing the parser for a plain CFG raised GrammarError: %s' % obj)
            else:
                dup = 'Rules defined twice' in obj
                if not dup:
                    ctx.violation('construct', {'grammar': gtext, 'lexer': lexer, 'ambiguity': ambiguity,
                                                'mode': 'construct', 'observed': 'GrammarError: ' + obj}, True,
                                  'GrammarError other than the documented colliding-optionals error: %s' % obj)
        else:
            ctx.violation('construct', {'grammar': gtext, 'lexer': lexer, 'ambiguity': ambiguity, 'mode': 'construct',
                                        'observed': st + ' ' + str(obj)}, True,
                          'constructing the parser %s' % ('did not terminate within the timeout' if st == 'hang'
                                                          else 'raised ' + str(obj)))
    if not comps:
        return
    comp0 = next(iter(comps.values()))
    for lexer, c in comps.items():
        if c.abs_rules != comp0.abs_rules or c.start != comp0.start:
            ctx.violation('correspondence:compiled-rules-differ-between-lexers',
                          {'no_longer_checks': 'same BNF under all lexers', 'grammar': gtext}, False,
                          'compiled rules differ between lexers')
            return
    if not comp0.single_char:
        ctx.note('grammar outside the single-character-terminal class skipped: %r' % gtext)
        return
    # direct comparison of the analysis tables
    pkey = ('pred', comp0.coq_rules())
    if pkey not in seen_terms:
        seen_terms.add(pkey)
        p = comp0.parser
        for nt, rl in p.predictions.items():
            term = '(%s, %d, %s)' % (comp0.coq_rules(), comp0.ntid[nt.name], L(['%d' % comp0.rule_index(r) for r in rl]))
            cases['pred'].append(term)
            meta['pred'].append({'grammar': gtext, 'nt': nt.name})
            ctx.count(stream + ':predictions', key=term, nontrivial=len(rl) > 1)
        nulls = sorted(comp0.ntid[s.name] for s in p.NULLABLE if not s.is_term and s.name in comp0.ntid)
        cases['null'].append('(%s, %s)' % (comp0.coq_rules(), L(['%d' % a for a in nulls], 'nat')))
        meta['null'].append({'grammar': gtext})
    alphabet = sorted(c for c, t in comp0.char_tid.items() if t is not None) or ['x']
    inputs = gen_inputs(rng, comp0, alphabet, n_exh, n_extra)
    if ignore:
        inputs = [(spaced(rng, t), why) for t, why in inputs] + [(' ', 'exhaustive')]
    crules = comp0.coq_rules()
    group_terms, group_meta, group_seen = [], [], set()
    local_hangs = 0
    for text, why in inputs:
        if local_hangs >= 2 or ctx.extra.get('hangs', 0) >= 8:
            break       # a hanging implementation: enough witnesses, do not burn the time budget
        toks, bad_at = [], None
        for k, ch in enumerate(c for c in text if c not in comp0.ignored_chars):
            t = comp0.char_tid.get(ch)
            if t is None:
                t = 9
                if bad_at is None:
                    bad_at = k
            toks.append(t)
        tspans = {}
        for k, t in enumerate(toks):
            tspans.setdefault(t, set()).add((k, k + 1))
        want = member(comp0.abs_rules, comp0.start, len(toks), tspans)
        for lexer, comp in comps.items():
            status, pos, log = run_parse(comp.lark, text)
            if status == 'hang':     # slow machine or a real hang: decide with a generous limit
                status, pos, log = run_parse(comp.lark, text, timeout=30.0)
            got = status == 'accept'
            w = {'grammar': gtext, 'lexer': lexer, 'ambiguity': ambiguity, 'text': text, 'mode': 'parse',
                 'expected_accept': want, 'observed': status}
            tr = canon_trace(comp, log)
            ncols = len(log)
            nontriv = tr is not None and ncols >= 2 and any(
                p == len(comp.abs_rules[r][1]) for col in tr[0] for (r, p, s) in col)
            ctx.count(stream, key=(crules, text), nontrivial=nontriv, lexer=lexer, outcome=status, input_len=len(text),
                      input_kind=why)
            if status == 'hang':
                ctx.violation('hang', w, True, 'parse did not terminate within the timeout')
                ctx.extra['hangs'] = ctx.extra.get('hangs', 0) + 1
                local_hangs += 1
                if local_hangs >= 2:
                    break
                continue
            if status.startswith('other:') or status.startswith('UnexpectedInput:'):
                ctx.violation('exception-class', w, True,
                              'parse raised %s (neither a result nor UnexpectedEOF/Token/Characters)' % status)
                continue
            if got != want:
                ctx.violation('language', w, True,
                              '%s %r although the grammar %s it' % ('accepted' if got else 'rejected (%s)' % status, text,
                                                                    'does not derive' if got else 'derives'))
                continue
            if ignore and lexer != 'basic':
                continue      # %ignore carry-over of xearley is not modelled: acceptance only
            eo = expected_observation(lexer, status, ncols, toks, bad_at)
            if tr is None or eo is None:
                ctx.violation('correspondence:observation-shape',
                              {'no_longer_checks': 'predict_and_complete call sequence / exception class', **w}, False,
                              'unexpected call sequence or exception class %s for lexer %s' % (status, lexer))
                continue
            code, drop = eo
            if code >= 2 and pos is not None and pos != code - 2 and not ignore:
                ctx.violation('correspondence:error-position',
                              {'no_longer_checks': 'error position = index of the token the scanner rejected', **w},
                              False, 'error position %s, the scanner rejected token %d' % (pos, code - 2))
            term = '(%s, %d, %d, %s, %s)' % (L(['%d' % t for t in toks], 'nat'), code, drop, coq_sets(tr[0]), coq_sets(tr[1]))
            if term not in group_seen:
                group_seen.add(term)
                group_terms.append(term)
                group_meta.append(w)
    if group_terms:
        gkey = (crules, comp0.start, tuple(group_terms))
        if gkey not in seen_terms:
            seen_terms.add(gkey)
            cases['earley'].append((crules, comp0.start, group_terms))
            meta['earley'].append(group_meta)
    ctx.sample({'grammar': gtext, 'compiled_rules': len(comp0.rules), 'inputs': len(inputs),
                'example_input': inputs[min(3, len(inputs) - 1)][0]})


def group_term(g):
    return '(%s, %d, %s)' % (g[0], g[1], L(g[2]))


def run_coq(ctx, cases, meta):
    what = 'Earley/Alg.earley_parse vs earley.Parser (item sets per column, outcome)'
    groups = cases['earley']
    if groups:
        # pack groups into chunks of roughly equal text size
        bad, errs = ctx.coq_bad_indices('c01earley', IMPORTS, 'earley_check', [group_term(g) for g in groups], chunk=12)
        for e in errs:
            ctx.violation('correspondence:coq-eval', {'no_longer_checks': what, 'error': e}, False, e[:300])
        # a failing group: find the runs inside it
        single, smeta = [], []
        for i in bad[:20]:
            g = groups[i]
            for t, w in zip(g[2], meta['earley'][i]):
                single.append(group_term((g[0], g[1], [t])))
                smeta.append(w)
        if single:
            bad2, errs2 = ctx.coq_bad_indices('c01earley1', IMPORTS, 'earley_check', single, chunk=40)
            for e in errs2:
                ctx.violation('correspondence:coq-eval', {'no_longer_checks': what, 'error': e}, False, e[:300])
            for i in bad2:
                w = dict(smeta[i])
                w['no_longer_checks'] = what
                ctx.violation('correspondence:' + what, w, False,
                              'model and implementation differ (item sets / outcome) on grammar %r input %r lexer %s; '
                              'acceptance agrees with the derivability oracle' % (w.get('grammar'), w.get('text'), w.get('lexer')))
        ctx.extra['earley_runs_checked_in_coq'] = sum(len(g[2]) for g in groups)
        ctx.coq_cases_checked += sum(len(g[2]) for g in groups) - len(groups)
    for kind, fn, chunk, what in (('pred', 'predictions_check', 400, 'Cfg/Analysis.expand_rule vs Parser.predictions'),
                                  ('null', 'nullable_check', 400, 'Cfg/Analysis.nullable_set vs Parser.NULLABLE')):
        if not cases[kind]:
            continue
        bad, errs = ctx.coq_bad_indices('c01' + kind, IMPORTS, fn, cases[kind], chunk=chunk)
        for e in errs:
            ctx.violation('correspondence:coq-eval', {'no_longer_checks': what, 'error': e}, False, e[:300])
        for i in bad:
            w = dict(meta[kind][i])
            w['no_longer_checks'] = what
            ctx.violation('correspondence:' + what, w, False,
                          'model and implementation differ (%s) on grammar %r' % (kind, w.get('grammar')))


# fixed corpus: nullable chains needing held completions, hidden left recursion, unit cycles, ambiguity
CORPUS = [
    'start: a a\na: b b\nb: \n',
    'start: a start | \na: | "x"\n',
    'start: start start | "x" | \n',
    'start: a\na: b\nb: a | "x"\n',
    'start: a "x"\na: a "y" | \n',
    'start: "x" start "x" | "x"\n',
    'start: a b a\na: b | "x"\nb: a | \n',
    'start: a\na: a a | b\nb: "x" | c\nc: | "y" a\n',
    'start: b "x"\nb: c c c\nc: d d\nd: | "y"\n',
    'start: a "x" | a "y"\na: a "x" | a "y" | "x"\n',
]
CORPUS_EBNF = [
    'start: a b c\na: "x"?\nb: "y"?\nc: "z"?\n',
    'start: ("x" | "y")* "x"\n',
    'start: ["x"] ["x"]\n',                       # colliding optionals: the documented GrammarError
    'start: a+ b*\na: "x" | \nb: "y" a\n',
    'start: "x"~2..3 "y"\n',
]

EXOTIC = [
    # (key, grammar, text, lexers, terminal regexps for the oracle)
    (F7_KEY, 'start: X "b"\nX: /a|ab/\n', 'abb', ('dynamic', 'dynamic_complete')),
    (None, 'start: X "b"\nX: /ab|a/\n', 'abb', ('dynamic', 'dynamic_complete')),
    (None, 'start: X "b"\nX: /ab|a/\n', 'ab', ('dynamic_complete',)),
    (None, 'start: X "b"\nX: "a" | "ab"\n', 'abb', ('dynamic', 'dynamic_complete')),
    (None, 'start: X "b"\nX: "a" | "ab"\n', 'ab', ('dynamic_complete',)),
    (None, 'start: X "b"\nX: /a|ab/\n', 'ab', ('dynamic', 'dynamic_complete')),
]


def char_level_member(lark, text):
    """character-level derivability with terminals read as regular languages (re.fullmatch on every span)"""
    import re
    comp = Compiled(lark)
    tspans = {}
    for t in lark.terminals:
        if t.name not in comp.tid:
            continue
        rx = re.compile(t.pattern.to_regexp())
        sp = set()
        for i in range(len(text) + 1):
            for j in range(i + 1, len(text) + 1):
                if rx.fullmatch(text[i:j]):
                    sp.add((i, j))
        tspans[comp.tid[t.name]] = sp
    return member(comp.abs_rules, comp.start, len(text), tspans)


def run_exotic(ctx):
    for key, g, text, lexers in EXOTIC:
        for lexer in lexers:
            st, obj = build(g, lexer, None)
            if st != 'ok':
                ctx.violation('construct', {'grammar': g, 'lexer': lexer, 'ambiguity': None, 'mode': 'construct',
                                            'observed': st}, True, 'exotic grammar failed to build: %s %s' % (st, obj))
                continue
            want = char_level_member(obj, text)
            status, pos, log = run_parse(obj, text)
            got = status == 'accept'
            ctx.count('exotic', key=(g, lexer, text), nontrivial=True, lexer=lexer, outcome=status)
            if got != want:
                ctx.violation('language', {'grammar': g, 'lexer': lexer, 'ambiguity': None, 'text': text, 'mode': 'parse-regex',
                                           'expected_accept': want, 'observed': status}, True,
                              '%s %r although the grammar (terminals as regular languages) %s it'
                              % ('accepted' if got else 'rejected', text, 'does not derive' if got else 'derives'),
                              key=key)


# ---------------------------------------------------------------------------------------------
# text-level streams: the oracle is computed from the meaning of the grammar TEXT (props/earley_ignore_gen.py),
# not from lark's compiled rules / terminals
def check_text_grammar(ctx, rng, tg, stream, lexers, inputs):
    gtext = tg.render()
    from props import earley_ignore_gen as eig
    ambiguity = rng.choice([None, 'forest'])
    larks = {}
    for lexer in lexers:
        st, obj = build(gtext, lexer, ambiguity)
        ctx.count(stream + ':construct', key=(gtext, lexer), nontrivial=False, construct=st)
        if st == 'ok':
            larks[lexer] = obj
        else:
            ctx.violation('construct', {'grammar': gtext, 'lexer': lexer, 'ambiguity': ambiguity, 'mode': 'construct',
                                        'observed': '%s %s' % (st, obj)}, True,
                          'constructing the parser for a grammar of plain string terminals %s'
                          % ('did not terminate within the timeout' if st == 'hang' else 'raised %s %s' % (st, obj)))
    local_hangs = 0
    for text, why in inputs:
        if local_hangs >= 2 or ctx.extra.get('hangs', 0) >= 8:
            break
        want = {}
        for lexer, lk in larks.items():
            if lexer == 'basic':
                wkey = 'basic'
            else:
                wkey = 'complete' if (lexer == 'dynamic_complete' or tg.string_only()) else 'longest'
            if wkey not in want:
                want[wkey] = (eig.member_basic(tg, text) if wkey == 'basic'
                              else eig.member_dynamic(tg, text, complete=(wkey == 'complete')))
            expect = want[wkey]
            status, pos, log = run_parse(lk, text)
            if status == 'hang':
                status, pos, log = run_parse(lk, text, timeout=30.0)
            got = status == 'accept'
            ctx.count(stream, key=(gtext, lexer, text), nontrivial=len(text) >= 2, lexer=lexer, outcome=status,
                      input_kind=why)
            w = {'grammar': gtext, 'lexer': lexer, 'ambiguity': ambiguity, 'text': text, 'mode': 'parse-text',
                 'expected_accept': expect, 'observed': status}
            if status == 'hang':
                ctx.violation('hang', w, True, 'parse did not terminate within the timeout')
                ctx.extra['hangs'] = ctx.extra.get('hangs', 0) + 1
                local_hangs += 1
            elif status.startswith('other:') or status.startswith('UnexpectedInput:'):
                ctx.violation('exception-class', w, True,
                              'parse raised %s (neither a result nor UnexpectedEOF/Token/Characters)' % status)
            elif got != expect:
                ctx.violation('language', w, True,
                              '%s %r although the grammar text (%s) %s it'
                              % ('accepted' if got else 'rejected (%s)' % status, text,
                                 'tokens by longest literal' if lexer == 'basic' else 'characters, ignored strings between tokens',
                                 'does not derive' if got else 'derives'))
    if inputs:
        ctx.sample({'stream': stream, 'grammar': gtext, 'inputs': len(inputs), 'example_input': inputs[len(inputs) // 2][0]})


def run_text_streams(ctx, rng, wide):
    from props import earley_ignore_gen as eig
    # several overlapping %ignore strings: dynamic lexers, character-level oracle with IGN* between tokens
    for _ in range(ctx.scale(40, 400) * wide):
        tg = eig.gen_ignore_grammar(rng)
        inputs = eig.gen_inputs(rng, tg, exhaustive_len=ctx.scale(5, 6), n_sent=ctx.scale(30, 60), n_mut=ctx.scale(40, 80))
        check_text_grammar(ctx, rng, tg, 'multi-ignore', LEXERS, inputs)
    # anonymous literals vs named terminals occupying the literals' auto-names: all lexers
    for _ in range(ctx.scale(60, 500) * wide):
        tg = eig.gen_anon_grammar(rng)
        inputs = eig.gen_inputs(rng, tg, exhaustive_len=1, n_sent=ctx.scale(20, 40), n_mut=ctx.scale(15, 40),
                                n_concat=ctx.scale(25, 60), max_sent_len=12)
        lexers = LEXERS if tg.string_only() else ('dynamic', 'dynamic_complete')
        check_text_grammar(ctx, rng, tg, 'anon-names', lexers, inputs)


# ---------------------------------------------------------------------------------------------
# dynamic lexers against the model Earley/Dyn.v: the regex engine's answers are recorded from the actual calls of
# the parser's term_matcher and handed to the model as oracle tables
DYN_IMPORTS = 'From LV Require Import Cfg.Grammar Cfg.Analysis Earley.Spec Earley.Alg Earley.AlgCheck Earley.Dyn Earley.DynCheck.'


class DynCompiled(Compiled):
    def __init__(self, lark):
        Compiled.__init__(self, lark)
        self.ignore_ids = []
        for name in lark.ignore_tokens:
            self.ignore_ids.append(self.tid.setdefault(name, len(self.tid)))


def run_dyn_parse(comp, text, timeout=3.0):
    """parse with the dynamic lexer recording every call of term_matcher: -> status, pos, log, rmatch, rtrunc"""
    p = comp.parser
    orig = p.term_matcher
    rmatch, rtrunc, last = {}, {}, [None]
    bad = []

    def rec(term, txt, index=None):
        if index is not None:
            m = orig(term, txt, index)
            last[0] = (term.name, index)
            if term.name not in comp.tid:
                bad.append(term.name)
            else:
                rmatch[(comp.tid[term.name], index)] = None if m is None else m.end()
            return m
        m = orig(term, txt)
        name, i = last[0] if last[0] else (None, None)
        if name != term.name or term.name not in comp.tid:
            bad.append(term.name)
        else:
            rtrunc[(comp.tid[name], i, i + len(txt))] = None if m is None else i + m.end()
        return m
    p.term_matcher = rec
    try:
        status, pos, log = run_parse(comp.lark, text, timeout)
    finally:
        p.term_matcher = orig
    return status, pos, log, rmatch, rtrunc, bad


def oracle_tables(comp, text):
    """what the regex engine answers: rmatch[(t, i)] = end of match(t, text, i); rtrunc[(t, i, lim)] = end of
    match(t, text[i:lim]) for every proper truncation of that match (the calls complete_lex may make)"""
    from lark.grammar import Terminal
    matcher = comp.parser.term_matcher
    rm, rt = {}, {}
    for name, t in comp.tid.items():
        term = Terminal(name)
        for i in range(len(text)):
            m = matcher(term, text, i)
            if m is None:
                continue
            rm[(t, i)] = m.end()
            sm = m.group(0)
            for j in range(1, len(sm)):
                m2 = matcher(term, sm[:-j])
                if m2 is not None:
                    rt[(t, i, i + len(sm) - j)] = i + m2.end()
    return rm, rt


def check_dyn_grammar(ctx, rng, gtext, inputs, cases, meta, oracle=None):
    """oracle(text, complete) -> bool | None: optional text-level membership (string-only grammars)"""
    comps = {}
    for lexer in ('dynamic', 'dynamic_complete'):
        st, obj = build(gtext, lexer, 'forest')
        ctx.count('dyn-model:construct', key=(gtext, lexer), nontrivial=False, construct=st)
        if st == 'ok':
            comps[lexer] = DynCompiled(obj)
        else:
            ctx.violation('construct', {'grammar': gtext, 'lexer': lexer, 'ambiguity': 'forest', 'mode': 'construct',
                                        'observed': '%s %s' % (st, obj)}, True,
                          'constructing the parser %s' % ('did not terminate' if st == 'hang' else 'raised %s %s' % (st, obj)))
    for lexer, comp in comps.items():
        runs, rmeta = [], []
        for text, why in inputs:
            if len(text) >= 60:
                continue
            status, pos, log, rmatch, rtrunc, bad = run_dyn_parse(comp, text)
            w = {'grammar': gtext, 'lexer': lexer, 'ambiguity': 'forest', 'text': text, 'mode': 'parse-dyn',
                 'observed': status}
            tr = canon_trace(comp, log)
            ctx.count('dyn-model', key=(gtext, lexer, text), nontrivial=len(log) >= 2, lexer=lexer, outcome=status,
                      input_kind=why)
            if oracle is not None:
                want = oracle(text, lexer == 'dynamic_complete')
                if want is not None:
                    w['expected_accept'] = want
                    if status in ('accept', 'UnexpectedEOF', 'UnexpectedCharacters') and (status == 'accept') != want:
                        ctx.violation('language', w, True, '%s %r although the grammar text %s it'
                                      % ('accepted' if status == 'accept' else 'rejected', text,
                                         'derives' if want else 'does not derive'))
                        continue
            if status == 'hang':
                ctx.violation('hang', w, True, 'parse did not terminate within the timeout')
                ctx.extra['hangs'] = ctx.extra.get('hangs', 0) + 1
                break
            if status not in ('accept', 'UnexpectedEOF', 'UnexpectedCharacters'):
                ctx.violation('exception-class', w, True, 'dynamic lexer raised %s' % status)
                continue
            if tr is None or bad:
                ctx.violation('correspondence:observation-shape', {'no_longer_checks': 'call sequence of xearley', **w},
                              False, 'unexpected predict_and_complete / term_matcher call sequence (%s)' % bad[:3])
                continue
            ncols = len(log)
            code = 0 if status == 'accept' else 1 if status == 'UnexpectedEOF' else 2 + (ncols - 1)
            if status == 'UnexpectedCharacters' and pos is not None and pos != ncols - 1:
                ctx.violation('correspondence:error-position', {'no_longer_checks': 'error position', **w}, False,
                              'UnexpectedCharacters at %s, scan(%d) raised' % (pos, ncols - 1))
            keys = [k for (_i, _c, _s, k) in log[1:]]
            # the oracle tables are computed independently of which calls the parser made (so that the model, not
            # the code, decides where the engine is consulted); the recorded calls must agree with them
            full_m, full_t = oracle_tables(comp, text)
            if any(full_m.get(k) != v for k, v in rmatch.items()) or any(full_t.get(k) != v for k, v in rtrunc.items()):
                ctx.violation('correspondence:oracle-recording', {'no_longer_checks': 'recorded term_matcher answers', **w},
                              False, 'term_matcher answers recorded during the parse differ from direct calls')
                continue
            rmatch, rtrunc = full_m, full_t
            mt = sorted((t * 64 + i) * 64 + e for (t, i), e in rmatch.items() if e is not None)
            tt = sorted(((t * 64 + i) * 64 + lim) * 64 + e for (t, i, lim), e in rtrunc.items() if e is not None)
            nl = lambda xs: '(' + L(['%d' % x for x in xs], 'N') + ')%N'
            term = '(%d, %s, %s, %s, %d, %s, %s, %s)' % (
                len(text), 'true' if lexer == 'dynamic_complete' else 'false', nl(mt), nl(tt), code,
                coq_sets(tr[0]), coq_sets(tr[1]), '(' + L([L(['%d' % k for k in ks], 'N') for ks in keys], '(list N)') + ')%N')
            if term not in runs:
                runs.append(term)
                rmeta.append(w)
        if runs:
            cases['dyn'].append((comp.coq_rules(), comp.start, L(['%d' % x for x in comp.ignore_ids], 'nat'), runs))
            meta['dyn'].append(rmeta)


def dyn_group_term(g):
    return '(%s, %d, %s, %s)' % (g[0], g[1], g[2], L(g[3]))


def run_dyn_stream(ctx, rng, wide, cases, meta):
    from props import earley_ignore_gen as eig
    cases['dyn'], meta['dyn'] = [], []
    n_str, n_re = ctx.scale(6, 60) * wide, ctx.scale(8, 80) * wide
    n_in = ctx.scale(18, 40)
    for k in range(n_str + n_re):
        tg = eig.gen_ignore_grammar(rng) if k < n_str else eig.gen_regex_grammar(rng)
        inputs = eig.gen_inputs(rng, tg, exhaustive_len=2, n_sent=8, n_mut=8, max_sent_len=7)
        if len(inputs) > n_in:
            inputs = inputs[:5] + rng.sample(inputs[5:], n_in - 5)
        oracle = (lambda text, complete, tg=tg: eig.member_dynamic(tg, text, complete=True)) if tg.string_only() and not tg.re_ignores else None
        check_dyn_grammar(ctx, rng, tg.render(), inputs, cases, meta, oracle)


def run_dyn_coq(ctx, cases, meta):
    what = 'Earley/Dyn.dyn_parse vs xearley.Parser (item sets per column, delayed_matches keys, outcome; recorded regex answers)'
    groups = cases.get('dyn') or []
    if not groups:
        return
    bad, errs = ctx.coq_bad_indices('c01dyn', DYN_IMPORTS, 'dyn_check', [dyn_group_term(g) for g in groups], chunk=3)
    for e in errs:
        ctx.violation('correspondence:coq-eval', {'no_longer_checks': what, 'error': e}, False, e[:300])
    single, smeta = [], []
    for i in bad[:12]:
        g = groups[i]
        for t, w in zip(g[3], meta['dyn'][i]):
            single.append(dyn_group_term((g[0], g[1], g[2], [t])))
            smeta.append(w)
    if single:
        bad2, errs2 = ctx.coq_bad_indices('c01dyn1', DYN_IMPORTS, 'dyn_check', single, chunk=30)
        for e in errs2:
            ctx.violation('correspondence:coq-eval', {'no_longer_checks': what, 'error': e}, False, e[:300])
        for i in bad2:
            w = dict(smeta[i])
            w['no_longer_checks'] = what
            ctx.violation('correspondence:' + what, w, False,
                          'dynamic-lexer model and implementation differ on grammar %r input %r lexer %s'
                          % (w.get('grammar'), w.get('text'), w.get('lexer')))
    ctx.extra['dyn_runs_checked_in_coq'] = sum(len(g[3]) for g in groups)
    ctx.coq_cases_checked += sum(len(g[3]) for g in groups) - len(groups)


# ---------------------------------------------------------------------------------------------
# construct stream: EBNF-level source grammars; expectation (documented GrammarError or not) and language from the
# independent expander props/ebnf_source_gen.py
def check_source_grammar(ctx, rng, g, maxlen, origin, dist_cases=None, dist_seen=None):
    from props import ebnf_source_gen as esg
    gtext = esg.render(g)
    exp = esg.Expander(g)
    coll = exp.collisions()
    expected = 'GrammarError' if coll else 'ok'
    larks = {}
    for lexer in LEXERS:
        _DIST['on'] = dist_cases is not None and lexer == 'basic'
        del _DIST['log'][:]
        try:
            st, obj = build(gtext, lexer, 'forest')
        finally:
            _DIST['on'] = False
        if dist_cases is not None and lexer == 'basic':
            for before, after in _DIST['log']:
                term = dist_case(before, after)
                if term is not None and term not in dist_seen:
                    dist_seen.add(term)
                    dist_cases.append((term, gtext))
        ctx.count('construct:build', key=(gtext, lexer), nontrivial=True, construct=st, expected_construct=expected,
                  origin=origin)
        w = {'grammar': gtext, 'lexer': lexer, 'ambiguity': 'forest', 'mode': 'construct-source',
             'expected_construct': expected, 'observed': '%s %s' % (st, str(obj)[:160] if st != 'ok' else '')}
        if st == 'ok':
            larks[lexer] = obj
            if expected != 'ok':
                ctx.violation('correspondence:documented-GrammarError',
                              {'no_longer_checks': 'which grammars raise the documented GrammarError', **w}, False,
                              'the expander predicts colliding optionals %s but the parser was constructed' % (coll[:2],))
        elif st == 'GrammarError':
            if expected == 'ok':
                ctx.violation('construct', w, True,
                              'constructing the parser for a well-formed grammar whose optional items do not collide '
                              'raised GrammarError: %s' % obj)
            elif 'Rules defined twice' not in str(obj):
                ctx.violation('construct', w, True, 'GrammarError other than the documented one: %s' % obj)
        else:
            ctx.violation('construct', w, True, 'constructing the parser %s'
                          % ('did not terminate within the timeout' if st == 'hang' else 'raised %s' % obj))
    if expected != 'ok' or not larks:
        return
    rules = exp.bnf()
    alphabet = esg.alphabet(g) or ['a']
    level, texts = [''], ['']
    for _ in range(maxlen):
        level = [s + c for s in level for c in alphabet]
        texts += level
    hangs = 0
    for text in texts:
        tspans = {}
        for k, ch in enumerate(text):
            tspans.setdefault(ch, set()).add((k, k + 1))
        want = member(rules, 'start', len(text), tspans)
        for lexer, lk in larks.items():
            status, pos, log = run_parse(lk, text)
            if status == 'hang':
                status, pos, log = run_parse(lk, text, timeout=30.0)
            ctx.count('construct:language', key=(gtext, lexer, text), nontrivial=len(text) >= 2, lexer=lexer, outcome=status)
            w = {'grammar': gtext, 'lexer': lexer, 'ambiguity': 'forest', 'text': text, 'mode': 'parse-source',
                 'expected_accept': want, 'observed': status}
            if status == 'hang':
                ctx.violation('hang', w, True, 'parse did not terminate within the timeout')
                ctx.extra['hangs'] = ctx.extra.get('hangs', 0) + 1
                hangs += 1
            elif status.startswith('other:') or status.startswith('UnexpectedInput:'):
                ctx.violation('exception-class', w, True, 'parse raised %s' % status)
            elif (status == 'accept') != want:
                ctx.violation('language', w, True, '%s %r although the source grammar (groups distributed, operators '
                              'expanded independently) %s it' % ('accepted' if status == 'accept' else 'rejected (%s)' % status,
                                                                 text, 'derives' if want else 'does not derive'))
        if hangs >= 2 or ctx.extra.get('hangs', 0) >= 8:
            break


def run_construct_stream(ctx, wide, dist_cases=None):
    """seed independent: a fixed corpus and a random family drawn from a fixed generator seed"""
    import random
    from props import ebnf_source_gen as esg
    rng = random.Random(20240923)
    maxlen = ctx.scale(4, 5)
    seen = set()
    if dist_cases is not None:
        patch_simplify()
    for g in esg.CORPUS:
        check_source_grammar(ctx, rng, g, maxlen, 'corpus', dist_cases, seen)
    for _ in range(ctx.scale(45, 500) * wide):
        check_source_grammar(ctx, rng, esg.gen_source_grammar(rng), maxlen, 'random', dist_cases, seen)
    ctx.sample({'stream': 'construct', 'grammar': esg.render(esg.CORPUS[0]),
                'expander': [(n, [[str(x[1]) if x != esg.MARK else '<None>' for x in s] for s in seqs])
                             for n, seqs in esg.Expander(esg.CORPUS[0]).flat.items()]})


# ---------------------------------------------------------------------------------------------
# SimplifyRule_Visitor against Cfg/AnalysisDistribute.flat: the rule body before the visitor (groups still nested) and
# the alternatives after it, captured at the outermost visit() calls of Grammar.compile
DIST_IMPORTS = 'From LV Require Import Cfg.Grammar Cfg.AnalysisDistribute.'
_DIST = {'on': False, 'depth': 0, 'log': []}


def patch_simplify():
    from lark import load_grammar as lg
    if getattr(lg.SimplifyRule_Visitor.visit, '_lv', False):
        return
    orig = lg.SimplifyRule_Visitor.visit

    def visit(self, tree):
        if not _DIST['on'] or _DIST['depth'] > 0:
            return orig(self, tree)
        import copy
        before = copy.deepcopy(tree)
        _DIST['depth'] += 1
        try:
            r = orig(self, tree)
        finally:
            _DIST['depth'] -= 1
        _DIST['log'].append((before, tree))
        return r
    visit._lv = True
    lg.SimplifyRule_Visitor.visit = visit


def dist_case(before, after):
    """Coq term (gexp, observed alternatives) or None when the rule uses something outside the model (aliases)"""
    from lark.tree import Tree
    from lark.grammar import Symbol
    ids = {}

    def sym(s):
        key = (s.is_term, s.name)
        if key not in ids:
            ids[key] = len(ids)
        return '%s %d' % ('T' if s.is_term else 'NT', ids[key])

    def conv(t):
        if isinstance(t, Tree):
            if t.data == 'expansions':
                return 'GAlt %s' % L(['(%s)' % conv(c) for c in t.children], 'gexp')
            if t.data == 'expansion':
                return 'GSeq %s' % L(['(%s)' % conv(c) for c in t.children], 'gexp')
            raise ValueError(t.data)
        if isinstance(t, Symbol):
            return 'GSym (%s)' % sym(t)
        raise ValueError(type(t).__name__)
    try:
        e = conv(before)
        if not (isinstance(after, Tree) and after.data == 'expansions'):
            return None
        obs = []
        for alt in after.children:
            if not (isinstance(alt, Tree) and alt.data == 'expansion' and all(isinstance(x, Symbol) for x in alt.children)):
                return None
            obs.append(L([sym(x) for x in alt.children], 'symbol'))
        return '(%s, %s)' % (e, L(obs, '(list symbol)'))
    except ValueError:
        return None


def run_dist_coq(ctx, cases):
    what = 'Cfg/AnalysisDistribute.flat vs load_grammar.SimplifyRule_Visitor (flat alternatives of every rule body, as a duplicate-free set)'
    if not cases:
        return
    terms = [c[0] for c in cases]
    bad, errs = ctx.coq_bad_indices('c01dist', DIST_IMPORTS, 'distribute_check', terms, chunk=35)
    for e in errs:
        ctx.violation('correspondence:coq-eval', {'no_longer_checks': what, 'error': e}, False, e[:300])
    for i in bad[:10]:
        ctx.violation('correspondence:' + what, {'no_longer_checks': what, 'grammar': cases[i][1], 'mode': 'construct-source',
                                                 'expected_construct': 'ok'}, False,
                      'the alternatives lark compiled for a rule of %r differ from distribution + dedup of its body' % cases[i][1])
    ctx.extra['distribute_cases_checked_in_coq'] = len(terms)


def correspond(ctx):
    patch_lark()
    rng = ctx.rng
    wide = 3 if ctx.widen else 1
    cases = {'earley': [], 'pred': [], 'null': []}
    meta = {'earley': [], 'pred': [], 'null': []}
    seen = set()
    t0 = time.time()
    n_cfg = ctx.scale(40, 900) * wide
    n_ebnf = ctx.scale(12, 150) * wide
    n_ign = ctx.scale(10, 100) * wide
    n_exh, n_extra = ctx.scale(24, 50), ctx.scale(8, 16)
    for gtext in CORPUS:
        check_grammar(ctx, rng, gtext, 'cfg', cases, meta, seen, n_exh * 2, n_extra)
    for gtext in CORPUS_EBNF:
        check_grammar(ctx, rng, gtext, 'ebnf', cases, meta, seen, n_exh * 2, n_extra, exp_build='maybe-GrammarError')
    for _ in range(n_cfg):
        names, chars, g = gen_cfg(rng)
        check_grammar(ctx, rng, render(rng, names, chars, g), 'cfg', cases, meta, seen, n_exh, n_extra)
    for _ in range(n_ebnf):
        names, chars, g = gen_cfg(rng, ebnf=True)
        check_grammar(ctx, rng, render(rng, names, chars, g), 'ebnf', cases, meta, seen, n_exh, n_extra,
                      exp_build='maybe-GrammarError')
    for _ in range(n_ign):
        names, chars, g = gen_cfg(rng)
        check_grammar(ctx, rng, render(rng, names, chars, g), 'ignore', cases, meta, seen, n_exh // 2, n_extra,
                      ignore=True)
    run_text_streams(ctx, rng, wide)
    dist_cases = []
    run_construct_stream(ctx, wide, dist_cases)
    run_dyn_stream(ctx, rng, wide, cases, meta)
    ctx.extra['lark_seconds'] = round(time.time() - t0, 1)
    run_exotic(ctx)
    t1 = time.time()
    from concurrent.futures import ThreadPoolExecutor
    with ThreadPoolExecutor(max_workers=3) as ex:      # the two model comparisons are independent
        f1 = ex.submit(run_coq, ctx, cases, meta)
        f2 = ex.submit(run_dyn_coq, ctx, cases, meta)
        f3 = ex.submit(run_dist_coq, ctx, dist_cases)
        f1.result()
        f2.result()
        f3.result()
    ctx.extra['coq_seconds'] = round(time.time() - t1, 1)


def replay(ctx, case):
    w = case['witness']
    if 'grammar' not in w:
        return False
    patch_lark()
    st, obj = build(w['grammar'], w.get('lexer', 'basic'), w.get('ambiguity'))
    if w.get('mode') == 'construct-source':
        if w.get('expected_construct') == 'ok':
            return st != 'ok'
        return st != 'ok' and not (st == 'GrammarError' and 'Rules defined twice' in str(obj))
    if w.get('mode') == 'construct':
        return st != 'ok' and not (st == 'GrammarError' and 'Rules defined twice' in str(obj))
    if st != 'ok':
        return True
    status, pos, log = run_parse(obj, w['text'], timeout=30.0)
    if status == 'hang' or status.startswith('other:') or status.startswith('UnexpectedInput:'):
        return True
    if 'expected_accept' in w:
        return (status == 'accept') != bool(w['expected_accept'])
    return False
