"""C09 - Repetition and optional operators match exactly the stated counts."""
from lib import coq_list as L, coq_Z as Z

THEOREMS = ['C09_small_factors_spec', 'C09_repeat', 'C09_repeat_language', 'C09_opt', 'C09_plus', 'C09_star',
            'C09_language_of_counts', 'C09_helpers_inlined', 'C09_example',
            'C09_compile_preserves_language', 'C09_compile_pruned_preserves_language', 'C09_compile_total',
            'C09_compile_example', 'C09_compile_example_sentence',
            'C09_terminal_repeat_exact', 'C09_terminal_exact_exact', 'C09_terminal_opt_exact', 'C09_terminal_star_exact',
            'C09_terminal_plus_exact', 'C09_terminal_definition_exact', 'C09_terminal_match_sound',
            'C09_terminal_match_none', 'C09_terminal_regexp_string', 'C09_re_match_sound', 'C09_re_match_none',
            'C09_re_fullmatch', 'C09_terminal_example']
GEN_DEPS = ['Consts', 'SmallFactors', 'RegexHoles']
RULE = ('(a) small_factors(n, mf) for sampled n <= 2000 and mf in 3..9 against the regenerated Gallina function; '
        '(b) EBNF_to_BNF._generate_repeats(x, n, m) helper-rule structure (helpers inlined to a tree) against '
        'Ebnf/Repeat.generate_repeats for sampled 0<=n<=m incl. all m in 46..54; (c) end-to-end: grammars with '
        'x~n..m / ? / * / + for x a terminal, rule, group, template argument, and inside terminals, under Earley and '
        'LALR, k in {n-1,n,n+1,mid,m-1,m,m+1}: acceptance == (n<=k<=m) and k children in order; '
        '(e) compile-structure: random nested rule bodies (depth <= 3, sequences, alternations, ? * + ~n ~n..m incl. '
        'ranges >= 50, a fixed corpus of sharing / nesting shapes, and the shared-operand family: one atom / sequence '
        'group / 2-3-alternative group under two or three different operators): the rules lark compiles (Grammar.compile) equal '
        'Ebnf/Compile.compile_pruned up to a renaming of helper rules, alternatives in order; compile-language: '
        'acceptance by Earley of all words up to length 5 equals the stated-count meaning of the expression; '
        'shared-operand: the same operand under 2-3 operators in one rule and across rules, both orders: acceptance of '
        'every combination of 0..7 occurrences per site equals the count oracle. '
        'nested-operators: operator over group over operator, 13 inner x 6 outer operators incl. factored repeats '
        '(N >= 50) as group bodies, plain / double group / trailing symbol / sequence operand / three levels: compiled '
        'rules vs the model and acceptance of 0-3 blocks with inner counts at the bounds and one off; '
        'terminal-model: terminal definitions (operators x operand kinds, ordered pairs of alternatives with prefix '
        'relations, every regexp-special character in a literal, terminal references; random nested definitions in the '
        'thorough tier): lark\'s own terminal tree -> Re/TermPattern.compile must give lark\'s Pattern kind, value, '
        'to_regexp(), min/max width; re.match end / re.fullmatch on lark\'s regexp == Re/Lang.bt_match / bt_fullmatch on '
        'sampled and near-miss inputs (n-1, m+1 occurrences); '
        'non-trivial = distinct (n,m) with m >= 2 / distinct (grammar,k)')
TRUSTED_BASE = ['hand model Re/Lang.bt of Python re (sre) matching order on the AST of the compiled regexp, and of sre_parse getwidth '
                '(Re/Width.v): tied by comparison of re.match/re.fullmatch/min_width/max_width on generated inputs; re.escape '
                'is modelled by hand (Re/Syntax.re_escape); TerminalTreeToPattern format strings and sort key regenerated '
                '(Gen/RegexHoles.v), its shape pinned by translator/gen_regex.py',
                'hand model Ebnf/Compile.v of EBNF_to_BNF (expr, rules_cache, _add_rule, _add_recurse_rule, _add_repeat_rule, '
                '_add_repeat_opt_rule, _generate_repeats) + SimplifyRule_Visitor + unused-rule filter, tied by comparison '
                'of the compiled rule sets up to helper renaming',
                'hand model Ebnf/Repeat.v of _add_repeat_rule/_add_repeat_opt_rule/_generate_repeats/expr (tied by '
                'structural comparison of helper rules); small_factors and thresholds regenerated']
ASSUMPTIONS = ['stream (b): helper rules are compared after inlining (rule cache sharing is not observable in the tree)',
               'stream (e): helper numbering is compared up to renaming (the model transforms depth-first, lark level by '
               'level); aliases, maybe_placeholders, keep_all_tokens and templates are outside the compiler model']
IMPORTS = 'From LV Require Import Base.Prelude Gen.Consts Gen.SmallFactors Ebnf.Repeat.'


class TooLarge(Exception):
    pass


def to_rexp(node, rules, atom, stack=(), budget=None):
    from lark.tree import Tree
    from lark.grammar import NonTerminal
    if budget is None:
        budget = [200000]
    budget[0] -= 1
    if budget[0] < 0:
        raise TooLarge('inlined helper-rule tree exceeds 200000 nodes')
    if isinstance(node, Tree):
        kids = [to_rexp(c, rules, atom, stack, budget) for c in node.children]
        if node.data == 'expansions':
            return 'alt_of ' + L(kids)
        if node.data == 'expansion':
            return 'seq_of ' + L(kids)
        raise ValueError('unexpected tree ' + str(node.data))
    if node == atom:
        return 'Atom'
    if isinstance(node, NonTerminal) and node.name in rules:
        tree = rules[node.name]
        # recursive helper  r : e | r e
        if (tree.data == 'expansions' and len(tree.children) == 2
                and len(tree.children[0].children) == 1 and len(tree.children[1].children) == 2
                and tree.children[1].children[0] == node
                and tree.children[0].children[0] == tree.children[1].children[1]):
            return '(Rec %s)' % to_rexp(tree.children[0].children[0], rules, atom, stack, budget)
        if node.name in stack:
            raise ValueError('unexpected recursion in helper ' + node.name)
        return '(%s)' % to_rexp(tree, rules, atom, stack + (node.name,), budget)
    raise ValueError('unexpected symbol %r' % (node,))


def impl_repeat(mn, mx):
    from lark.load_grammar import EBNF_to_BNF
    from lark.grammar import Terminal
    e = EBNF_to_BNF()
    x = Terminal('X')
    t = e._generate_repeats(x, mn, mx)
    rules = {n: tr for n, tr, _ in e.new_rules}
    names = list(rules)
    try:
        return '(%s)' % to_rexp(t, rules, x), names
    except TooLarge:
        return None, names


def count_semantics(mn, mx, kmax):
    """direct evaluation of the property on the implementation's compiled rules: the set of k with cnt e k,
    computed bottom-up over the helper rules (independent of the Coq model)."""
    from lark.load_grammar import EBNF_to_BNF
    from lark.grammar import Terminal, NonTerminal
    from lark.tree import Tree
    e = EBNF_to_BNF()
    x = Terminal('X')
    t = e._generate_repeats(x, mn, mx)
    rules = {n: tr for n, tr, _ in e.new_rules}
    memo = {}

    def cs(node):
        if isinstance(node, Tree):
            if node.data == 'expansions':
                s = set()
                for c in node.children:
                    s |= cs(c)
                return s
            s = {0}
            for c in node.children:
                cc = cs(c)
                s = {i + j for i in s for j in cc if i + j <= kmax}
            return s
        if node == x:
            return {1}
        if node.name not in memo:
            memo[node.name] = cs(rules[node.name])
        return memo[node.name]
    return cs(t)


def e2e_cases(rng, ctx):
    """(grammar text, builder of input for k, n, m) tuples"""
    out = []
    pairs = [(0, 0), (0, 1), (1, 1), (2, 5), (0, 3), (3, 3), (7, 7), (0, 49), (49, 49), (50, 50), (49, 50), (0, 50),
             (3, 60), (51, 51), (10, 75), (0, 100), (64, 64), (100, 130)]
    extra = ctx.scale(8, 60)
    for _ in range(extra):
        m = rng.choice([rng.randint(0, 12), rng.randint(40, 70), rng.randint(70, 260)])
        n = rng.choice([m, rng.randint(0, m), max(0, m - rng.randint(0, 6)), 0])
        pairs.append((n, m))
    for (n, m) in pairs:
        rep = '~%d' % n if n == m and rng.random() < 0.7 else '~%d..%d' % (n, m)
        kind = rng.choice(['term', 'rule', 'group', 'template', 'interm', 'altgroup', 'altgroup'])
        if kind == 'altgroup' and 6 < m < 50:
            kind = 'group'     # lark distributes the alternation over all copies: 2^m alternatives in the unfactored scheme
        if kind == 'term':
            g = 'start: X%s\nX: "x"\n' % rep
            unit, per = 'x', 1
        elif kind == 'rule':
            g = 'start: a%s\na: "x"\n' % rep
            unit, per = 'x', 1
        elif kind == 'group':
            g = 'start: (X Y)%s\nX: "x"\nY: "y"\n' % rep
            unit, per = 'xy', 2
        elif kind == 'altgroup':
            # a group containing an alternation: every occurrence may pick its own alternative
            g = 'start: (X | Y)%s\nX: "x"\nY: "y"\n' % rep
            unit, per = 'xy', 'mix'
        elif kind == 'template':
            g = 'start: _rep{X}\n_rep{t}: t%s\nX: "x"\n' % rep
            unit, per = 'x', 1
        else:
            g = 'start: T\nT: "x"%s "!"\n' % rep
            unit, per = 'x', None
        out.append((g, unit, per, n, m, kind))
    for op, lo, hi in (('?', 0, 1), ('*', 0, None), ('+', 1, None)):
        for kind in ('term', 'rule', 'group', 'interm'):
            if kind == 'term':
                g, unit, per = 'start: X%s\nX: "x"\n' % op, 'x', 1
            elif kind == 'rule':
                g, unit, per = 'start: a%s\na: "x"\n' % op, 'x', 1
            elif kind == 'group':
                g, unit, per = 'start: (X Y)%s\nX: "x"\nY: "y"\n' % op, 'xy', 2
            else:
                g, unit, per = 'start: T\nT: "x"%s "!"\n' % op, 'x', None
            out.append((g, unit, per, lo, hi, kind + op))
    return out


def run_e2e(ctx, g, unit, per, n, m, kind, parsers=('earley', 'lalr')):
    from lark import Lark
    from lark.exceptions import UnexpectedInput
    ks = {n - 1, n, n + 1, 0, 1}
    if m is not None:
        ks |= {m - 1, m, m + 1, (n + m) // 2}
    else:
        ks |= {2, 3, 17}
    ks = sorted(k for k in ks if k >= 0)
    for parser in parsers:
        try:
            p = Lark(g, parser=parser)
        except Exception as ex:   # construction must succeed for these grammars
            ctx.violation('e2e-construct', {'grammar': g, 'parser': parser, 'error': repr(ex)[:300]}, True,
                          'constructing the parser failed: %r' % (ex,), key=None)
            return
        for k in ks:
            if per == 'mix':
                # k occurrences, each freely x or y (mixed: different alternatives in different occurrences)
                text = ''.join('xy'[(i * 7 + k) % 3 % 2] for i in range(k))
            else:
                text = unit * k + ('!' if per is None else '')
            expect = (n <= k) and (m is None or k <= m)
            try:
                tree = p.parse(text)
                got = True
            except UnexpectedInput:
                got = False
                tree = None
            ctx.count('e2e', key=(g, parser, k), kind=kind, parser=parser, accepted=got)
            bad = None
            if got != expect:
                bad = 'k=%d occurrences %s but bounds are %s..%s' % (k, 'accepted' if got else 'rejected', n, m)
            elif got and per == 'mix':
                if [str(c) for c in tree.children] != list(text):
                    bad = 'k=%d: children %s are not the %d occurrences in order' % (k, [str(c) for c in tree.children][:8], k)
            elif got and per is not None:
                ch = tree.children
                names = [getattr(c, 'data', None) or getattr(c, 'type', None) for c in ch]
                if len(ch) != k * per:
                    bad = 'k=%d: %d children, expected %d' % (k, len(ch), k * per)
                elif any(str(nm).startswith('_') for nm in names):
                    bad = 'helper node visible in the tree: %s' % names[:6]
                elif per == 2 and [str(c) for c in ch] != ['x', 'y'] * k:
                    bad = 'children out of order'
            if bad:
                ctx.violation('e2e-count', {'grammar': g, 'parser': parser, 'k': k, 'text': text, 'n': n, 'm': m}, True, bad)



# --- (d) operators inside terminals: compiled regexp vs an independent matcher of the expression tree ---------
SPECIAL = 'ab()[]|.*+?-^$xy{}'


def gen_texpr(rng, depth=0, alphabet=None):
    if depth == 0 and alphabet is None and rng.random() < 0.35:
        # operator applied to a sequence of alternation groups over regexp-special characters
        ab = rng.choice(['()', '()[]', '[]|', '(){}', '\\\\()'])
        groups = [('alt', [('lit', rng.choice(ab)) for _ in range(rng.randint(2, 3))]) for _ in range(rng.randint(2, 3))]
        if rng.random() < 0.5:
            groups[0] = ('alt', [('lit', '('), ('lit', rng.choice(ab))])
            groups[-1] = ('alt', [('lit', ')'), ('lit', rng.choice(ab))])
        lo = rng.randint(0, 2)
        return rng.choice([('rep', ('seq', groups), lo, lo + rng.randint(0, 2)), ('rep', ('seq', groups), 1, None),
                           ('seq', [('rep', ('seq', groups), 0, 1), ('lit', 'x')])])
    r = rng.random()
    if depth >= 3 or r < 0.35:
        n = rng.randint(1, 2)
        return ('lit', ''.join(rng.choice(SPECIAL) for _ in range(n)))
    if r < 0.55:
        return ('seq', [gen_texpr(rng, depth + 1) for _ in range(rng.randint(2, 3))])
    if r < 0.75:
        return ('alt', [gen_texpr(rng, depth + 1) for _ in range(rng.randint(2, 3))])
    op = rng.choice(['?', '*', '+', '~'])
    e = gen_texpr(rng, depth + 1)
    if op == '~':
        lo = rng.randint(0, 3)
        hi = lo if rng.random() < 0.4 else lo + rng.randint(0, 2)
        return ('rep', e, lo, hi)
    return ('rep', e, 0 if op in '?*' else 1, 1 if op == '?' else None)


def render_texpr(e, top=False):
    k = e[0]
    if k == 'lit':
        return '"%s"' % e[1].replace('\\', '\\\\').replace('"', '\\"')
    if k == 'seq':
        return '(' + ' '.join(render_texpr(x) for x in e[1]) + ')'
    if k == 'alt':
        return '(' + ' | '.join(render_texpr(x) for x in e[1]) + ')'
    _, x, lo, hi = e
    inner = render_texpr(x)
    if x[0] == 'rep':
        inner = '(' + inner + ')'
    if hi is None:
        return '%s%s' % (inner, '*' if lo == 0 else '+')
    if (lo, hi) == (0, 1):
        return inner + '?'
    return '%s~%d' % (inner, lo) if lo == hi else '%s~%d..%d' % (inner, lo, hi)


def ends(e, s, i):
    """set of j such that e matches s[i:j]"""
    k = e[0]
    if k == 'lit':
        return {i + len(e[1])} if s.startswith(e[1], i) else set()
    if k == 'seq':
        cur = {i}
        for x in e[1]:
            cur = {j2 for j in cur for j2 in ends(x, s, j)}
        return cur
    if k == 'alt':
        out = set()
        for x in e[1]:
            out |= ends(x, s, i)
        return out
    _, x, lo, hi = e
    out = set()
    cur = {i}
    n = 0
    seen = set()
    while cur and (hi is None or n <= hi):
        if n >= lo:
            out |= cur
        nxt = {j2 for j in cur for j2 in ends(x, s, j)}
        n += 1
        if hi is None:
            nxt -= seen
            seen |= nxt
            if n > len(s) + lo + 2:
                break
        cur = nxt
    return out


def sample_word(e, rng):
    k = e[0]
    if k == 'lit':
        return e[1]
    if k == 'seq':
        return ''.join(sample_word(x, rng) for x in e[1])
    if k == 'alt':
        return sample_word(rng.choice(e[1]), rng)
    _, x, lo, hi = e
    n = rng.randint(lo, (lo + 2) if hi is None else hi)
    return ''.join(sample_word(x, rng) for _ in range(n))


def terminal_stream(ctx):
    import re
    from lark import Lark
    rng = ctx.rng
    for _ in range(ctx.scale(150, 1500) * (3 if ctx.widen else 1)):
        e = gen_texpr(rng)
        if 0 in ends(e, '', 0):
            continue        # terminal may match the empty string: outside the statement (lark rejects it)
        src = 'start: T\nT: %s\n' % render_texpr(e)
        try:
            p = Lark(src, parser='lalr')
        except Exception as ex:
            ctx.violation('terminal-construct', {'grammar': src, 'error': repr(ex)[:200]}, True,
                          'grammar with operators inside a terminal failed to build: %r' % (ex,))
            continue
        td = [t for t in p.terminals if t.name == 'T'][0]
        rx = re.compile(td.pattern.to_regexp())
        words = {sample_word(e, rng) for _ in range(4)}
        for w in list(words):
            if w:
                k = rng.randrange(len(w))
                words.add(w[:k] + w[k + 1:])
                words.add(w[:k] + rng.choice(SPECIAL) + w[k:])
                words.add(w + w[-1])
        for w in sorted(words):
            want = len(w) in ends(e, w, 0)
            got = rx.fullmatch(w) is not None
            ctx.count('terminal-ops', key=(src, w), accepted=got)
            if want != got:
                ctx.violation('terminal-count', {'grammar': src, 'word': w, 'regexp': td.pattern.to_regexp(),
                                                 'expected_match': want}, True,
                              'terminal %s %s %r' % (render_texpr(e), 'must match' if want else 'must not match', w))


# --- (e) EBNF-to-BNF compilation of nested expressions against Ebnf/Compile.v -----------------------------
def S(i):
    return ('sym', i)


def G(*alts):
    return ('alt', [('seq', list(a)) for a in alts])


# shapes that exercise the rule cache, nesting and distribution (always run, independent of the seed)
FIXED_EXPRS = [
    G([('star', S(0))]), G([('plus', S(0))]), G([('opt', S(0))]), G([('rep', S(0), 2, 4)]),
    G([('star', S(0)), ('plus', S(0))]),                                   # * and + of the same operand share a helper
    G([('plus', S(0)), ('star', S(0))]),
    G([('star', G([S(0)], [S(1)]))]), G([('plus', G([S(0), S(1)], [S(2)]))]),
    G([('star', G([('star', S(0))]))]), G([('star', G([('plus', S(0)), S(1)]))]),
    G([('star', G([('opt', S(0)), S(1)]))]), G([('opt', G([('star', S(0))], [S(1)]))]),
    G([('plus', G([('opt', S(0))]))]),
    G([S(0), ('opt', S(1)), ('opt', S(2))]), G([('opt', S(0)), ('opt', S(0))]),
    G([('opt', G([S(0)], [S(1), ('opt', S(2))])), S(0)]),
    G([('rep', G([S(0)], [S(1)]), 2, 2)]), G([('rep', G([S(0)], [S(1)]), 0, 2)]),
    G([('rep', G([('star', S(0)), S(1)]), 1, 3)]),
    G([('rep', G([('rep', S(0), 1, 2)]), 2, 3)]),
    G([('star', G([('rep', S(0), 2, 3)], [S(1)]))]),
    G([('rep', S(0), 50, 50)]), G([('rep', S(0), 0, 50)]), G([('rep', S(0), 49, 50)]), G([('rep', S(0), 3, 60)]),
    G([('rep', S(0), 64, 64), ('rep', S(0), 64, 64)]),                     # whole chain from the cache
    G([('rep', S(0), 50, 50), ('rep', S(0), 50, 75)]),                     # mn-chain shared, diff chain new
    G([('rep', S(0), 10, 75), ('rep', S(0), 20, 85)]),                     # diff chains share a prefix
    G([('rep', S(0), 10, 75), ('rep', S(1), 10, 75)]),
    G([('rep', S(0), 0, 51), S(3), ('rep', S(0), 0, 52)]),                 # opt helpers (4,0,t,x) and (4,1,t,x): same a, target
    G([('rep', S(0), 52, 52), S(3), ('rep', S(0), 53, 53)]),
    G([('rep', S(0), 0, 50), S(3), ('rep', S(0), 0, 51)]),
    G([('rep', G([S(0), S(1)]), 50, 52)]), G([('rep', G([S(0)], [S(1)]), 50, 51)]),
    G([('rep', G([('plus', S(0)), S(1)]), 51, 51)]),
    G([('rep', G([('rep', S(0), 50, 50)]), 50, 50)]),
    G([('star', G([('rep', S(0), 50, 53)]))]),
    G([('rep', G([('plus', S(0))]), 0, 0)]),                                # helper created but unused: filtered out
    G([S(0)], [S(1), ('star', S(2))], []), G([], [S(0)]),
    G([('plus', S(0))], [('plus', S(0)), S(1)]),
]


def compile_stream(ctx):
    from props import C09_compile as CC
    rng = ctx.rng
    wide = 3 if ctx.widen else 1
    shared = CC.shared_cases(rng, ctx.scale(14, 150) * wide)
    nested = CC.nested_cases()
    exprs = (list(FIXED_EXPRS) + [e for _, e in nested] + [c[2] for c in shared if not c[5]]
             + CC.factor_cases(rng, ctx.scale(5, 40) * wide)
             + [CC.gen_expr(rng) for _ in range(ctx.scale(70, 900) * wide)])
    cases, meta = [], []
    for e in exprs:
        text = CC.grammar_text(e)
        try:
            rs = CC.lark_rules(text)
        except Exception as ex:
            # the model compiles every expression with well-formed ranges (C09_compile_total)
            ctx.violation('compile-construct', {'grammar': text, 'expect_error': False, 'error': repr(ex)[:300]}, True,
                          'compiling a rule body with nested operators failed: %r' % (ex,))
            continue
        nhelp = len({o for o, _ in rs}) - 1
        ctx.count('compile-structure', key=text, nontrivial=nhelp > 0 or len(rs) > 1,
                  helpers=min(nhelp, 8), factored=any(x[0] == 'rep' and x[3] >= 50 for x in CC.subexprs(e)))
        cases.append('(%s, %s)' % (CC.coq_expr(e), CC.coq_rules_text(rs)))
        meta.append((e, text, rs))
    ctx.sample({'compile': {'grammar': meta[-1][1].split('\n')[0], 'rules': len(meta[-1][2])}})
    import time, os
    if os.environ.get('C09_DUMP'):
        open(os.environ['C09_DUMP'], 'w').write('\n'.join(cases))
    t_coq = time.time()
    import lib as _lib
    chunk = max(25, min(100, -(-len(cases) // max(1, _lib.NCPU))))
    bad, errs = ctx.coq_bad_indices('c09compile', CC.IMPORTS_COMPILE, 'compile_check_s', cases, chunk=chunk)
    ctx.note('compile-structure: %d cases, %d characters of Coq literals, vm_compute comparison %.1f s'
             % (len(cases), sum(len(c) for c in cases), time.time() - t_coq))
    for er in errs:
        ctx.violation('correspondence:coq-eval', {'error': er}, False, er[:300])
    searched = 0
    for i in bad:
        e, text, rs = meta[i]
        found = CC.language_search(e, text, maxlen=6, limit=1500) if searched < 6 else None
        searched += 1
        if found and found[0] == '<construct>':
            ctx.violation('compile-construct', {'grammar': text, 'expect_error': False, 'error': found[1]}, True,
                          'the parser cannot be built for a rule body with nested operators')
        elif found:
            w, want = found
            ctx.violation('compile-count', {'grammar': text, 'text': w, 'expect_accept': want}, True,
                          'compiled rules of %r differ from the model and %r is %s but %s by the stated counts'
                          % (text.split('\n')[0], w, 'rejected' if want else 'accepted', 'matches' if want else 'does not match'))
        else:
            ctx.violation('correspondence:Ebnf/Compile.compile_pruned vs EBNF_to_BNF+SimplifyRule_Visitor',
                          {'no_longer_checks': 'compiled rule set agreement (up to helper renaming)', 'grammar': text,
                           'lark_rules': [[o, syms] for o, syms in rs][:40]}, False,
                          'compiled rules of %r differ from the model (no word up to length 6 separates them)'
                          % text.split('\n')[0])
    # the property itself at the language level, on the implementation (independent of the model)
    nfix = len(meta) - ctx.scale(70, 900) * wide
    sample = list(FIXED_EXPRS[:20:2]) + [m[0] for m in meta[nfix:][:ctx.scale(10, 150) * wide]]
    for e in sample:
        if any(x[0] == 'rep' and x[3] >= 6 for x in CC.subexprs(e)):
            continue
        text = CC.grammar_text(e)
        found = CC.language_search(e, text, maxlen=5, limit=ctx.scale(260, 1400))
        ctx.count('compile-language', key=text)
        if found and found[0] == '<construct>':
            ctx.violation('compile-construct', {'grammar': text, 'expect_error': False, 'error': found[1]}, True,
                          'the parser cannot be built for a rule body with nested operators')
        elif found:
            w, want = found
            ctx.violation('compile-count', {'grammar': text, 'text': w, 'expect_accept': want}, True,
                          '%r is %s but %s by the stated counts' % (w, 'rejected' if want else 'accepted',
                                                                     'matches' if want else 'does not match'))
    # nested-operator family (operator over group over operator, incl. groups whose body is a factored repeat):
    # acceptance of 0, 1, 2, 3 blocks with inner counts at the bounds, and one occurrence off, against the count oracle
    from lark import Lark
    from lark.exceptions import UnexpectedInput
    t_n = time.time()
    for label, e in nested:
        text = CC.grammar_text(e)
        try:
            p = Lark(text, parser='earley', lexer='basic', ambiguity='forest')
        except Exception as ex:
            ctx.violation('compile-construct', {'grammar': text, 'expect_error': False, 'error': repr(ex)[:300]}, True,
                          'a grammar with nested operators (%s) cannot be built: %r' % (label, ex))
            continue
        nbad = 0
        for w in CC.nested_words(label, e, 260):
            want = CC.spec_accepts(e, w)
            try:
                p.parse(w)
                got = True
            except UnexpectedInput:
                got = False
            ctx.count('nested-operators', key=(text, w), kind=label.split(':')[0], accepted=got)
            if got != want and nbad < 2:
                nbad += 1
                ctx.violation('nested-operator-count', {'grammar': text, 'text': w, 'expect_accept': want}, True,
                              '%s: %s %d characters (%r...) is %s but %s by the stated counts'
                              % (label, text.split('\n')[0], len(w), w[:12], 'rejected' if want else 'accepted',
                                 'matches' if want else 'does not match'))
    ctx.note('nested-operators: %d grammars, %.1f s' % (len(nested), time.time() - t_n))
    # shared-operand family: the same operand under 2-3 different operators (rules_cache sharing), in one rule
    # (also compared structurally above) and across rules; acceptance for every combination of occurrence counts
    from lark import Lark
    from lark.exceptions import UnexpectedInput
    for label, text, spec, x, nsites, tworules in shared:
        try:
            p = Lark(text, parser='earley')
        except Exception as ex:
            ctx.violation('compile-construct', {'grammar': text, 'expect_error': False, 'error': repr(ex)[:300]}, True,
                          'a grammar using one operand under several operators cannot be built: %r' % (ex,))
            continue
        nbad = 0
        for counts, w in CC.shared_words(x, nsites, rng):
            want = CC.spec_accepts(spec, w)
            try:
                p.parse(w)
                got = True
            except UnexpectedInput:
                got = False
            ctx.count('shared-operand', key=(text, w), kind=label.split(':')[0], accepted=got)
            if got != want and nbad < 2:
                nbad += 1
                ctx.violation('shared-operand-count', {'grammar': text, 'text': w, 'expect_accept': want,
                                                       'occurrences': list(counts)}, True,
                              '%s: %r (occurrence counts %s) is %s but %s by the stated counts'
                              % (label, w, list(counts), 'rejected' if want else 'accepted',
                                 'matches' if want else 'does not match'))
    # bad ranges: GrammarError in lark, AssertFail in the model
    from lark.exceptions import GrammarError
    badr = [G([('rep', S(0), 3, 2)]), G([S(1), ('star', G([('rep', S(0), 51, 50)]))])]
    terms = []
    for e in badr:
        text = 'start: %s\nX0: "a"\nX1: "b"\n' % CC.render(e).replace('~3..2', '~3..2')
        ctx.count('compile-badrange', key=text)
        try:
            Lark(text)
            ctx.violation('compile-badrange', {'grammar': text, 'expect_error': True}, True,
                          'a range with max < min was accepted')
        except GrammarError:
            pass
        except Exception as ex:
            ctx.violation('compile-badrange', {'grammar': text, 'expect_error': True, 'error': repr(ex)[:200]}, False,
                          'unexpected exception type for a bad range')
        terms.append(CC.coq_expr(e))
    bad, errs = ctx.coq_bad_indices('c09badrange', CC.IMPORTS_COMPILE, 'compile_fails', terms)
    for er in errs:
        ctx.violation('correspondence:coq-eval', {'error': er}, False, er[:300])
    for i in bad:
        ctx.violation('correspondence:Ebnf/Compile.ebnf range check', {'no_longer_checks': 'bad-range rejection'}, False,
                      'model accepts a range that lark rejects')


def correspond(ctx):
    import time as _t
    rng = ctx.rng
    wide = 3 if ctx.widen else 1
    marks = [('start', _t.time())]

    def mark(name):
        marks.append((name, _t.time()))
    # (a) small_factors -----------------------------------------------------------
    from lark.utils import small_factors
    cases, meta = [], []
    ns = list(range(0, 40)) + [rng.randint(40, 2000) for _ in range(ctx.scale(150, 1500) * wide)]
    for n in ns:
        for mf in ([5] if n % 3 else [3, 4, 5, 6, 9]):
            try:
                r = small_factors(n, mf)
            except Exception as ex:
                ctx.violation('small_factors-raises', {'n': n, 'max_factor': mf, 'error': repr(ex)}, True,
                              'small_factors(%d,%d) raised %r' % (n, mf, ex))
                continue
            v = 1
            for a, b in r:
                v = v * a + b
            ctx.count('small_factors', key=(n, mf), nontrivial=len(r) > 1)
            if v != n or any(a + b > mf for a, b in r):
                ctx.violation('small_factors-spec', {'n': n, 'max_factor': mf, 'result': r}, True,
                              'fold of small_factors(%d,%d)=%s gives %d' % (n, mf, r, v))
            cases.append('(%s, %s, %s)' % (Z(n), Z(mf), L(['(%s, %s)' % (Z(a), Z(b)) for a, b in r])))
            meta.append((n, mf, r))
    ctx.sample({'small_factors': {'n': meta[-1][0], 'max_factor': meta[-1][1], 'result': meta[-1][2]}})
    bad, errs = ctx.coq_bad_indices('c09sf', IMPORTS, 'sf_check', cases, chunk=800)
    for e in errs:
        ctx.violation('correspondence:coq-eval', {'error': e}, False, e[:300])
    for i in bad:
        n, mf, r = meta[i]
        ctx.violation('correspondence:Gen/SmallFactors.small_factors vs lark.utils.small_factors',
                      {'no_longer_checks': 'small_factors model/implementation agreement', 'n': n, 'max_factor': mf,
                       'impl': r}, False, 'model differs from implementation on small_factors(%d,%d)' % (n, mf))

    mark('a')
    # (b) helper-rule structure ------------------------------------------------------
    pairs = set()
    for m in range(46, 55):
        for n in (0, 1, m // 2, m - 1, m):
            pairs.add((n, m))
    for _ in range(ctx.scale(120, 1200) * wide):
        m = rng.choice([rng.randint(0, 45), rng.randint(55, 140), rng.randint(140, 400)])
        n = rng.choice([m, rng.randint(0, m), max(0, m - rng.randint(0, 8)), 0, min(m, 1)])
        pairs.add((n, m))
    pairs = sorted(pairs)
    cases, meta = [], []
    for n, m in pairs:
        try:
            term, names = impl_repeat(n, m)
        except Exception as ex:
            ctx.violation('generate_repeats-raises', {'n': n, 'm': m, 'error': repr(ex)[:300]}, True,
                          '_generate_repeats(x,%d,%d) raised' % (n, m))
            continue
        ctx.count('repeat-structure', key=(n, m), nontrivial=m >= 2, scheme='naive' if not names else 'factored')
        if term is None:
            ctx.violation('correspondence:Ebnf/Repeat.generate_repeats vs EBNF_to_BNF._generate_repeats',
                          {'no_longer_checks': 'helper-rule structure agreement (tree too large to compare)', 'n': n, 'm': m},
                          False, 'compiled rule structure for x~%d..%d is implausibly large' % (n, m))
        else:
            cases.append('(%s, %s, %s)' % (Z(n), Z(m), term))
            meta.append((n, m, names))
        # the property itself on the implementation's rules
        kmax = m + 3
        got = count_semantics(n, m, kmax)
        want = set(range(n, m + 1))
        if got != want:
            k = min(got ^ want)
            ctx.violation('repeat-count', {'n': n, 'm': m, 'k': k, 'grammar': 'start: X~%d..%d\nX: "x"\n' % (n, m),
                                           'text': 'x' * k}, True,
                          'compiled x~%d..%d %s %d occurrences' % (n, m, 'derives' if k in got else 'does not derive', k))
        if any(not nm.startswith('_') for nm in names):
            ctx.violation('helper-name', {'n': n, 'm': m, 'names': names[:3]}, True, 'helper rule name would be visible in trees')
    ctx.sample({'generate_repeats': {'n': meta[-1][0], 'm': meta[-1][1], 'helper_rules': meta[-1][2][:4]}})
    bad, errs = ctx.coq_bad_indices('c09rep', IMPORTS, 'repeat_check', cases, chunk=60)
    for e in errs:
        ctx.violation('correspondence:coq-eval', {'error': e}, False, e[:300])
    for i in bad:
        n, m, names = meta[i]
        ctx.violation('correspondence:Ebnf/Repeat.generate_repeats vs EBNF_to_BNF._generate_repeats',
                      {'no_longer_checks': 'helper-rule structure agreement', 'n': n, 'm': m}, False,
                      'compiled rule structure for x~%d..%d differs from the model (count semantics still right)' % (n, m))
    # ? + * structure
    from lark.load_grammar import EBNF_to_BNF
    from lark.grammar import Terminal
    from lark.lexer import Token
    opcases = []
    for op, fn in (('?', 'op_opt'), ('+', 'op_plus'), ('*', 'op_star')):
        e = EBNF_to_BNF()
        x = Terminal('X')
        t = e.expr(x, Token('OP', op))
        rules = {n: tr for n, tr, _ in e.new_rules}
        opcases.append('(%s Atom, (%s))' % (fn, to_rexp(t, rules, x)))
        ctx.count('op-structure', key=op)
    bad, errs = ctx.coq_bad_indices('c09op', IMPORTS, '(fun c : rexp * rexp => rexp_eqb (fst c) (snd c))', opcases)
    for e in errs:
        ctx.violation('correspondence:coq-eval', {'error': e}, False, e[:300])
    for i in bad:
        ctx.violation('correspondence:Ebnf/Repeat.op_* vs EBNF_to_BNF.expr', {'no_longer_checks': 'operator structure', 'op': '?+*'[i]},
                      False, 'compiled structure of operator %s differs from the model' % '?+*'[i])
    mark('b')
    # (c) end to end ---------------------------------------------------------------------
    for (g, unit, per, n, m, kind) in e2e_cases(rng, ctx):
        run_e2e(ctx, g, unit, per, n, m, kind)
    mark('c')
    # (d) operators inside terminals -------------------------------------------------------
    terminal_stream(ctx)
    mark('d')
    # (d') the regular-expression level inside the model: TerminalTreeToPattern + re against coq/Re/
    from props import C09_regex
    C09_regex.run(ctx)
    mark('d-model')
    # (e) the EBNF-to-BNF compilation as a whole ------------------------------------------------
    import time
    t0 = time.time()
    compile_stream(ctx)
    ctx.note('streams (e) compile-structure / compile-language / shared-operand took %.1f s' % (time.time() - t0))
    mark('e')
    ctx.note('stage times (s since check start %.1f): ' % (marks[0][1] - ctx.t0)
             + ', '.join('%s %.1f' % (marks[i][0], marks[i][1] - marks[i - 1][1]) for i in range(1, len(marks))))


def replay(ctx, case):
    w = case['witness']
    if 'expect_accept' in w:
        from lark import Lark
        from lark.exceptions import UnexpectedInput
        try:
            p = Lark(w['grammar'], parser='earley')
        except Exception:
            return True
        try:
            p.parse(w['text'])
            got = True
        except UnexpectedInput:
            got = False
        return got != w['expect_accept']
    if 'expect_error' in w:
        from lark import Lark
        try:
            Lark(w['grammar'], parser='earley')
            return w['expect_error']
        except Exception:
            return not w['expect_error']
    if 'word' in w:
        import re
        from lark.load_grammar import load_grammar
        g, _ = load_grammar(w['grammar'], '<replay>', [], False)
        try:
            terms, _r, _i = g.compile(['start'], set())
        except Exception:
            return True
        td = [t for t in terms if t.name == 'T'][0]
        return (re.fullmatch(td.pattern.to_regexp(), w['word']) is not None) != w['expected_match']
    if 'grammar' in w and 'text' in w:
        from lark import Lark
        from lark.exceptions import UnexpectedInput
        n, m, k = w.get('n'), w.get('m'), w.get('k')
        try:
            Lark(w['grammar'], parser=w.get('parser', 'earley')).parse(w['text'])
            got = True
        except UnexpectedInput:
            got = False
        expect = (n <= k) and (m is None or k <= m)
        return got != expect
    if 'max_factor' in w:
        from lark.utils import small_factors
        try:
            r = small_factors(w['n'], w['max_factor'])
        except Exception:
            return True
        v = 1
        for a, b in r:
            v = v * a + b
        return v != w['n']
    return False
