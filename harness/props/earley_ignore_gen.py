"""Grammar-text generators with a character-level language oracle that is computed from the MEANING of the
grammar text (never from lark's compiled terminals or rules).  Used by C01 (acceptance); the generators are
reusable for the tree / forest properties (C04, C20).

A TextGrammar is an abstract Lark grammar whose terminals are fixed strings (optionally one imported regex
terminal with a known pattern):

    rules   : {nt: [alternative, ...]},  alternative = [symbol, ...]
    symbol  : ('nt', name) | ('lit', string)            anonymous literal "string"
                           | ('term', NAME)             reference to a named terminal
    terms   : {NAME: ('str', string) | ('re', regex, import_path)}
    ignores : [string, ...]                             %ignore "string"  (or through a named terminal)

Two generators:
  gen_ignore_grammar  several %ignore strings of different lengths that overlap each other and the terminals
                      that follow them (dynamic Earley lexers: ignored text may be skipped between tokens)
  gen_anon_grammar    anonymous literals (punctuation, keywords) next to user-defined / imported terminals that
                      carry exactly the names lark would give to those literals

Oracles:
  member_dynamic(tg, text, complete)  character-level derivability: every terminal occurrence may be followed by
                                      any sequence of ignored strings, and so may the start of the input
  member_basic(tg, text)              the basic lexer's reading for string-only grammars: tokenise by longest
                                      literal, drop ignored tokens, then derivability of the token string
"""
import re

# the names lark gives to one-character literals (load_grammar._TERMINAL_NAMES); only used to *aim* the generator at
# name coincidences, never by the oracle.  Read from lark when importable so the aim follows the code.
_FALLBACK_NAMES = {'.': 'DOT', ',': 'COMMA', ':': 'COLON', ';': 'SEMICOLON', '+': 'PLUS', '-': 'MINUS', '*': 'STAR',
                   '/': 'SLASH', '|': 'VBAR', '?': 'QMARK', '!': 'BANG', '@': 'AT', '#': 'HASH', '$': 'DOLLAR',
                   '%': 'PERCENT', '^': 'CIRCUMFLEX', '&': 'AMPERSAND', '<': 'LESSTHAN', '>': 'MORETHAN',
                   '=': 'EQUAL', '~': 'TILDE', '(': 'LPAR', ')': 'RPAR', '{': 'LBRACE', '}': 'RBRACE', '[': 'LSQB',
                   ']': 'RSQB', '\n': 'NEWLINE', '\t': 'TAB', ' ': 'SPACE'}
_SAFE_PUNCT = set(_FALLBACK_NAMES)          # no quotes / backslashes: keeps the rendering trivially right


def terminal_names():
    try:
        from lark.load_grammar import _TERMINAL_NAMES
        return {k: v for k, v in _TERMINAL_NAMES.items() if k in _SAFE_PUNCT}
    except Exception:       # noqa
        return dict(_FALLBACK_NAMES)


KNOWN_IMPORTS = {'NEWLINE': ('common.NEWLINE', r'(\r?\n)+', ['\n', '\n\n', '\r\n'])}


def quote(s):
    return '"%s"' % s.replace('\\', '\\\\').replace('"', '\\"').replace('\n', '\\n').replace('\t', '\\t').replace('\r', '\\r')


class TextGrammar:
    def __init__(self, rules, terms=None, ignores=None, named_ignores=None, order=None, re_ignores=None):
        self.re_ignores = dict(re_ignores or {})        # NAME -> regex   (NAME: /regex/  %ignore NAME)
        self.rules = rules
        self.terms = dict(terms or {})
        self.ignores = list(ignores or [])
        self.named_ignores = dict(named_ignores or {})     # string -> NAME  (rendered as  NAME: "s"  %ignore NAME)
        self.order = order or list(rules)

    # ---- meaning ----------------------------------------------------------------------------
    def pattern(self, sym):
        """('str', s) | ('re', regex): the language a terminal symbol denotes; also its identity"""
        if sym[0] == 'lit':
            return ('str', sym[1])
        d = self.terms[sym[1]]
        return ('str', d[1]) if d[0] == 'str' else ('re', d[1])

    def prune(self):
        """drop rules unreachable from start and terminal definitions nobody uses (lark would drop them too; removing
        them from the text keeps the oracle independent of how lark decides that)"""
        reach, todo = {'start'}, ['start']
        while todo:
            for alt in self.rules[todo.pop()]:
                for s in alt:
                    if s[0] == 'nt' and s[1] not in reach:
                        reach.add(s[1])
                        todo.append(s[1])
        self.rules = {n: a for n, a in self.rules.items() if n in reach}
        self.order = [n for n in self.order if n in reach]
        used = {s[1] for alts in self.rules.values() for alt in alts for s in alt if s[0] == 'term'}
        self.terms = {n: d for n, d in self.terms.items() if n in used}
        return self

    def string_only(self):
        return all(d[0] == 'str' for d in self.terms.values())

    def patterns(self):
        out = []
        for n in self.order:
            for alt in self.rules[n]:
                for s in alt:
                    if s[0] != 'nt':
                        p = self.pattern(s)
                        if p not in out:
                            out.append(p)
        return out

    def alphabet(self):
        chars = set()
        for p in self.patterns():
            if p[0] == 'str':
                chars |= set(p[1])
        for s in self.ignores:
            chars |= set(s)
        if self.re_ignores or any(d[0] == 're' and not d[2] for d in self.terms.values()):
            chars |= set('ab-')
        return sorted(chars)

    # ---- text ---------------------------------------------------------------------------------
    def render(self):
        lines = []
        for n in self.order:
            alts = []
            for alt in self.rules[n]:
                alts.append(' '.join(s[1] if s[0] in ('nt', 'term') else quote(s[1]) for s in alt))
            lines.append('%s: %s' % (n, ' | '.join(alts)))
        for name, d in self.terms.items():
            if d[0] == 'str':
                lines.append('%s: %s' % (name, quote(d[1])))
            elif d[2]:
                lines.append('%%import %s' % d[2])
            else:
                lines.append('%s: /%s/' % (name, d[1]))
        for s in self.ignores:
            if s in self.named_ignores:
                lines.append('%s: %s' % (self.named_ignores[s], quote(s)))
                lines.append('%%ignore %s' % self.named_ignores[s])
            else:
                lines.append('%%ignore %s' % quote(s))
        for name, rx in self.re_ignores.items():
            lines.append('%s: /%s/' % (name, rx))
            lines.append('%%ignore %s' % name)
        return '\n'.join(lines) + '\n'

    def describe(self):
        return {'grammar': self.render(), 'ignores': self.ignores}


# ---------------------------------------------------------------------------------------------
# derivability by a least fixed point over spans (no parser involved)
def span_member(rules, start, n, tnext):
    """rules: [(lhs, [('T', key) | ('N', name)])]; tnext: key -> {i: set of j}. True iff start derives [0, n)."""
    S = {}
    changed = True
    while changed:
        changed = False
        for lhs, rhs in rules:
            tgt = S.setdefault(lhs, {})
            for i in range(n + 1):
                cur = {i}
                for kind, s in rhs:
                    src = tnext.get(s, {}) if kind == 'T' else S.get(s, {})
                    nxt = set()
                    for p in cur:
                        nxt |= src.get(p, set())
                    cur = nxt
                    if not cur:
                        break
                have = tgt.setdefault(i, set())
                if not cur <= have:
                    have |= cur
                    changed = True
    return n in S.get(start, {}).get(0, set())


def pattern_spans(pat, text, mode):
    """{i: {j}}: where the terminal can match.  mode: 'exact' every full match (strings; dynamic_complete for
    regexps), 'longest' the one match the regex engine returns at i (dynamic lexer reading for regexps)"""
    out = {}
    n = len(text)
    if pat[0] == 'str':
        s = pat[1]
        for i in range(n - len(s) + 1):
            if text.startswith(s, i):
                out.setdefault(i, set()).add(i + len(s))
        return out
    rx = re.compile(pat[1])
    for i in range(n):
        if mode == 'longest':
            m = rx.match(text, i)
            if m and m.end() > i:
                out.setdefault(i, set()).add(m.end())
        else:
            for j in range(i + 1, n + 1):
                if rx.fullmatch(text, i, j):
                    out.setdefault(i, set()).add(j)
    return out


def char_level_rules(tg):
    """the character-level CFG of the grammar text: after every terminal occurrence, and at the very start, any
    sequence of ignored strings may be skipped"""
    rules = []
    ign = bool(tg.ignores)
    for n in tg.order:
        for alt in tg.rules[n]:
            rhs = []
            for s in alt:
                if s[0] == 'nt':
                    rhs.append(('N', s[1]))
                else:
                    rhs.append(('T', tg.pattern(s)))
                    if ign:
                        rhs.append(('N', '$igns'))
            rules.append((n, rhs))
    if ign:
        rules.append(('$igns', []))
        for s in tg.ignores:
            rules.append(('$igns', [('T', ('str', s)), ('N', '$igns')]))
        rules.append(('$top', [('N', '$igns'), ('N', 'start')]))
    else:
        rules.append(('$top', [('N', 'start')]))
    return rules


def member_dynamic(tg, text, complete=True):
    rules = char_level_rules(tg)
    keys = {s for _, rhs in rules for k, s in rhs if k == 'T'}
    tnext = {k: pattern_spans(k, text, 'exact' if (complete or k[0] == 'str') else 'longest') for k in keys}
    return span_member(rules, '$top', len(text), tnext)


def tokenize_basic(tg, text):
    """longest-literal tokenisation over the grammar's terminal strings and ignored strings; None = no token fits"""
    assert tg.string_only()
    strings = sorted({p[1] for p in tg.patterns()} | set(tg.ignores), key=lambda s: -len(s))
    toks, i = [], 0
    while i < len(text):
        for s in strings:
            if text.startswith(s, i):
                if s not in tg.ignores:
                    toks.append(s)
                i += len(s)
                break
        else:
            return None
    return toks


def member_basic(tg, text):
    toks = tokenize_basic(tg, text)
    if toks is None:
        return False
    rules = []
    for n in tg.order:
        for alt in tg.rules[n]:
            rules.append((n, [('N', s[1]) if s[0] == 'nt' else ('T', tg.pattern(s)) for s in alt]))
    tnext = {}
    for k, s in enumerate(toks):
        tnext.setdefault(('str', s), {}).setdefault(k, set()).add(k + 1)
    return span_member(rules, 'start', len(toks), tnext)


def bounded_sentences(tg, maxlen, cap=400):
    """character strings of the language without ignored text, up to maxlen characters (least fixed point)"""
    samples = {}
    for p in tg.patterns():
        if p[0] == 'str':
            samples[p] = [p[1]]
        else:
            samples[p] = ([x for imp in KNOWN_IMPORTS.values() if imp[1] == p[1] for x in imp[2]]
                          or REGEX_SAMPLES.get(p[1], []))
    S = {}
    changed = True
    while changed:
        changed = False
        for n in tg.order:
            for alt in tg.rules[n]:
                cur = {''}
                for s in alt:
                    opts = S.get(s[1], set()) if s[0] == 'nt' else samples[tg.pattern(s)]
                    cur = {u + v for u in cur for v in opts if len(u) + len(v) <= maxlen}
                    if not cur:
                        break
                    if len(cur) > cap:
                        cur = set(sorted(cur)[:cap])
                have = S.setdefault(n, set())
                if not cur <= have and len(have) < cap:
                    have |= cur
                    changed = True
    return sorted(S.get('start', set()))


# ---------------------------------------------------------------------------------------------
# generators
def _dedup(alts):
    out = []
    for a in alts:
        if a not in out:
            out.append(a)
    return out


def gen_ignore_grammar(rng):
    """string terminals over a tiny alphabet; 2-3 ignored strings sharing a character, of different lengths, that are
    also prefixes / parts of terminals"""
    base = rng.choice(['-', ' ', '.', '-'])
    other = rng.choice([c for c in 'ab'])
    letters = ['a', 'b']
    ign_pool = [base, base * 2, base + other, base * 3, other + base]
    k = rng.choice([2, 2, 3])
    ignores = [base] + rng.sample(ign_pool[1:], k - 1)
    if rng.random() < 0.15:
        ignores = rng.sample(ign_pool, k)
    lit_pool = letters + [base + x for x in letters] + [x + base for x in letters] + ['ab', 'a' + base + 'b', base + base + 'a']
    if rng.random() < 0.2:
        lit_pool.append(base)          # a string that is both a token and ignored
    nts = ['start'] + rng.sample(['x', 'y'], rng.choice([0, 1, 1, 2]))
    lits = rng.sample(lit_pool, rng.randint(2, 4))
    if not any(s.startswith(base) for s in lits):
        lits[-1] = base + rng.choice(letters)

    def sym():
        if len(nts) > 1 and rng.random() < 0.3:
            return ('nt', rng.choice(nts))
        return ('lit', rng.choice(lits))

    rules = {}
    for n in nts:
        alts = []
        for _ in range(rng.randint(1, 3)):
            ln = 0 if (n != 'start' and rng.random() < 0.15) else rng.randint(1, 3)
            alts.append([sym() for _ in range(ln)])
        rules[n] = _dedup(alts)
    if rng.random() < 0.3:
        rules['start'].append([('nt', 'start'), ('lit', rng.choice(lits))])
        rules['start'] = _dedup(rules['start'])
    named = {}
    for k2, s in enumerate(ignores):
        if rng.random() < 0.3:
            named[s] = 'IGN%d' % k2
    return TextGrammar(rules, {}, ignores, named, nts).prune()


def gen_anon_grammar(rng):
    """anonymous punctuation / keyword literals next to named terminals that occupy the names lark derives from those
    literals (user-defined with another pattern, or imported), mixed with neutral symbols"""
    names = terminal_names()
    punct = sorted(names)
    keywords = ['plus', 'minus', 'add', 'if', 'comma', 'star', 'lpar', 'when', 'x', 'y']
    terms = {}
    lits = []
    scen = rng.choice(['user-punct', 'user-punct', 'keyword-first', 'import', 'user-keyword', 'mixed'])
    c = rng.choice([p for p in punct if p not in '\n\t '])
    cname = names[c]
    if scen in ('user-punct', 'mixed'):
        # NAME: "<something else>"   and the literal whose auto-name is NAME
        terms[cname] = ('str', rng.choice([cname.lower(), 'add', rng.choice([p for p in punct if p != c and p not in '\n\t '])]))
        lits.append(c)
    if scen in ('keyword-first', 'mixed'):
        # a keyword literal that upper-cases to the auto-name of a punctuation literal used later
        c2 = rng.choice([p for p in punct if p not in '\n\t ' and names[p] not in terms])
        lits.append(names[c2].lower())
        lits.append(c2)
    if scen == 'import':
        name = 'NEWLINE'
        path, rx, _ = KNOWN_IMPORTS[name]
        terms[name] = ('re', rx, path)
        lits.append('\n')
    if scen in ('user-keyword', 'mixed'):
        kw = rng.choice(['if', 'when', 'plus'])
        if kw.upper() not in terms:
            terms[kw.upper()] = ('str', rng.choice(['x', 'unless', kw + kw]))
            lits.append(kw)
    # neutral extras
    for _ in range(rng.randint(0, 2)):
        lits.append(rng.choice(keywords + [p for p in punct if p not in '\n\t ']))
    # distinct patterns for named terminals; a literal equal to a named terminal's string is fine (same terminal)
    seen = set()
    for n in list(terms):
        key = terms[n][1]
        if key in seen:
            del terms[n]
        seen.add(key)
    lits = list(dict.fromkeys(lits))
    syms = [('lit', s) for s in lits] + [('term', n) for n in terms]
    nts = ['start'] + rng.sample(['a', 'b'], rng.choice([0, 1, 1, 2]))

    def sym():
        if len(nts) > 1 and rng.random() < 0.25:
            return ('nt', rng.choice(nts))
        return rng.choice(syms)

    rules = {}
    for n in nts:
        alts = []
        for _ in range(rng.randint(1, 3)):
            ln = 0 if (n != 'start' and rng.random() < 0.1) else rng.randint(1, 3)
            alts.append([sym() for _ in range(ln)])
        rules[n] = _dedup(alts)
    # make sure the aimed-at symbols occur, in a random order, reachable from start
    must = list(syms)
    rng.shuffle(must)
    rules['start'].append(must[:4])
    rules['start'] = _dedup(rules['start'])
    # rule order in the text decides which literal is named first
    order = list(nts)
    if rng.random() < 0.5:
        order = [order[0]] + order[1:][::-1]
    tg = TextGrammar(rules, terms, [], {}, order).prune()
    tg.scenario = scen
    return tg


REGEX_POOL = ['a+', 'ab?', '[ab]', 'a|ab', 'ab|a', '(a|b)+', 'a-?', 'b+', '-+', 'a*b', '(a|ab)(c|bcd)?', 'a[ab]*', 'ba?',
              '(ab)+', 'a+b+']
REGEX_SAMPLES = {'a+': ['a', 'aa'], 'ab?': ['a', 'ab'], '[ab]': ['a', 'b'], 'a|ab': ['a', 'ab'], 'ab|a': ['ab', 'a'],
                 '(a|b)+': ['a', 'ba'], 'a-?': ['a', 'a-'], 'b+': ['b', 'bb'], '-+': ['-', '--'], 'a*b': ['b', 'ab'],
                 '(a|ab)(c|bcd)?': ['a', 'abcd', 'abc'], 'a[ab]*': ['a', 'aba'], 'ba?': ['b', 'ba'], '(ab)+': ['ab', 'abab'],
                 'a+b+': ['ab', 'aabb']}


def gen_regex_grammar(rng):
    """named regexp terminals (several match lengths, alternations whose first alternative is not the longest),
    string literals, and string / regexp %ignore terminals; for the model tie of the dynamic lexers (the text-level
    oracle does not apply to these)"""
    names = ['TA', 'TB', 'TC']
    terms = {}
    for nm in rng.sample(names, rng.randint(1, 3)):
        terms[nm] = ('re', rng.choice(REGEX_POOL), None)
    lits = rng.sample(['a', 'b', '-', 'ab', 'b-', 'c', 'd', 'ba'], rng.randint(1, 3))
    syms = [('term', nm) for nm in terms] + [('lit', s) for s in lits]
    nts = ['start'] + rng.sample(['x', 'y'], rng.choice([0, 1, 1, 2]))

    def sym():
        if len(nts) > 1 and rng.random() < 0.3:
            return ('nt', rng.choice(nts))
        return rng.choice(syms)

    rules = {}
    for n in nts:
        alts = []
        for _ in range(rng.randint(1, 3)):
            ln = 0 if (n != 'start' and rng.random() < 0.15) else rng.randint(1, 3)
            alts.append([sym() for _ in range(ln)])
        rules[n] = _dedup(alts)
    if rng.random() < 0.3:
        rules['start'].append([('nt', 'start'), rng.choice(syms)])
        rules['start'] = _dedup(rules['start'])
    ignores, re_ignores = [], {}
    r = rng.random()
    if r < 0.35:
        ignores = rng.sample(['-', '--', ' ', '-a'], rng.randint(1, 2))
    elif r < 0.6:
        re_ignores['IG'] = rng.choice(['-+', ' +', '-|--', '(-a)+'])
    tg = TextGrammar(rules, terms, ignores, {}, nts, re_ignores).prune()
    tg.samples = REGEX_SAMPLES
    return tg


# ---------------------------------------------------------------------------------------------
def gen_inputs(rng, tg, exhaustive_len, n_sent, n_mut, n_concat=0, max_sent_len=8):
    alphabet = tg.alphabet() or ['a']
    out, seen = [], set()

    def add(s, why):
        if s not in seen:
            seen.add(s)
            out.append((s, why))
    level = ['']
    add('', 'exhaustive')
    for _ in range(exhaustive_len):
        level = [s + c for s in level for c in alphabet]
        for s in level:
            add(s, 'exhaustive')
    sents = bounded_sentences(tg, max_sent_len)
    pool = sents if len(sents) <= n_sent else rng.sample(sents, n_sent)
    pieces = (tg.ignores + [x for rx in tg.re_ignores.values() for x in ({'-+': ['-', '--'], ' +': [' '], '-|--': ['-', '--'], '(-a)+': ['-a']}.get(rx, []))]) or ['']
    for s in pool:
        add(s, 'sentence')
    strings = [p[1] for p in tg.patterns() if p[0] == 'str'] + [x for p in tg.patterns() if p[0] == 're'
                                                                for imp in KNOWN_IMPORTS.values() if imp[1] == p[1]
                                                                for x in imp[2]]
    strings += [x for p in tg.patterns() if p[0] == 're' for x in REGEX_SAMPLES.get(p[1], [])]
    strings = strings or ['a']
    # sentences with ignored text spliced in at token-ish boundaries and elsewhere
    if tg.ignores or tg.re_ignores:
        for s in pool:
            for _ in range(2):
                t = s
                for _ in range(rng.randint(1, 3)):
                    k = rng.randint(0, len(t))
                    t = t[:k] + rng.choice(pieces) + t[k:]
                add(t, 'sentence+ignored')
    for _ in range(n_concat):
        add(''.join(rng.choice(strings) for _ in range(rng.randint(1, 4))), 'token-concat')
    base = [s for s, _ in out if s]
    for _ in range(n_mut):
        if not base:
            break
        s = rng.choice(base)
        k = rng.randint(0, len(s))
        r = rng.random()
        if r < 0.35:
            k = min(k, len(s) - 1)
            m = s[:k] + s[k + 1:]
        elif r < 0.7:
            m = s[:k] + rng.choice(alphabet) + s[k:]
        else:
            k = min(k, len(s) - 1)
            m = s[:k] + rng.choice(alphabet) + s[k + 1:]
        add(m, 'mutation')
    return out
