"""C02 - LALR(1): conflicts reported, accepted language sound and (conflict-free) exact."""
import itertools
import json
import os

from lib import coq_list as L, coq_nat as N

THEOREMS = ['C02_driver_sound', 'C02_certified_table_sound', 'C02_lr0_suffix', 'C02_error_keeps_prefix',
            'C02_shift_preferred', 'C02_reduce_only_without_shift', 'C02_rr_resolution', 'C02_conflict_iff',
            'C02_la_closure', 'C02_model_table_wf', 'C02_model_table_sound', 'C02_la_complete_child', 'C02_la_complete_reduce', 'C02_complete', 'C02_automaton_complete',
            'C02_lr1_subset_la', 'C02_lr1_exec_subset_la',
            'C02_read_witness', 'C02_follow_witness', 'C02_la_subset_lr1', 'C02_la_is_lalr1',
            'C02_digraph_coded_acyclic', 'C02_digraph_twice_acyclic', 'C02_digraph_twice_aliasing_refuted', 'C02_example',
            'C02_feed_token_regenerated', 'C02_parse_from_state_regenerated', 'C02_conflict_resolution_regenerated',
            'C02_example_regenerated']
GEN_DEPS = ['LalrHoles']
RULE = ('random CFGs (<=5 non-terminals, <=4 terminals, <=3 alternatives of length <=3; nullable alternatives, '
        'left/right recursion, shared LR(0) cores, rule priorities, shift/reduce and reduce/reduce conflicts, 1-2 start '
        'symbols) compiled by lark; per grammar every LR(0) state, relation, look-ahead set and table row is one '
        'comparison; per input every fed token is one comparison; non-trivial = distinct (grammar) with >= 4 states '
        'and >= 1 reduce entry whose look-ahead set is a proper subset of the terminals, or distinct (grammar, input) '
        'with >= 1 reduction')
TRUSTED_BASE = ['run-time wrappers that read LALR_Analyzer internals (lr0_itemsets, directly_reads/reads/includes/'
                'lookback snapshot taken at entry of compute_lookaheads, lookaheads, parse_table) and the renaming of '
                'states by kernel item set',
                'the table is keyed by symbol in the model and by name in lark: terminal and rule names are disjoint '
                '(upper/lower case)',
                'digraph/traverse modelled by its specification (least solution); agreement with the SCC code is '
                'checked on every grammar of the streams and on random (X,R,G) incl. cyclic R',
                'search oracles in Python (not proofs): Earley-style recogniser, canonical-LR(1)-merge look-aheads']
ASSUMPTIONS = ['token strings are finite lists of terminal numbers; the lexer is C07',
               'model look-aheads = canonical LR(1) look-aheads merged by LR(0) state: theorem C02_la_is_lalr1 for grammars with productive '
               'rule bodies (false without); additionally evaluated inside Coq by vm_compute against the executable LR/Lr1Merge.v on every '
               'reduced grammar of the streams; completeness for conflict-free tables is a theorem (C02_complete)']

IMPORTS = 'From LV Require Import Cfg.Grammar LR.Driver LR.Automaton LR.AutomatonCheck LR.DriverCheck LR.Lr1Merge LR.Digraph.'

END = '$END'


# ------------------------------------------------------------------------------------------------
# grammar generator
# ------------------------------------------------------------------------------------------------
NTS = ['start', 'a', 'b', 'c', 'd']
TS = ['A', 'B', 'C', 'D']


def gen_grammar(rng, profile=None):
    """returns dict(rules={nt: [alt,...]}, prio={nt: int}, starts=[...], nts, ts)"""
    profile = profile or rng.choice(['plain', 'plain', 'nullable', 'cores', 'prio', 'conflict', 'expr', 'nullchain', 'tie3'])
    if profile == 'nullchain':
        return gen_nullchain(rng)
    if profile == 'tie3':
        return gen_tie3(rng)
    n_nt = rng.randint(1, 5)
    n_t = rng.randint(1, 4)
    nts, ts = NTS[:n_nt], TS[:n_t]
    rules = {}
    for i, a in enumerate(nts):
        alts = []
        for _ in range(rng.randint(1, 3)):
            ln = rng.choice([0, 1, 1, 2, 2, 3]) if profile in ('nullable', 'conflict') else rng.choice([1, 1, 2, 2, 3])
            alt = []
            for j in range(ln):
                r = rng.random()
                if r < 0.5:
                    alt.append(rng.choice(ts))
                else:
                    # bias: later non-terminals (acyclic-ish), sometimes recursion
                    if rng.random() < 0.7 and i + 1 < n_nt:
                        alt.append(rng.choice(nts[i + 1:]))
                    else:
                        alt.append(rng.choice(nts))
            if alt not in alts:
                alts.append(alt)
        rules[a] = alts
    if profile == 'cores':
        # two non-terminals with identical right-hand sides reached in different contexts
        if n_nt >= 3:
            x, y = nts[-1], nts[-2]
            body = [rng.choice(ts)]
            rules[x] = [body]
            rules[y] = [list(body)]
            t1, t2 = rng.choice(ts), rng.choice(ts)
            rules[nts[0]] = [[t1, x, rng.choice(ts)], [t2, y, rng.choice(ts)], [t1, y, rng.choice(ts)]][:rng.randint(2, 3)]
    if profile == 'expr' and n_t >= 2:
        rules[nts[0]] = [[nts[0], ts[0], nts[0]], [ts[1]]] if rng.random() < 0.5 else \
                        [[nts[0], ts[0], nts[-1]], [nts[-1]]]
        if nts[-1] != nts[0]:
            rules[nts[-1]] = [[ts[1]], [ts[-1], nts[0], ts[-1]]][:rng.randint(1, 2)]
    # make every non-terminal productive with some probability (keeps most grammars reduced)
    if rng.random() < 0.85:
        for a in nts:
            if not any(all(s in ts for s in alt) for alt in rules[a]):
                alt = [rng.choice(ts)] if rng.random() < 0.8 or profile not in ('nullable', 'conflict') else []
                if alt not in rules[a]:
                    rules[a].append(alt)
    prio = {}
    if profile in ('prio', 'conflict') or rng.random() < 0.15:
        for a in nts:
            if rng.random() < 0.5:
                prio[a] = rng.choice([-1, 1, 1, 2, 3])
    starts = ['start']
    if n_nt >= 2 and rng.random() < 0.12:
        starts.append(rng.choice(nts[1:]))
    return dict(rules=rules, prio=prio, starts=starts, nts=nts, ts=ts, profile=profile)


def gen_nullchain(rng):
    """a chain of unit rules (depth 3..6, written top-down) down to a nullable bottom, where FIRST of the upper links is
    also reached through a side alternative: nullability has to climb the chain after FIRST has settled, and the chain
    sits at the end of a rule so that the look-ahead after it ($END or a following terminal) depends on NULLABLE"""
    depth = rng.randint(3, 6)
    chain = ['n%d' % i for i in range(depth)]
    ts = TS[:rng.randint(2, 4)]
    rules = {}
    t0, t1 = rng.choice(ts), rng.choice(ts)
    tail = [rng.choice(ts)] if rng.random() < 0.4 else []
    lead = [t0] + ([rng.choice(ts)] if rng.random() < 0.5 else [])
    rules['start'] = [lead + [chain[0]] + tail]
    if rng.random() < 0.4:
        rules['start'].append([rng.choice(ts), chain[rng.randrange(depth)], rng.choice(ts)])
    side_at = rng.randrange(0, depth - 1) if rng.random() < 0.8 else None
    for i, a in enumerate(chain[:-1]):
        rules[a] = [[chain[i + 1]]]
        if i == side_at:
            rules[a].append([t1, rng.choice(ts)])
    bottom = [[]]
    if rng.random() < 0.7:
        bottom.append([t1, rng.choice(ts)])
    rng.shuffle(bottom)
    rules[chain[-1]] = bottom
    nts = ['start'] + chain
    if rng.random() < 0.3:                       # bottom-up order of definition as well
        nts = ['start'] + chain[::-1]
    return dict(rules=rules, prio={}, starts=['start'], nts=nts, ts=ts, profile='nullchain')


def gen_tie3(rng):
    """three or more rules reducible in one state on one look-ahead, with priorities in which the best two may tie while
    a lower one is present (the resolution is 'best strictly above second best', not 'best above worst')"""
    k = rng.randint(3, 4)
    nts = ['start'] + ['r%d' % i for i in range(k)]
    ts = TS[:rng.randint(2, 3)]
    body = [rng.choice(ts)]
    after = rng.choice(ts)
    rules = {'start': [[a, after] if rng.random() < 0.7 else [a] for a in nts[1:]]}
    if rng.random() < 0.5:
        rules['start'] = [[ts[0]] + alt for alt in rules['start']]
    for a in nts[1:]:
        rules[a] = [list(body)]
    shape = rng.choice(['tie-top', 'tie-top', 'strict', 'all-equal', 'tie-bottom'])
    hi = rng.choice([2, 3])
    if shape == 'tie-top':
        pr = [hi, hi] + [rng.choice([hi - 1, 1, -1]) for _ in range(k - 2)]
    elif shape == 'strict':
        pr = [hi + 1, hi] + [rng.choice([hi - 1, 1]) for _ in range(k - 2)]
    elif shape == 'all-equal':
        pr = [hi] * k
    else:
        pr = [hi] + [1] * (k - 1)
    rng.shuffle(pr)
    prio = {a: p for a, p in zip(nts[1:], pr) if not (p == 1 and rng.random() < 0.3)}
    return dict(rules=rules, prio=prio, starts=['start'], nts=nts, ts=ts, profile='tie3')


def render(g):
    out = []
    for a in g['nts']:
        head = a + ('.%d' % g['prio'][a] if a in g['prio'] else '')
        out.append('%s: %s' % (head, ' | '.join(' '.join(alt) for alt in g['rules'][a])))
    for t in g['ts']:
        out.append('%s: "%s"' % (t, t.lower()))
    return '\n'.join(out) + '\n'


# ------------------------------------------------------------------------------------------------
# observing lark
# ------------------------------------------------------------------------------------------------
class Capture:
    """wraps LALR_Analyzer / IntParseTable at run time; restores on exit"""

    def __enter__(self):
        from lark.parsers import lalr_analysis as LA
        self.LA = LA
        self.analyzers = []
        self.int_tables = []
        cap = self
        self.orig_init = LA.LALR_Analyzer.__init__
        self.orig_la = LA.LALR_Analyzer.compute_lookaheads
        self.orig_from = LA.IntParseTable.__dict__['from_ParseTable']

        def init(self_, parser_conf, *a, **k):
            cap.orig_init(self_, parser_conf, *a, **k)
            self_._lv_conf = parser_conf
            cap.analyzers.append(self_)

        def compute_lookaheads(self_):
            # snapshot before digraph() mutates directly_reads through its set aliasing
            self_._lv_snapshot = dict(
                dr={k: set(v) for k, v in self_.directly_reads.items()},
                reads={k: set(v) for k, v in self_.reads.items()},
                includes={k: set(v) for k, v in self_.includes.items()},
                lookback={k: set(v) for k, v in self_.lookback.items()},
                nts=list(self_.nonterminal_transitions),
                # the orders digraph() will see: X as listed, R[x] in the iteration order of the set objects themselves
                order_reads={k: list(v) for k, v in self_.reads.items()},
                order_includes={k: list(v) for k, v in self_.includes.items()})
            return cap.orig_la(self_)

        def from_ParseTable(cls, parse_table):
            res = cap.orig_from.__func__(cls, parse_table)
            cap.int_tables.append((parse_table, res))
            return res

        LA.LALR_Analyzer.__init__ = init
        LA.LALR_Analyzer.compute_lookaheads = compute_lookaheads
        LA.IntParseTable.from_ParseTable = classmethod(from_ParseTable)
        return self

    def __exit__(self, *a):
        self.LA.LALR_Analyzer.__init__ = self.orig_init
        self.LA.LALR_Analyzer.compute_lookaheads = self.orig_la
        self.LA.IntParseTable.from_ParseTable = self.orig_from


class Obs:
    """everything observed about one grammar, in canonical numbering"""


def observe(text, starts, lexer='basic', extra_terms=()):
    """Build Lark(text, parser='lalr') with the wrappers installed. Returns Obs or raises for non-grammar errors."""
    from lark import Lark
    from lark.exceptions import GrammarError
    o = Obs()
    o.text, o.starts = text, list(starts)
    with Capture() as cap:
        try:
            o.lark = Lark(text, parser='lalr', lexer=lexer, start=list(starts))
            o.error = None
        except GrammarError as e:
            o.lark = None
            o.error = str(e)
    if not cap.analyzers:
        o.analyzer = None       # GrammarError before the analysis (front end): not a C02 case
        return o
    an = cap.analyzers[-1]
    o.analyzer = an
    if not hasattr(an, '_lv_snapshot') or not hasattr(an, 'lr0_itemsets'):
        o.analyzer = None
        return o
    o.int_table = cap.int_tables[-1] if cap.int_tables else None
    conf = an._lv_conf
    roots = [next(iter(an.lr0_start_states[s].kernel)).rule for s in conf.start]
    o.rules = list(conf.rules) + roots
    o.rule_idx = {r: i for i, r in enumerate(o.rules)}
    o.roots = [o.rule_idx[r] for r in roots]
    tnames = sorted(({s.name for r in o.rules for s in r.expansion if s.is_term} |
                     {la.name for st in an.lr0_itemsets for la in st.lookaheads} | set(extra_terms)) - {END})
    o.tnum = {END: 0}
    for t in tnames:
        o.tnum.setdefault(t, len(o.tnum))
    ntnames = sorted({r.origin.name for r in o.rules})
    o.ntnum = {a: i for i, a in enumerate(ntnames)}
    o.start_conf = list(conf.start)
    return o


def sym(o, s):
    return ('T', o.tnum[s.name]) if s.is_term else ('NT', o.ntnum[s.name])


def item_set(o, rps):
    return tuple(sorted((o.rule_idx[rp.rule], rp.index) for rp in rps))


def dump_analysis(o):
    """canonical dump of the analyzer's internal state (states by kernel)"""
    an = o.analyzer
    snap = an._lv_snapshot
    d = {}
    d['rules'] = [(o.ntnum[r.origin.name], [sym(o, s) for s in r.expansion]) for r in o.rules]
    d['prio'] = [(r.options.priority or 0) if r.options else 0 for r in o.rules]
    d['roots'] = o.roots
    d['nullable'] = sorted(o.ntnum[s.name] for s in an.NULLABLE if not s.is_term and s.name in o.ntnum
                           and not s.name.startswith('$root'))
    K = lambda st: item_set(o, st.kernel)
    d['states'] = sorted(
        (K(st), item_set(o, st.closure),
         sorted((sym(o, s), K(t)) for s, t in st.transitions.items()),
         sorted((o.tnum[la.name], sorted(o.rule_idx[r] for r in rs)) for la, rs in st.lookaheads.items() if rs))
        for st in an.lr0_itemsets)
    ntk = lambda nt: (K(nt[0]), o.ntnum[nt[1].name])
    d['nts'] = sorted(ntk(nt) for nt in snap['nts'])
    d['dr'] = sorted((ntk(k), sorted(o.tnum[t.name] for t in v)) for k, v in snap['dr'].items())
    d['reads'] = sorted((ntk(k), sorted(ntk(x) for x in v)) for k, v in snap['reads'].items())
    d['includes'] = sorted((ntk(k), sorted(ntk(x) for x in v)) for k, v in snap['includes'].items() if v)
    d['lookback'] = sorted((ntk(k), sorted((K(s), o.rule_idx[r]) for s, r in v)) for k, v in snap['lookback'].items())
    d['order_nts'] = [ntk(nt) for nt in snap['nts']]
    d['order_reads'] = [[ntk(y) for y in snap['order_reads'].get(nt, [])] for nt in snap['nts']]
    d['order_includes'] = [[ntk(y) for y in snap['order_includes'].get(nt, [])] for nt in snap['nts']]
    d['error'] = o.error is not None
    return d


def table_dump(o, d):
    """the parse table lark will run, renamed: state number = position of its kernel in d['states'].
    Uses the IntParseTable (non-debug) and recovers int -> closure by walking both tables from the start states."""
    pt, it = o.int_table
    closure_to_k = {st[1]: i for i, st in enumerate(d['states'])}
    cl = lambda fs: item_set(o, fs)
    ren = {}
    work = []
    for s in o.start_conf:
        ren[it.start_states[s]] = pt.start_states[s]
        work.append(it.start_states[s])
    from lark.parsers.lalr_analysis import Shift
    while work:
        i = work.pop()
        prow, irow = pt.states[ren[i]], it.states[i]
        if set(prow) != set(irow):
            raise AssertionError('IntParseTable row keys differ from ParseTable row')
        for name, (act, arg) in irow.items():
            pact, parg = prow[name]
            if (act is Shift) != (pact is Shift):
                raise AssertionError('IntParseTable action kind differs')
            if act is Shift:
                if arg in ren:
                    if ren[arg] != parg:
                        raise AssertionError('IntParseTable renaming inconsistent')
                else:
                    ren[arg] = parg
                    work.append(arg)
            elif arg != parg:
                raise AssertionError('IntParseTable reduce rule differs')
    num = {i: closure_to_k[cl(c)] for i, c in ren.items()}
    name_sym = {}
    for t, n in o.tnum.items():
        name_sym[t] = ('T', n)
    for a, n in o.ntnum.items():
        name_sym[a] = ('NT', n)
    rows = []
    for i in sorted(it.states, key=lambda i: num.get(i, 10 ** 6)):
        if i not in num:
            continue    # unreachable by shifts from a start state: cannot be entered by the driver
        row = sorted((name_sym[name], ('S', num[arg]) if act is Shift else ('R', o.rule_idx[arg]))
                     for name, (act, arg) in it.states[i].items())
        rows.append((num[i], row))
    t = dict(rows=rows, num=num,
             start={s: num[it.start_states[s]] for s in o.start_conf},
             end={s: num[it.end_states[s]] for s in o.start_conf},
             unreachable=len(it.states) - len(num))
    return t


# ------------------------------------------------------------------------------------------------
# independent oracles (search only)
# ------------------------------------------------------------------------------------------------
def py_nullable(rules):
    N = set()
    ch = True
    while ch:
        ch = False
        for lhs, rhs in rules:
            if lhs not in N and all(s[0] == 'NT' and s[1] in N for s in rhs):
                N.add(lhs)
                ch = True
    return N


def earley_accepts(rules, start_nt, toks):
    """plain Earley recogniser (fixpoint per column); toks = list of terminal numbers"""
    by = {}
    for i, (lhs, rhs) in enumerate(rules):
        by.setdefault(lhs, []).append(i)
    n = len(toks)
    cols = [set() for _ in range(n + 1)]
    for r in by.get(start_nt, []):
        cols[0].add((r, 0, 0))
    for k in range(n + 1):
        ch = True
        while ch:
            ch = False
            for (r, d, j) in list(cols[k]):
                rhs = rules[r][1]
                if d < len(rhs):
                    s = rhs[d]
                    if s[0] == 'NT':
                        for r2 in by.get(s[1], []):
                            if (r2, 0, k) not in cols[k]:
                                cols[k].add((r2, 0, k))
                                ch = True
                        # completed items of s spanning k..k
                        for (r3, d3, j3) in list(cols[k]):
                            if j3 == k and d3 == len(rules[r3][1]) and rules[r3][0] == s[1]:
                                if (r, d + 1, j) not in cols[k]:
                                    cols[k].add((r, d + 1, j))
                                    ch = True
                else:
                    lhs = rules[r][0]
                    for (r2, d2, j2) in list(cols[j]):
                        rhs2 = rules[r2][1]
                        if d2 < len(rhs2) and rhs2[d2] == ('NT', lhs):
                            if (r2, d2 + 1, j2) not in cols[k]:
                                cols[k].add((r2, d2 + 1, j2))
                                ch = True
        if k < n:
            for (r, d, j) in cols[k]:
                rhs = rules[r][1]
                if d < len(rhs) and rhs[d] == ('T', toks[k]):
                    cols[k + 1].add((r, d + 1, j))
    return any(rules[r][0] == start_nt and d == len(rules[r][1]) and j == 0 for (r, d, j) in cols[n])


def py_first(rules):
    nullable = py_nullable(rules)
    first = {}
    ch = True
    while ch:
        ch = False
        for lhs, rhs in rules:
            f = first.setdefault(lhs, set())
            for s in rhs:
                add = {s[1]} if s[0] == 'T' else first.get(s[1], set())
                if not add <= f:
                    f |= add
                    ch = True
                if not (s[0] == 'NT' and s[1] in nullable):
                    break
    return first, nullable


def lr1_merge(rules, roots, tend=0):
    """canonical LR(1) item sets, merged by LR(0) core.
    returns {core kernel (tuple of (rule,dot)): (transitions {sym: core kernel}, LA {(rule): set(terms)})}"""
    first, nullable = py_first(rules)
    by = {}
    for i, (lhs, rhs) in enumerate(rules):
        by.setdefault(lhs, []).append(i)

    def first_of(seq, la):
        out = set()
        for s in seq:
            if s[0] == 'T':
                out.add(s[1])
                return out
            out |= first.get(s[1], set())
            if s[1] not in nullable:
                return out
        out.add(la)
        return out

    def closure(kernel):
        items = set(kernel)
        work = list(kernel)
        while work:
            r, d, la = work.pop()
            rhs = rules[r][1]
            if d < len(rhs) and rhs[d][0] == 'NT':
                for b in first_of(rhs[d + 1:], la):
                    for r2 in by.get(rhs[d][1], []):
                        it = (r2, 0, b)
                        if it not in items:
                            items.add(it)
                            work.append(it)
        return frozenset(items)

    start_kernels = [frozenset({(r, 0, tend)}) for r in roots]
    seen = {}
    work = []
    for k in start_kernels:
        seen[k] = closure(k)
        work.append(k)
    trans = {}
    while work:
        k = work.pop()
        c = seen[k]
        bysym = {}
        for (r, d, la) in c:
            rhs = rules[r][1]
            if d < len(rhs):
                bysym.setdefault(rhs[d], set()).add((r, d + 1, la))
        for s, ks in bysym.items():
            k2 = frozenset(ks)
            trans[(k, s)] = k2
            if k2 not in seen:
                seen[k2] = closure(k2)
                work.append(k2)
    core = lambda k: tuple(sorted({(r, d) for r, d, _ in k}))
    merged = {}
    for k, c in seen.items():
        m = merged.setdefault(core(k), ({}, {}))
        for (r, d, la) in c:
            if d == len(rules[r][1]):
                m[1].setdefault(r, set()).add(la)
    for (k, s), k2 in trans.items():
        merged[core(k)][0][s] = core(k2)
    return merged


def expected_conflict(merged, prio):
    """R/R collision expected by the property: some merged state has a terminal with >= 2 rules and no strict
    priority maximum"""
    for core, (tr, la) in merged.items():
        byterm = {}
        for r, ts in la.items():
            for t in ts:
                byterm.setdefault(t, []).append(r)
        for t, rs in byterm.items():
            if len(rs) > 1:
                ps = sorted((prio[r] for r in rs), reverse=True)
                if not ps[0] > ps[1]:
                    return (core, t, sorted(rs))
    return None


def expected_rows(merged, prio):
    """row keys (symbols) and actions per merged state, shift preferred, R/R by strict priority"""
    out = {}
    for core, (tr, la) in merged.items():
        row = {s: ('S', k2) for s, k2 in tr.items()}
        byterm = {}
        for r, ts in la.items():
            for t in ts:
                byterm.setdefault(t, []).append(r)
        for t, rs in byterm.items():
            if ('T', t) in row:
                continue
            if len(rs) > 1:
                best = max(rs, key=lambda r: prio[r])
                if sum(1 for r in rs if prio[r] == prio[best]) > 1:
                    continue
                rs = [best]
            row[('T', t)] = ('R', rs[0])
        out[core] = row
    return out


# ------------------------------------------------------------------------------------------------
# Coq literals
# ------------------------------------------------------------------------------------------------
def c_sym(s):
    return '(%s %d)' % ('T' if s[0] == 'T' else 'NT', s[1])


def c_item(it):
    return '(%d,%d)' % it


def c_items(k):
    return L([c_item(i) for i in k])


def c_nats(l):
    return L(['%d' % x for x in l])


def c_nt(x):
    return '(%s,%d)' % (c_items(x[0]), x[1])


def c_rules(d):
    return L(['(mkRule %d %s)' % (lhs, L([c_sym(s) for s in rhs])) for lhs, rhs in d['rules']])


def c_row(row):
    return L(['(%s,%s)' % (c_sym(s), ('(OShift %d)' % a[1]) if a[0] == 'S' else ('(RuleRef %d)' % a[1])) for s, a in row])


def c_tree(t):
    if t[0] == 'L':
        return '(OLeaf %d)' % t[1]
    return '(ONode %d %s)' % (t[1], L([c_tree(c) for c in t[2]]))


# ------------------------------------------------------------------------------------------------
# inputs
# ------------------------------------------------------------------------------------------------
def min_heights(rules):
    INF = 10 ** 6
    h = {}
    ch = True
    while ch:
        ch = False
        for lhs, rhs in rules:
            v = 1 + max([0] + [(0 if s[0] == 'T' else h.get(s[1], INF)) for s in rhs])
            if v < h.get(lhs, INF):
                h[lhs] = v
                ch = True
    return h


def sample_sentence(rules, start_nt, rng, budget=12):
    h = min_heights(rules)
    if start_nt not in h:
        return None
    by = {}
    for lhs, rhs in rules:
        by.setdefault(lhs, []).append(rhs)
    out = []

    def go(a, depth):
        alts = by[a]
        ok = [r for r in alts if all(s[0] == 'T' or s[1] in h for s in r)]
        if depth <= 0 or len(out) > 10:
            m = min(1 + max([0] + [(0 if s[0] == 'T' else h[s[1]]) for s in r]) for r in ok)
            ok = [r for r in ok if 1 + max([0] + [(0 if s[0] == 'T' else h[s[1]]) for s in r]) == m]
        r = rng.choice(ok)
        for s in r:
            if s[0] == 'T':
                out.append(s[1])
            else:
                go(s[1], depth - 1)
    go(start_nt, rng.randint(1, 4))
    return out[:budget] if len(out) <= budget else None


def gen_inputs(rng, rules, start_nt, terms, n_sent=8, n_mut=6, n_rand=4, exhaustive=2):
    ws = []
    seen = set()

    def add(w):
        w = tuple(w)
        if w not in seen and len(w) <= 12:
            seen.add(w)
            ws.append(list(w))
    for L_ in range(exhaustive + 1):
        for w in itertools.product(terms, repeat=L_):
            add(w)
    sents = []
    for _ in range(n_sent):
        s = sample_sentence(rules, start_nt, rng)
        if s is not None:
            sents.append(s)
            add(s)
    for _ in range(n_mut):
        if not sents or not terms:
            break
        s = list(rng.choice(sents))
        k = rng.random()
        if k < 0.35 and s:
            del s[rng.randrange(len(s))]
        elif k < 0.7:
            s.insert(rng.randint(0, len(s)), rng.choice(terms))
        elif s:
            s[rng.randrange(len(s))] = rng.choice(terms)
        add(s)
    for _ in range(n_rand):
        if terms:
            add([rng.choice(terms) for _ in range(rng.randint(3, 7))])
    return ws


# ------------------------------------------------------------------------------------------------
# driving the real driver
# ------------------------------------------------------------------------------------------------
CODE = {'shift': 0, 'accept': 1, 'unexpected': 2, 'assert': 3, 'crash': 4, 'hang': 5}


class Hang(Exception):
    pass


class CountingStates(dict):
    """ParseConf.states replacement: counts row look-ups (two per loop iteration of feed_token) and raises Hang
    when one feed_token call exceeds LIMIT - a deterministic stand-in for 'does not return'"""
    LIMIT = 5000

    def __init__(self, d):
        dict.__init__(self, d)
        self.n = 0

    def __getitem__(self, k):
        self.n += 1
        if self.n > self.LIMIT:
            raise Hang()
        return dict.__getitem__(self, k)


def is_cyclic(rules):
    """some non-terminal derives itself in >= 1 step (A =>+ A): the only grammars on which an LR driver can
    reduce for ever without consuming input"""
    nullable = py_nullable(rules)
    nul = lambda s: s[0] == 'NT' and s[1] in nullable
    R = {}
    for lhs, rhs in rules:
        for i, s in enumerate(rhs):
            if s[0] == 'NT' and all(nul(x) for x in rhs[:i]) and all(nul(x) for x in rhs[i + 1:]):
                R.setdefault(lhs, set()).add(s[1])
    return has_cycle(list(R), R)


def drive(o, tab, start, w, guard=True):
    """feed w (terminal numbers) then $END through parse_interactive on the real ParserState; returns
    (steps, tree) with steps = [(t, code, stack_topfirst, keys)]"""
    from copy import copy
    from lark import Token
    from lark.exceptions import UnexpectedToken
    tname = {v: k for k, v in o.tnum.items()}
    name_sym = dict([(t, ('T', n)) for t, n in o.tnum.items()] + [(a, ('NT', n)) for a, n in o.ntnum.items()])
    ip = o.lark.parse_interactive('', start=start)
    ps = ip.parser_state
    conf = copy(ps.parse_conf)
    conf.callbacks = {r: (lambda s, i=i: ('N', i, list(s))) for r, i in o.rule_idx.items()}
    counting = CountingStates(conf.states)
    conf.states = counting
    ps.parse_conf = conf
    steps = []
    tree = None

    def conv(v):
        if isinstance(v, tuple):
            return ('N', v[1], [conv(c) for c in v[2]])
        return ('L', o.tnum[v.type])
    for t in list(w) + [0]:
        keys = None
        counting.n = 0
        try:
            r = ip.feed_token(Token(tname[t], ''))
            if t == 0:
                code = 'accept'
                tree = conv(r)
            else:
                code = 'shift'
        except Hang:
            steps.append((t, CODE['hang'], [], []))
            break
        except UnexpectedToken as e:
            code = 'unexpected'
            keys = sorted(('T', o.tnum[x]) for x in e.expected)
        except AssertionError:
            code = 'assert'
        except (KeyError, IndexError):
            code = 'crash'
        stack = [tab['num'][q] for q in reversed(ps.state_stack)]
        if keys is None:
            keys = sorted(name_sym[k] for k in ip.choices()) if code == 'shift' else []
        steps.append((t, CODE[code], stack, keys))
        if code != 'shift':
            break
    return steps, tree


def c_dcase(o, d, tab, start, runs):
    nuser = len(d['rules']) - len(d['roots'])
    rows = L(['(%d,%s)' % (q, c_row(row)) for q, row in tab['rows']])
    items = L(['(%d,%s)' % (q, c_items(d['states'][q][1])) for q, _ in tab['rows']])
    rs = []
    for steps, tree in runs:
        st = L(['(%d,%d,%s,%s)' % (t, code, c_nats(stack), L([c_sym(k) for k in keys])) for t, code, stack, keys in steps])
        rs.append('(%s,%s)' % (st, ('(Some %s)' % c_tree(tree)) if tree is not None else 'None'))
    start_nt = o.ntnum[start]
    return '(mkDCase %s %d %s %d %d %d %s %s)' % (c_rules(d), nuser, rows, tab['start'][start], tab['end'][start],
                                                  start_nt, items, L(rs))


# ------------------------------------------------------------------------------------------------
# classification helpers
# ------------------------------------------------------------------------------------------------
def has_cycle(nodes, R):
    """non-trivial SCC or self-loop in relation R (dict node -> iterable)"""
    color = {}

    def dfs(x):
        color[x] = 1
        for y in R.get(x, ()):
            c = color.get(y, 0)
            if c == 1:
                return True
            if c == 0 and dfs(y):
                return True
        color[x] = 2
        return False
    return any(color.get(x, 0) == 0 and dfs(x) for x in nodes)


def productive_and_reduced(rules, roots):
    h = min_heights(rules)
    return all(lhs in h for lhs, _ in rules)


def lark_la(d):
    out = {}
    for k, c, tr, las in d['states']:
        m = {}
        for la, rs in las:
            for r in rs:
                m.setdefault(r, set()).add(la)
        out[k] = m
    return out


def table_conflicts(d):
    """(#shift/reduce, #reduce/reduce incl. priority-resolved) of lark's own look-ahead sets"""
    sr = rr = 0
    for k, c, tr, las in d['states']:
        shift_t = {s[1] for s, _ in tr if s[0] == 'T'}
        for la, rs in las:
            if la in shift_t:
                sr += 1
            if len(rs) > 1:
                rr += 1
    return sr, rr


# ------------------------------------------------------------------------------------------------
# the property's own oracles evaluated on one observed grammar (failing-input search)
# ------------------------------------------------------------------------------------------------
def names(o, w):
    tname = {v: k for k, v in o.tnum.items()}
    return [tname[t] for t in w]


def grammar_oracles(o, d, tab):
    """returns list of (kind, detail dict) where the implementation contradicts the property's oracles.
    Only evaluated inside the class where the oracle is the property (see RULE)."""
    out = []
    merged = lr1_merge(d['rules'], d['roots'])
    user_prio = list(d['prio'])
    # the root rules never compete: lark accepts as soon as the end state is reached on $END
    merged_user = {k: (tr, {r: ts for r, ts in la.items() if r not in d['roots']}) for k, (tr, la) in merged.items()}
    exp_conf = expected_conflict(merged_user, user_prio)
    if (exp_conf is not None) != d['error']:
        out.append(('conflict', dict(expected_collision=repr(exp_conf), grammar_error=d['error'])))
        return out
    la = lark_la(d)
    for k, c, tr, las in d['states']:
        exp = {r: ts for r, ts in merged_user.get(k, ({}, {}))[1].items() if ts}
        if exp != la[k]:
            out.append(('lookahead', dict(state_kernel=list(k), lark={r: sorted(v) for r, v in la[k].items()},
                                          lr1_merge={r: sorted(v) for r, v in exp.items()})))
            return out
    if tab is not None:
        exp_rows = expected_rows(merged_user, user_prio)
        kern = [st[0] for st in d['states']]
        for q, row in tab['rows']:
            got = {s: (a if a[0] == 'R' else ('S', kern[a[1]])) for s, a in row}
            if got != exp_rows.get(kern[q]):
                out.append(('table', dict(state_kernel=list(kern[q]), lark_row=repr(sorted(got.items())),
                                          expected_row=repr(sorted(exp_rows.get(kern[q], {}).items())))))
                return out
    return out


def membership_oracle(o, d, start, steps, w, complete_ok):
    """None if consistent; else description"""
    acc = steps[-1][1] == CODE['accept']
    user_rules = d['rules'][:len(d['rules']) - len(d['roots'])]
    ref = earley_accepts(user_rules, o.ntnum[start], list(w))
    if acc and not ref:
        return 'accepted a string that is not a sentence'
    if ref and not acc and complete_ok and steps[-1][1] == CODE['unexpected']:
        return 'rejected a sentence of a conflict-free grammar'
    if steps[-1][1] in (CODE['assert'], CODE['crash']):
        return 'driver raised a non-parse exception'
    if steps[-1][1] == CODE['hang'] and complete_ok:
        return 'driver does not terminate on a conflict-free grammar'
    return None


def T_(*names):
    return ''.join('%s: "%s"\n' % (t, t.lower()) for t in names)


# fixed corpus, run through the same pipeline as the random grammars (model vs code on every observation point)
FIXED = [
    # the F13 witness (LALR(1); a kernel item of origin a in a state that also has an a-transition)
    ('start: a E | c | Y e2 D\na: Y b\nc: Y a D\nb: B\ne2: B\n' + T_('B', 'D', 'E', 'Y'), ['start'], ['B', 'D', 'E', 'Y']),
    # expression grammar (LALR(1), left recursion, shared look-aheads)
    ('start: start A b | b\nb: b B c | c\nc: C start D | D\n' + T_('A', 'B', 'C', 'D'), ['start'], ['A', 'B', 'C', 'D']),
    # dangling else: shift/reduce resolved as shift
    ('start: A start | A start B start | C\n' + T_('A', 'B', 'C'), ['start'], ['A', 'B', 'C']),
    # LR(1) but not LALR(1): merging cores creates a reduce/reduce collision -> GrammarError
    ('start: A a C | A b D | B a D | B b C\na: A\nb: A\n' + T_('A', 'B', 'C', 'D'), ['start'], ['A', 'B', 'C', 'D']),
    # the same with a priority: builds, and loses the sentences of the other rule
    ('start: A a C | A b D | B a D | B b C\na.2: A\nb: A\n' + T_('A', 'B', 'C', 'D'), ['start'], ['A', 'B', 'C', 'D']),
    # LR(2): priority-resolved collision rejects the sentence "d a c"
    ('start: a A B | b A C\na.2: D\nb: D\n' + T_('A', 'B', 'C', 'D'), ['start'], ['A', 'B', 'C', 'D']),
    # cyclic unit rule selected by priority: feed_token does not terminate on "d c" $END
    ('start: D a | D\na.2: a | C\n' + T_('C', 'D'), ['start'], ['C', 'D']),
    # nullable suffixes: includes through several nullable symbols
    ('start: A a b c | B a\na: A | \nb: B | \nc: C | \n' + T_('A', 'B', 'C'), ['start'], ['A', 'B', 'C']),
    # reads through nullable non-terminals after a transition
    ('start: a b c D\na: A\nb: | B\nc: | C\n' + T_('A', 'B', 'C', 'D'), ['start'], ['A', 'B', 'C', 'D']),
    # non-trivial reads-cycle (digraph set aliasing shows here; collision is legitimate)
    ('start: b a | C b | start start | \na:  | b D b | b D\nb:  | start\n' + T_('C', 'D'), ['start'], ['C', 'D']),
    # nullability climbing a top-down chain of unit rules after FIRST has settled ($END must be a look-ahead after "x t")
    ('start: A B n0\nn0: n1\nn1: n2 | C D\nn2: n3\nn3: n4\nn4: | C A\n' + T_('A', 'B', 'C', 'D'), ['start'], ['A', 'B', 'C', 'D']),
    ('start: A n0\nn0: n1\nn1: n2\nn2: n3\nn3:\n' + T_('A', 'B'), ['start'], ['A', 'B']),
    # three rules reducible on one look-ahead, best two tied, a lower one present: still a reduce/reduce GrammarError
    ('start: r0 B | r1 B | r2 B\nr0.2: A\nr1.2: A\nr2.1: A\n' + T_('A', 'B'), ['start'], ['A', 'B']),
    ('start: r0 | r1 | r2 | r3\nr0.3: A\nr1: A\nr2.3: A\nr3.-1: A\n' + T_('A', 'B'), ['start'], ['A', 'B']),
    # ... and with a strict winner it builds
    ('start: r0 B | r1 B | r2 B\nr0.3: A\nr1.2: A\nr2.1: A\n' + T_('A', 'B'), ['start'], ['A', 'B']),
    # two start symbols sharing states
    ('start: a A | B\na: B a | C\n' + T_('A', 'B', 'C'), ['start', 'a'], ['A', 'B', 'C']),
]


F13_GRAMMAR = ('start: a E | c | Y e2 D\na: Y b\nc: Y a D\nb: B\ne2: B\nE: "e"\nY: "y"\nD: "d"\nB: "b"\n',
               ['ybe', 'yybd', 'ybd'], ['yyybd', 'ybb', 'yd', ''])


def text_accepts(text, starts, start, s, lexer):
    from lark import Lark
    from lark.exceptions import UnexpectedInput
    p = Lark(text, parser='lalr', lexer=lexer, start=list(starts))
    try:
        p.parse(s, start=start)
        return True
    except UnexpectedInput:
        return False


# ------------------------------------------------------------------------------------------------
def correspond(ctx):
    rng = ctx.rng
    n_gram = int(os.environ.get('C02_N', 0)) or ctx.scale(200, 2400) * (3 if ctx.widen else 1)
    acases, ameta = [], []
    lcases, lmeta = [], []
    dcases, dmeta = [], []
    for gi in range(-len(FIXED), n_gram):
        if gi < 0:
            text, starts_, ts_ = FIXED[gi + len(FIXED)]
            g = dict(starts=starts_, ts=ts_, profile='fixed-corpus')
        else:
            g = gen_grammar(rng)
            text = render(g)
        try:
            o = observe(text, g['starts'], extra_terms=g['ts'])
        except Exception as e:   # noqa
            ctx.violation('impl-exception', {'grammar': text, 'starts': g['starts'], 'exception': repr(e)[:300],
                                             'kind': 'exception'}, True, 'Lark(parser=lalr) raised %s' % type(e).__name__)
            continue
        if o.analyzer is None:
            ctx.count('front-end-rejected', nontrivial=False)
            continue
        d = dump_analysis(o)
        cyc = has_cycle(d['nts'], dict(d['reads']))
        reduced = productive_and_reduced(d['rules'], d['roots'])
        tab = None
        if o.lark is not None:
            try:
                tab = table_dump(o, d)
            except AssertionError as e:
                ctx.violation('correspondence:IntParseTable', {'grammar': text, 'starts': g['starts'], 'kind': 'inttable',
                                                               'no_longer_checks': 'IntParseTable.from_ParseTable renaming',
                                                               'detail': str(e)}, False, str(e))
                continue
        sr, rr = table_conflicts(d)
        nstates = len(d['states'])
        n_red = sum(len(las) for _, _, _, las in d['states'])
        proper = any(0 < len(las) < len(o.tnum) for _, _, _, las in d['states'])
        stream = 'analysis-reads-cycle' if cyc else 'analysis'
        ctx.count(stream, key=text, nontrivial=(nstates >= 4 and n_red >= 1 and proper),
                  profile=g['profile'], states=min(nstates, 40) // 5 * 5, grammar_error=d['error'],
                  shift_reduce=min(sr, 3), reduce_reduce=min(rr, 3), reads_cycle=cyc, starts=len(g['starts']))
        if 0 <= gi < 2:
            ctx.sample({'grammar': text, 'starts': g['starts'], 'states': nstates, 'grammar_error': d['error'],
                        'shift_reduce_conflicts': sr, 'reduce_reduce_sets': rr})
        # --- the property's oracles (search) ---
        viol = []
        if reduced and not cyc:
            viol = grammar_oracles(o, d, tab)
            ctx.count('oracle-lr1-merge', key=text, nontrivial=(nstates >= 4 and proper))
        for kind, det in viol:
            ctx.violation('oracle:' + kind, dict(grammar=text, starts=g['starts'], kind=kind, **det), True,
                          'lark disagrees with the canonical-LR(1)-merge oracle (%s)' % kind)
        # --- model vs code: the analysis ---
        ac = dict(d)
        ac['table'] = []
        if tab is not None:
            ac['table'] = tab['rows']
        if reduced and len(d['roots']) == 1:
            # Coq-side oracle: model look-aheads == canonical-LR(1)-merge (LR/Lr1Merge.v), by vm_compute
            lcases.append('(%s,%d,%d)' % (c_rules(d), d['roots'][0], 400))
            lmeta.append(dict(grammar=text, starts=g['starts']))
            ctx.count('coq-lr1-merge', key=text, nontrivial=(nstates >= 4 and proper))
        acases.append(c_acase_coded(ac) if cyc else c_acase(ac))
        ameta.append(dict(grammar=text, starts=g['starts'], cyc=cyc, viol=bool(viol), error=d['error']))
        # --- model vs code: the driver, and membership ---
        if tab is None:
            continue
        terms = sorted(n for t, n in o.tnum.items() if n != 0)
        complete_ok = (sr == 0 and rr == 0)
        cyclic = is_cyclic(d['rules'])
        for start in g['starts']:
            user_rules = d['rules'][:len(d['rules']) - len(d['roots'])]
            ws = gen_inputs(rng, user_rules, o.ntnum[start], terms)
            runs = []
            hangs = 0
            for w in ws:
                if hangs >= 2:
                    break
                steps, tree = drive(o, tab, start, w, guard=cyclic)
                hangs += steps[-1][1] == CODE['hang']
                runs.append((steps, tree))
                nred = 0 if tree is None else count_nodes(tree)
                acc = steps[-1][1] == CODE['accept']
                if steps[-1][1] == CODE['hang']:
                    ctx.note('feed_token does not terminate (cyclic grammar, priority-resolved reduce/reduce): %r on %s'
                             % (text, names(o, w)))
                ctx.count('driver-cyclic-grammar' if cyclic else 'driver', key=(text, start, tuple(w)), nontrivial=(acc and nred >= 1) or len(steps) >= 3,
                          outcome=steps[-1][1], length=min(len(w), 8))
                msg = membership_oracle(o, d, start, steps, w, complete_ok)
                if msg:
                    ctx.violation('oracle:membership', dict(grammar=text, starts=g['starts'], start=start, kind='membership',
                                                            input=names(o, w), conflict_free=complete_ok,
                                                            lalr_outcome=steps[-1][1]), True, msg)
            dcases.append(c_dcase(o, d, tab, start, runs))
            dmeta.append(dict(grammar=text, starts=g['starts'], start=start, inputs=[names(o, [s[0] for s in st[:-1]]) for st, _ in runs][:5]))
            # text level, both lexers (terminals are distinct single characters)
            if gi % 6 == 0 and not cyclic:
                for w in ws[:12]:
                    s_ = ''.join(x.lower() for x in names(o, w))
                    ref = earley_accepts(user_rules, o.ntnum[start], list(w))
                    for lexer in ('basic', 'contextual'):
                        got = text_accepts(text, g['starts'], start, s_, lexer)
                        ctx.count('text-' + lexer, key=(text, start, s_), nontrivial=got)
                        if got and not ref or (ref and not got and complete_ok):
                            ctx.violation('oracle:membership-text', dict(grammar=text, starts=g['starts'], start=start,
                                                                         kind='membership-text', text=s_, lexer=lexer,
                                                                         conflict_free=complete_ok, accepted=got), True,
                                          'parse() %s a string the Earley-style oracle %s' %
                                          ('accepted' if got else 'rejected', 'rejects' if got else 'accepts'))

    # regression stream: the F13 witness must now build and accept
    gtxt, yes, no = F13_GRAMMAR
    for s_ in yes + no:
        try:
            got = text_accepts(gtxt, ['start'], 'start', s_, 'basic')
        except Exception as e:   # noqa
            got = 'GrammarError' if type(e).__name__ == 'GrammarError' else repr(e)
        ctx.count('regression-F13', key=s_, nontrivial=(got is True))
        if got != (s_ in yes):
            ctx.violation('regression:F13', dict(grammar=gtxt, starts=['start'], start='start', kind='membership-text',
                                                 text=s_, lexer='basic', conflict_free=True, accepted=got), True,
                          'LALR(1) grammar: expected %s, got %s' % (s_ in yes, got), key='F13:includes-kernel-item')

    # --- Coq: model of the analysis vs lark ---
    # grammars without a reads-cycle: exact agreement with the specification-level model at every stage.
    # Grammars with a reads-cycle (never LR(k)): lark's digraph() aliases the Read set object of the members of a
    # reads-SCC, so its look-ahead sets can be larger than the least solution and, with priorities, a different rule can
    # win a look-ahead.  No tolerance: for this class the look-aheads are computed in Coq by the AS-CODED digraph
    # (LR/Digraph.v) run with lark's own node order and set iteration orders (exported above), and look-ahead sets,
    # GrammarError yes/no and the table must agree EXACTLY with that (AutomatonCheck.coded_stages); states, NULLABLE and
    # the four relations are compared with the model as always.
    idx_exact = [i for i, m in enumerate(ameta) if not m['cyc']]
    idx_tol = [i for i, m in enumerate(ameta) if m['cyc']]
    for fn, diag_fn, idxs in (('check_acase', 'diag_acase', idx_exact), ('check_acase_coded', 'diag_acase_coded', idx_tol)):
        sub = [acases[i] for i in idxs]
        bad, errs = ctx.coq_bad_indices('c02a_' + fn[-3:], IMPORTS, fn, sub, chunk=max(8, len(sub) // 6 + 1))
        for e in errs:
            ctx.violation('correspondence:coq-eval', {'error': e[-600:], 'no_longer_checks': 'coq evaluation of analysis cases'},
                          False, e[-300:])
        for k_, bi in enumerate(bad):
            i = idxs[bi]
            m = ameta[i]
            stages = None
            if k_ < 3:        # one coqc per diagnosis: keep the number small
                stages, _ = ctx.coq_eval('c02a_diag_%s_%d' % (fn[-3:], i), IMPORTS, '%s %s' % (diag_fn, acases[i]))
            failing = set((stages or '').strip('[]').replace(' ', '').split(';')) - {''}
            if not m['viol']:
                ctx.violation('correspondence:LR/Automaton vs lalr_analysis', dict(
                    no_longer_checks='model/implementation agreement (stages %s of AutomatonCheck.%s)' % (stages, 'coded_stages' if m['cyc'] else 'stages'),
                    grammar=m['grammar'], starts=m['starts'], kind='analysis'), False,
                    'model and LALR_Analyzer disagree at stages %s; the LR(1)-merge/membership oracles hold here' % stages)
    if idx_tol:
        ctx.note('%d grammar(s) with a reads-cycle compared exactly with the as-coded digraph model' % len(idx_tol))

    # --- Coq: the model's look-ahead sets vs the executable canonical-LR(1)-merge specification ---
    bad, errs = ctx.coq_bad_indices('c02l', IMPORTS, 'check_lr1', lcases, chunk=max(8, len(lcases) // 6 + 1))
    for e in errs:
        ctx.violation('correspondence:coq-eval', {'error': e[-600:], 'no_longer_checks': 'coq evaluation of LR(1)-merge cases'},
                      False, e[-300:])
    for i in bad:
        m = lmeta[i]
        ctx.violation('correspondence:LR/Automaton look-aheads vs LR/Lr1Merge', dict(
            no_longer_checks='model LA = canonical-LR(1)-merge look-aheads (check_lr1)', grammar=m['grammar'],
            starts=m['starts'], kind='analysis'), False,
            'the model of lalr_analysis.py and the Coq canonical-LR(1)-merge specification disagree on a reduced grammar')

    # --- Coq: model driver on lark's own table vs feed_token, plus the table certificate ---
    bad, errs = ctx.coq_bad_indices('c02d', IMPORTS, 'check_dcase', dcases, chunk=max(8, len(dcases) // 6 + 1))
    for e in errs:
        ctx.violation('correspondence:coq-eval', {'error': e[-600:], 'no_longer_checks': 'coq evaluation of driver cases'},
                      False, e[-300:])
    for k_, i in enumerate(bad):
        m = dmeta[i]
        diag = None
        if k_ < 3:
            diag, _ = ctx.coq_eval('c02d_diag_%d' % i, IMPORTS, 'diag_dcase %s' % dcases[i])
        ctx.violation('correspondence:LR/Driver vs ParserState.feed_token', dict(
            no_longer_checks='driver model on the exported table / table certificate (diag %s)' % diag,
            grammar=m['grammar'], starts=m['starts'], start=m['start'], kind='driver'), False,
            'model driver and feed_token disagree (first flag = certificate, then one per input): %s' % diag)

    digraph_stream(ctx)


def count_nodes(t):
    return 0 if t[0] == 'L' else 1 + sum(count_nodes(c) for c in t[2])


def c_acase_coded(d):
    pos = {st[0]: i for i, st in enumerate(d['states'])}
    nt = lambda x: '(%d,%d)' % (pos[x[0]], x[1])
    return '(%s,%s,%s,%s)' % (c_acase(d), L([nt(x) for x in d['order_nts']]),
                              L([L([nt(y) for y in ys]) for ys in d['order_reads']]),
                              L([L([nt(y) for y in ys]) for ys in d['order_includes']]))


def c_acase(d):
    """states are referenced by their position in the (kernel-sorted) state list; Coq maps positions to the model's
    own state numbers through the kernels"""
    pos = {st[0]: i for i, st in enumerate(d['states'])}
    nt = lambda x: '(%d,%d)' % (pos[x[0]], x[1])
    states = L(['(%s,%s,%s,%s)' % (c_items(k), c_items(c), L(['(%s,%d)' % (c_sym(s), pos[t]) for s, t in tr]),
                                     L(['(%d,%s)' % (la, c_nats(rs)) for la, rs in las]))
                for k, c, tr, las in d['states']])
    rel = lambda key, f: L(['(%s,%s)' % (nt(k), f(v)) for k, v in d[key]])
    table = L(['(%d,%s)' % (q, L(['(%s,%s)' % (c_sym(s_), ('(KShift %d)' % a[1]) if a[0] == 'S'
                                               else ('(KReduce %d)' % a[1])) for s_, a in row]))
               for q, row in d['table']])
    return ('(mkACase %s %s %s %d %s %s %s %s %s %s %s %s %s)' % (
        c_rules(d), L(['(%d)%%Z' % p for p in d['prio']]), c_nats(d['roots']), 400,
        c_nats(d['nullable']), states, L([nt(x) for x in d['nts']]),
        rel('dr', c_nats), rel('reads', lambda v: L([nt(x) for x in v])),
        rel('includes', lambda v: L([nt(x) for x in v])),
        rel('lookback', lambda v: L(['(%d,%d)' % (pos[s_], r) for s_, r in v])),
        'true' if d['error'] else 'false', table))


# ------------------------------------------------------------------------------------------------
# digraph()/traverse() driven directly
# ------------------------------------------------------------------------------------------------
def digraph_stream(ctx):
    from lark.parsers.lalr_analysis import digraph
    rng = ctx.rng
    cases, meta = [], []
    for _ in range(ctx.scale(300, 3000)):
        n = rng.randint(1, 7)
        X = list(range(n))
        dens = rng.choice([0.1, 0.25, 0.5])
        R = {x: [y for y in X if rng.random() < dens] for x in X}
        G = {x: {rng.randint(0, 5) for _ in range(rng.randint(0, 2))} for x in X}
        G0 = {x: sorted(v) for x, v in G.items()}
        try:
            F = digraph(X, R, G)
            got = [sorted(F[x]) for x in X]
        except Exception as e:  # noqa
            ctx.violation('digraph-exception', dict(kind='digraph', X=X, R=R, G=G0, exception=repr(e)), True,
                          'digraph raised %r' % e)
            continue
        cyc = has_cycle(X, R)
        ctx.count('digraph-direct', key=(tuple(sorted((x, tuple(v)) for x, v in R.items())), tuple(sorted((x, tuple(v)) for x, v in G0.items()))),
                  nontrivial=cyc, cyclic=cyc)
        cases.append('(%s,%s)' % (L(['(%d,%s,%s)' % (x, c_nats(R[x]), c_nats(G0[x])) for x in X]), L([c_nats(v) for v in got])))
        meta.append(dict(X=X, R=R, G=G0, got=got))
    bad, errs = ctx.coq_bad_indices('c02g', IMPORTS, 'check_digraph', cases, chunk=1000)
    for e in errs:
        ctx.violation('correspondence:coq-eval', {'error': e[-600:], 'no_longer_checks': 'coq evaluation of digraph cases'}, False, e[-300:])
    for i in bad:
        m = meta[i]
        ctx.violation('oracle:digraph', dict(kind='digraph', **m), True,
                      'digraph(X,R,G) differs from F x = G x U U{F y | x R y}')
    digraph_coded_stream(ctx)


def digraph_coded_stream(ctx):
    """lark's digraph()/traverse() against the AS-CODED model LR/Digraph.v (stack, index map, heap of set objects):
    (a) one call: the result F and the caller's G sets afterwards (F[x] = G[x] aliases them);
    (b) two calls as in compute_lookaheads - the second call's G is the first call's F, whose SCC members share one set
        object; here the specification closure differs from the code and the model must agree with the code exactly."""
    from lark.parsers.lalr_analysis import digraph
    rng = ctx.rng
    c1, m1, c2, m2 = [], [], [], []
    for k in range(ctx.scale(300, 3000)):
        n = rng.randint(1, 7)
        X = list(range(n))
        dens = rng.choice([0.1, 0.25, 0.5])
        mk = lambda: {x: [y for y in rng.sample(X, n) if rng.random() < dens] for x in X}
        R1, R2 = mk(), mk()
        G0 = {x: sorted({rng.randint(0, 5) for _ in range(rng.randint(0, 2))}) for x in X}
        try:
            G = {x: set(G0[x]) for x in X}
            F = digraph(X, R1, G)
            one = ([sorted(F[x]) for x in X], [sorted(G[x]) for x in X])
            G = {x: set(G0[x]) for x in X}
            F1 = digraph(X, R1, G)
            F2 = digraph(X, R2, F1)
            two = ([sorted(F1[x]) for x in X], [sorted(F2[x]) for x in X])
        except Exception as e:  # noqa
            ctx.violation('digraph-exception', dict(kind='digraph', X=X, R=R1, G=G0, exception=repr(e)), True,
                          'digraph raised %r' % e)
            continue
        cyc1 = has_cycle(X, R1)
        spec1 = py_closure(X, R1, {x: set(G0[x]) for x in X})
        spec2 = py_closure(X, R2, spec1)
        differs = [sorted(spec2[x]) for x in X] != two[1] or [sorted(spec1[x]) for x in X] != two[0]
        ctx.count('digraph-coded', key=('1', k, n), nontrivial=cyc1, coded_cyclic=cyc1)
        ctx.count('digraph-coded-twice', key=('2', k, n), nontrivial=differs, aliasing_visible=differs)
        c1.append('(%s,%s,%s)' % (L(['(%s,%s)' % (c_nats(R1[x]), c_nats(G0[x])) for x in X]),
                                  L([c_nats(v) for v in one[0]]), L([c_nats(v) for v in one[1]])))
        m1.append(dict(X=X, R=R1, G=G0, got=one[0]))
        c2.append('(%s,%s,%s)' % (L(['(%s,%s,%s)' % (c_nats(R1[x]), c_nats(R2[x]), c_nats(G0[x])) for x in X]),
                                  L([c_nats(v) for v in two[0]]), L([c_nats(v) for v in two[1]])))
        m2.append(dict(X=X, R1=R1, R2=R2, G=G0, got1=two[0], got2=two[1]))
    for name, fn, cases, meta in (('c02gc', 'check_digraph_coded', c1, m1), ('c02gt', 'check_digraph_twice', c2, m2)):
        bad, errs = ctx.coq_bad_indices(name, IMPORTS, fn, cases, chunk=1000)
        for e in errs:
            ctx.violation('correspondence:coq-eval', {'error': e[-600:], 'no_longer_checks': 'coq evaluation of %s' % fn}, False, e[-300:])
        for i in bad:
            ctx.violation('correspondence:LR/Digraph vs lalr_analysis.digraph', dict(
                no_longer_checks='as-coded model of digraph/traverse (%s)' % fn, kind='digraph-coded', **meta[i]), False,
                'the as-coded model of digraph()/traverse() and lark disagree')


def spec_collision(d):
    """reduce/reduce collision expected from the least-solution (DeRemer-Pennello) look-aheads of the dumped relations"""
    nodes = d['nts']
    Read = py_closure(nodes, {x: dict(d['reads']).get(x, []) for x in nodes}, {x: set(dict(d['dr']).get(x, [])) for x in nodes})
    Follow = py_closure(nodes, {x: dict(d['includes']).get(x, []) for x in nodes}, Read)
    la = {}
    for nt, lbs in d['lookback']:
        for (k, r) in lbs:
            for t in Follow.get(nt, ()):
                la.setdefault((k, t), set()).add(r)
    for (k, t), rs in la.items():
        if len(rs) > 1:
            ps = sorted((d['prio'][r] for r in rs), reverse=True)
            if not ps[0] > ps[1]:
                return True
    return False


def py_closure(X, R, G):
    F = {x: set(G[x]) for x in X}
    ch = True
    while ch:
        ch = False
        for x in X:
            for y in R[x]:
                if not F[y] <= F[x]:
                    F[x] |= F[y]
                    ch = True
    return F


def replay(ctx, case):
    w = case['witness']
    kind = w.get('kind')
    if kind == 'digraph':
        from lark.parsers.lalr_analysis import digraph
        X = w['X']
        R = {int(k): v for k, v in w['R'].items()}
        G = {int(k): set(v) for k, v in w['G'].items()}
        ref = py_closure(X, R, G)
        try:
            F = digraph(X, R, {x: set(G[x]) for x in X})
        except Exception:  # noqa
            return True
        return any(set(F[x]) != ref[x] for x in X)
    if 'grammar' not in w:
        return False
    text, starts = w['grammar'], w['starts']
    if kind == 'membership-text':
        try:
            got = text_accepts(text, starts, w['start'], w['text'], w['lexer'])
        except Exception as e:  # noqa
            got = 'GrammarError' if type(e).__name__ == 'GrammarError' else repr(e)
        return got == w['accepted']
    try:
        o = observe(text, starts, extra_terms=TS)
    except Exception:  # noqa
        return kind == 'exception'
    if o.analyzer is None:
        return False
    d = dump_analysis(o)
    tab = table_dump(o, d) if o.lark is not None else None
    if kind == 'conflict-aliasing':
        return spec_collision(d) != d['error']
    if kind in ('conflict', 'lookahead', 'table'):
        return any(k == kind for k, _ in grammar_oracles(o, d, tab))
    if kind == 'membership' and tab is not None:
        wnum = [o.tnum[t] for t in w['input']]
        steps, tree = drive(o, tab, w['start'], wnum)
        sr, rr = table_conflicts(d)
        return membership_oracle(o, d, w['start'], steps, wnum, sr == 0 and rr == 0) is not None
    return False
