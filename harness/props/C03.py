"""C03 - Returned tree is the documented shaping of a derivation; engines agree."""
import json

import shapelib as sl
from lib import coq_list as L

THEOREMS = ['C03_chain_spec', 'C03_chain_assert', 'C03_lalr_filters_copy', 'C03_lalr_builds_shape',
            'C03_shape_total', 'C03_placeholders_count', 'C03_earley_resolve_is_shape_of_derivation', 'C03_cnf_roundtrip_partial', 'C03_cyk_is_shape',
            'C03_engines_agree_partial', 'C03_cyk_chart_sound', 'C03_cyk_chart_complete', 'C03_cyk_chart_unique',
            'C03_cyk_returns_shape_of_derivation', 'C03_cyk_accepts_sentences', 'C03_cyk_unambiguous',
            'C03_cnf_link', 'C03_cyk_engine', 'C03_to_cnf_closure', 'C03_to_cnf_shape', 'C03_cnf_roundtrip',
            'C03_cyk_engine_to_cnf', 'C03_find_rule_size', 'C03_maybe_untaken',
            'C03_example_rule', 'C03_example_size', 'C03_example_derivation', 'C03_conditions_are_source',
            'C03_value_stack_driver', 'C03_resolve_walk_callbacks', 'C03_engines_agree', 'C03_engines_example']
GEN_DEPS = ['ShapeHoles', 'ForestSortKey']
RULE = ('(a) random compiled-rule records (0-5 symbols, terminals/rules, `_` names, filter_out, alias, template source, '
        'keep_all_tokens, expand1, empty_indices incl. inconsistent ones) x maybe_placeholders x ambiguous: the wrapper '
        'chain lark built (classes, to_include, append_none) and the result / exception of calling lark\'s real callback '
        'object on 2 random children lists (tokens, trees, None, occasionally ill-typed or of wrong arity) against '
        'Shape/Chain.v and against the independent Shape/Spec.v; (b) the same for the compiled rules of random EBNF '
        'grammars; (c) end to end: random EBNF grammars using ?/!/_ rules, aliases, [..], ?, *, +, ~n..m, groups, '
        'templates (plain, `!`, `?`, `_`; instantiated with terminals, rules and - from rules without `!` - string literals that '
        'also occur in other rules), a shared-literal family (one literal and one terminal used under different markers, EBNF '
        'operators and as template arguments), filtered and kept tokens, and (half of the grammars) symbol / word literals whose auto-names '
        '(PLUS, MINUS, COMMA, ...) are already owned by a user terminal with another pattern or by an earlier literal, '
        'x keep_all_tokens x maybe_placeholders: the oracle is the meaning of the grammar TEXT (a literal stands for its '
        'own text, a terminal for the pattern written in its definition; token types invented for anonymous literals are '
        'not compared, values and order are); for sampled sentences every '
        'engine (Earley dynamic/basic/dynamic_complete, Earley explicit, LALR basic/contextual, CYK) must return a '
        'tree in the oracle\'s set of documented shapings of the derivations of the text (brute-force enumeration on '
        'the EBNF), all equal when there is one derivation; for near-miss texts (a symbol literal swapped with the pattern of the owner '
        'of its auto-name, one-character edits) that the grammar text does not derive no engine may return a tree; the derivation followed by lark\'s LALR driver is shaped '
        'by Spec.shape and by the chain-at-each-reduction driver in Coq and must give lark\'s tree; (f) random rule trees '
        '(symbols, _EMPTY, expansion, expansions): FindRuleSize(keep_all).transform and the _EMPTY count of '
        'EBNF_to_BNF.maybe against Shape/Ebnf.frs and the longest-alternative count; (r) fixed F18 regression grammars; (g) Earley leg: the SPPF lark builds (ambiguity=forest, basic / dynamic '
        'lexer) is exported and ForestToParseTree(resolve) with the chain callbacks is evaluated on it in Coq: must equal '
        'the tree Lark(ambiguity=resolve) returns and the shape of the selected derivation; (k) CYK leg: the CNF grammar '
        'cyk.to_cnf builds is compared as a set with Shape/Cnf.to_cnf and both are evaluated against CnfLink.closure_check '
        '(the hypothesis of C03_cyk_engine: canonical rules only, all enumerated canonical rules present, unit rules acyclic), and for every CYK parse the CNF tree handed to '
        'revert_cnf, the reverted tree and the returned tree are compared with Cnf.revert, Cnf.cnf_of (pre-image) and shape, '
        'and (inputs of <= 7 tokens) the whole table cyk._parse filled - rules per span as sets, keys of the tree dicts, every '
        'recorded tree a CNF derivation of its span - with CykParse.cyk_cell. '
        'non-trivial = distinct (record, config, children) with a filter or expand1 / distinct (grammar, config, text) '
        'whose tree has >= 2 nodes')
TRUSTED_BASE = ['hand model Shape/Chain.v of parse_tree_builder.py (tied by introspecting lark\'s callback objects and '
                'calling them); PropagatePositions and the Ambiguous*Expander wrappers are not modelled (identity on '
                'the inputs used here)',
                'python oracle shapelib.Oracle (documented shaping over brute-force EBNF derivations) is the search '
                'oracle; it is independent of lark and of the Coq model',
                'in-place list reuse of ChildFilterLALR is modelled functionally (object identity is not modelled); '
                'the harness calls the real objects on deep copies and only compares results']
ASSUMPTIONS = ['terminals of the end-to-end grammars are single distinct characters (lexing is not under test here)',
               'GrammarError at construction (colliding optional expansions, LALR conflicts) and CYK\'s rejection of '
               'empty rules exclude the engine for that grammar']
IMPORTS = ('From LV Require Import Base.Prelude Forest.Sppf Forest.Prio Shape.Chain Shape.Spec Shape.Transform Shape.Ebnf '
           'Shape.EarleyLeg Shape.Cnf Shape.CykParse Shape.CnfLink Shape.ChainCheck.')

ENGINES = [('earley', 'dynamic', 'resolve'), ('earley', 'basic', 'resolve'), ('earley', 'dynamic_complete', 'resolve'),
           ('earley', 'dynamic', 'explicit'), ('lalr', 'basic', None), ('lalr', 'contextual', None), ('cyk', 'basic', None)]

F18_WITNESSES = [
    ('start: b a\nb: "x"* "y"\n!a: "x"*\n', 'xyxx'),
    ('start: b a\n!a: "x"*\nb: "x"* "y"\n', 'xyxx'),
    ('start: b a\nb: "x"+ "y"\n!a: "x"+\n', 'xyxx'),
    ('start: b a\n!a: ("x" "z")~60\nb: ("x" "z")~60 "y"\n', 'xz' * 60 + 'y' + 'xz' * 60),
    # same helper-rule cache, key ignoring filter_out: anonymous "a" (dropped) vs named A (kept)
    ('start: a "," b\na: A+\nb: "a"+\nA: "a"\n', 'aa,aa'),
    ('start: b "," a\nb: "a"+\na: A+\nA: "a"\n', 'aa,aa'),
    ('start: b "," a\nb: ("a" "x")* "y"\na: (A "x")*\nA: "a"\n', 'axy,axax'),
]


class Deferred:
    """collects Coq cases of all streams; evaluated in one batch of at most 3 generated files"""

    def __init__(self):
        self.cases, self.handlers = [], []
        self.budget = {}        # kind -> maximal number of Coq cases (elaborating the literals dominates the run time)
        self.used = {}
        self.dropped = 0

    def add(self, term, handler):
        kind = handler[0]
        if self.used.get(kind, 0) >= self.budget.get(kind, 10 ** 9):
            self.dropped += 1
            return
        self.used[kind] = self.used.get(kind, 0) + 1
        self.cases.append(term)
        self.handlers.append(handler)

    def run(self, ctx, name, check):
        if not self.cases:
            return
        chunk = min(500, max(50, -(-len(self.cases) // 3)))
        if self.dropped:
            ctx.note('%d Coq cases beyond the per-kind budget were not emitted (python oracles ran on them)' % self.dropped)
        bad, errs = ctx.coq_bad_indices(name, IMPORTS, check, self.cases, chunk=chunk)
        for e in errs:
            ctx.violation('correspondence:coq-eval', {'error': e}, False, e[:300])
        seen = {}
        for i in bad:
            kind, fn = self.handlers[i]
            seen[kind] = seen.get(kind, 0) + 1
            if seen[kind] <= 3:
                fn()


DEFER = Deferred()


def f18_bad(gtext, text, parser):
    from lark import Lark
    try:
        t = sl.stree_of(Lark(gtext, parser=parser).parse(text))
    except Exception:
        return True
    kids = {c[1]: c[2] for c in t[2] if c is not None and c[0] == 'T'}
    return len(kids['b']) != 0 or len(kids['a']) == 0 or any(c[0] != 't' for c in kids['a'])


# -------------------------------------------------------------------------------------------------
def callback_cases(ctx, records, stream, wild):
    """records: list of rule dicts.  Calls lark's callback objects and emits Coq cb_case terms."""
    rng = ctx.rng
    cases, meta = [], []
    nrep = [0]
    for r in records:
        rule = sl.make_rule(r)
        for mp in (False, True):
            for amb in (False, True):
                if not wild and amb and rng.random() < 0.5:
                    continue
                f = sl.build_callback(rule, mp, amb)
                chain = None
                if f is not None:
                    try:
                        chain = sl.chain_of(f)
                    except Exception as ex:     # unknown wrapper class: the model has nothing to say
                        ctx.violation('correspondence:wrapper-chain', {'no_longer_checks': 'wrapper chain', 'rule': r,
                                                                       'error': repr(ex)}, False, repr(ex))
                        continue
                calls = []
                for _ in range(2):
                    ch = sl.random_children(rng, r, wild)
                    obs = None if f is None else sl.call_obs(f, ch)
                    calls.append((ch, obs))
                    wf = not (mp and r['empty']) or r['empty'].count(False) == len(r['exp'])
                    nontriv = f is not None and (chain != '[]')
                    ctx.count(stream, key=(json.dumps(r, sort_keys=True), mp, amb, repr(ch)), nontrivial=nontriv,
                              outcome='assert' if f is None else obs[0], placeholders=bool(mp and r['empty']))
                    # unit-level statement of the property (python mirror of the specification)
                    if f is not None and wf and len(ch) == len(r['exp']):
                        want = sl.spec_rule_py(r, mp, ch)
                        if want != obs and nrep[0] < 3:
                            nrep[0] += 1
                            ctx.violation('correspondence:callback-vs-documented-shaping',
                                          {'no_longer_checks': 'callback == documented shaping of the rule application',
                                           'rule': r, 'maybe_placeholders': mp, 'ambiguous': amb,
                                           'children': [sl.show(c) for c in ch],
                                           'expected': want[0] if want[0] == 'err' else sl.show(want[1]),
                                           'observed': obs[0] if obs[0] == 'err' else sl.show(obs[1])}, False,
                                          'callback of %s returns %s, documented shaping gives %s'
                                          % (r['origin'], obs[0] if obs[0] == 'err' else sl.show(obs[1]),
                                             want[0] if want[0] == 'err' else sl.show(want[1])))
                cases.append('((%s, %s, %s, %s, %s) : cb_case)' % (
                    sl.rrec_lit(r), sl.B(mp), sl.B(amb), 'None' if f is None else '(Some %s)' % chain,
                    L(['(%s, %s)' % (L([sl.stree_lit(c) for c in ch]), sl.obs_lit(o)) for ch, o in calls])))
                meta.append((r, mp, amb, calls))
    if meta:
        r, mp, amb, calls = meta[len(meta) // 2]
        ctx.sample({stream: {'rule': r, 'maybe_placeholders': mp, 'ambiguous': amb,
                             'children': [sl.show(c) for c in calls[0][0]],
                             'observed': None if calls[0][1] is None else
                             (calls[0][1][0] if calls[0][1][0] == 'err' else sl.show(calls[0][1][1]))}})
    for term, (r, mp, amb, calls) in zip(cases, meta):
        def h(r=r, mp=mp, amb=amb, calls=calls):
            ctx.violation('correspondence:Shape/Chain.v vs parse_tree_builder callback',
                          {'no_longer_checks': 'model/implementation agreement on the rule callback', 'rule': r,
                           'maybe_placeholders': mp, 'ambiguous': amb,
                           'calls': [([sl.show(c) for c in ch], None if o is None else (o[0] if o[0] == 'err' else sl.show(o[1])))
                                     for ch, o in calls]}, False,
                          'wrapper chain or call result of rule %s differs from the Coq model' % r['origin'])
        DEFER.add('(CaseCB %s)' % term, ('cb', h))


def random_ebnf(rng, depth=0):
    """(coq term, lark tree-or-symbol) of a rule tree as FindRuleSize sees it"""
    from lark.grammar import Terminal, NonTerminal
    from lark.load_grammar import _EMPTY
    from lark.tree import Tree as ST
    x = rng.random()
    if depth >= 3 or x < 0.45:
        y = rng.random()
        if y < 0.12:
            return 'EEmpty', _EMPTY
        if y < 0.6:
            nm, fo = rng.choice(['A', '_B', 'X', '__ANON_1']), rng.random() < 0.5
            return '(ESym (mkSym true %s %s))' % (sl.S(nm), sl.B(fo)), Terminal(nm, fo)
        nm = rng.choice(['a', '_x', '__a_star_0', 'b'])
        return '(ESym (mkSym false %s false))' % sl.S(nm), NonTerminal(nm)
    n = rng.choice([0, 1, 2, 2, 3]) if x < 0.75 else rng.choice([1, 2, 2, 3])
    kids = [random_ebnf(rng, depth + 1) for _ in range(n)]
    if x < 0.75:
        return '(ESeq %s)' % L([k[0] for k in kids] or []), ST('expansion', [k[1] for k in kids])
    return '(EAlt %s)' % L([k[0] for k in kids]), ST('expansions', [k[1] for k in kids])


def find_rule_size_stream(ctx):
    from lark.load_grammar import FindRuleSize, EBNF_to_BNF, _EMPTY
    from lark.grammar import RuleOptions
    import copy
    rng = ctx.rng
    cases, meta = [], []
    for _ in range(ctx.scale(250, 800)):
        term, tree = random_ebnf(rng, 0)
        while not hasattr(tree, 'data'):
            term, tree = random_ebnf(rng, 0)
        ka = rng.random() < 0.4
        try:
            n = FindRuleSize(ka).transform(tree)
            eb = EBNF_to_BNF()
            eb.rule_options = RuleOptions(keep_all_tokens=True) if ka else None
            res = eb.maybe(tree)
            m = len(res.children[1].children) if all(c is _EMPTY for c in res.children[1].children) else -1
        except Exception as ex:
            ctx.violation('correspondence:FindRuleSize raises', {'no_longer_checks': 'FindRuleSize total on rule trees',
                                                                 'tree': term, 'error': repr(ex)[:200]}, False, repr(ex)[:200])
            continue
        ctx.count('find-rule-size', key=(term, ka), nontrivial=n >= 1, size=n)
        if not isinstance(n, int) or m < 0:
            ctx.violation('correspondence:FindRuleSize', {'no_longer_checks': 'FindRuleSize / maybe result shape', 'tree': term},
                          False, 'unexpected result %r / %r' % (n, m))
            continue
        cases.append('((%s, %s, %s, %s) : frs_case)' % (sl.B(ka), term, sl.N(n), sl.N(m)))
        meta.append((term, ka, n, m))
    for term_, (term, ka, n, m) in zip(cases, meta):
        def h(term=term, ka=ka, n=n, m=m):
            ctx.violation('correspondence:Shape/Ebnf.frs vs FindRuleSize / EBNF_to_BNF.maybe',
                          {'no_longer_checks': 'placeholder count of an untaken [..] == kept symbols of the longest alternative',
                           'tree': term, 'keep_all_tokens': ka, 'FindRuleSize': n, 'EMPTY_in_maybe': m}, False,
                          'FindRuleSize gives %d, maybe() inserts %d _EMPTY; the model / longest-alternative count differs' % (n, m))
        DEFER.add('(CaseFRS %s)' % term_, ('frs', h))


def earley_forest_case(ctx, gtext, text, ka, mp, lexer):
    """export the SPPF lark's Earley builds and the tree it returns in resolve mode: Coq evaluates
    ForestToParseTree(resolve) with the chain callbacks on the exported forest"""
    from props import forest_common as fc
    from lark import Lark
    from lark.exceptions import LarkError
    try:
        pf = Lark(gtext, parser='earley', ambiguity='forest', lexer=lexer, keep_all_tokens=ka, maybe_placeholders=mp)
        root = pf.parse(text)
        tree = sl.stree_of(Lark(gtext, parser='earley', ambiguity='resolve', lexer=lexer, keep_all_tokens=ka,
                                maybe_placeholders=mp).parse(text))
    except (LarkError, sl.NotShaped):
        return
    summed = pf.parser.parser.forest_sum_visitor is not None
    if summed:
        return          # the grammars of this stream carry no priorities (C05 covers the summed walk)
    nodes = fc.export_graph(root, pf)
    if fc.is_cyclic(nodes) or fc.unfolded_size(nodes) > 400:
        ctx.count('earley-forest-skipped')
        return
    rules = L([sl.rrec_lit(sl.rrec_of_rule(r)) for r in pf.rules])
    term = '((%s, %s, %s, %s, %s) : earley_case)' % (rules, sl.B(mp), sl.B(summed), fc.coq_forest(nodes, annotated=False),
                                                   sl.stree_lit(tree))
    ctx.count('earley-forest-coq', key=(gtext, text, ka, mp, lexer), nontrivial=fc.count_derivs(nodes) >= 1 and sl.stree_size(tree) >= 2,
              forest_derivations=min(fc.count_derivs(nodes), 3))

    def h():
        ctx.violation('correspondence:Shape/EarleyLeg.earley_resolve vs Lark(parser=earley, ambiguity=resolve)',
                      {'no_longer_checks': 'ForestToParseTree(resolve) with the chain callbacks on the exported forest == lark tree '
                                           '== shape of the selected derivation', 'grammar': gtext, 'text': text,
                       'keep_all_tokens': ka, 'maybe_placeholders': mp, 'lexer': lexer, 'observed': sl.show(tree)}, False,
                      'Coq forest-to-tree (resolve) on the forest lark built differs from the tree lark returned')
    DEFER.add('(CaseEARLEY %s)' % term, ('earley', h))


def table_case(ctx, nm, g, cap, gtext, text, ka):
    """the table cyk._parse filled (all spans), accepted or not, against the model of the chart; the model
    recomputes cells without a memo table, so only short inputs are compared"""
    if 'table' not in cap or not (1 <= len(cap['tokens']) <= 7) or ctx.rng.random() >= 0.4:
        return
    toks, cells = sl.cyk_table_lit(nm, cap)
    ctx.count('cyk-table-coq', key=(gtext, text, ka), nontrivial=len(cap['tokens']) >= 2, tokens=len(cap['tokens']),
              cyk_accepted='error' not in cap)

    def hp():
        ctx.violation('correspondence:Shape/CykParse.cyk_cell vs cyk._parse',
                      {'no_longer_checks': 'CYK table (rules per span as sets, keys of the tree dicts, every tree a CNF '
                                           'derivation of its span)', 'grammar': gtext, 'text': text, 'keep_all_tokens': ka},
                      False, 'the CYK table lark filled differs from the model')
    DEFER.add('(CasePARSE ((%s, %s, %s) : parse_case))' % (g, toks, cells), ('parse', hp))


def cyk_cases(ctx, cyk, gtext, texts, ka, mp):
    """CYK leg: lark's CNF grammar against Cnf.to_cnf, and every CNF parse / reverted tree against
    Cnf.revert / Cnf.cnf_of / Spec.shape"""
    from lark.exceptions import LarkError
    try:
        nm = sl.CnfNames(cyk)
        rules = L([sl.rrec_lit(sl.rrec_of_rule(r)) for r in cyk.rules])
        g = L([nm.rule(r) for r in cyk.parser.parser.parser.grammar.rules])
    except ValueError as ex:
        ctx.violation('correspondence:cyk-helper-names', {'no_longer_checks': 'injective helper names in to_cnf',
                                                          'grammar': gtext, 'error': str(ex)}, False, str(ex))
        return
    ctx.count('cyk-cnf-grammar', key=(gtext, ka), nontrivial=True)

    def hg():
        ctx.violation('correspondence:Shape/Cnf.to_cnf vs cyk.to_cnf', {'no_longer_checks': 'CNF grammar (as a set of rules)',
                                                                          'grammar': gtext, 'keep_all_tokens': ka}, False,
                      'the CNF grammar lark built differs from the model, or one of them fails closure_check / CNF shape')
    DEFER.add('(CaseCNFG ((%s, %s) : cnfg_case))' % (rules, g), ('cnfg', hg))
    for text in texts:
        try:
            cap = sl.cyk_capture(cyk, text)
        except Exception:
            continue          # reported by check_text (e2e-shape) with the failing input
        table_case(ctx, nm, g, cap, gtext, text, ka)
        if 'error' in cap or 'cnf' not in cap:
            continue
        try:
            tree = sl.stree_of(cap['tree'])
        except sl.NotShaped:
            continue
        if sl.stree_size(tree) > 60:
            continue
        term = '((%s, %s, %s, %s, %s) : cyk_case)' % (rules, sl.B(mp), nm.tree(cap['cnf']), nm.otree(cap['reverted']),
                                                     sl.stree_lit(tree))
        ctx.count('cyk-coq', key=(gtext, text, ka, mp), nontrivial=sl.stree_size(tree) >= 2)

        def h(text=text, tree=tree):
            ctx.violation('correspondence:Shape/Cnf.revert / cnf_of vs cyk.revert_cnf',
                          {'no_longer_checks': 'revert_cnf of lark\'s CNF parse == model; CNF parse == pre-image of the derivation; '
                                               'shape of the derivation == CYK tree', 'grammar': gtext, 'text': text,
                           'keep_all_tokens': ka, 'maybe_placeholders': mp, 'observed': sl.show(tree)}, False,
                          'CYK: reverted tree / CNF pre-image / shaped tree differ from the Coq model')
        DEFER.add('(CaseCYK %s)' % term, ('cyk', h))


def build(text, parser, lexer, amb, ka, mp):
    from lark import Lark
    kw = dict(parser=parser, lexer=lexer, keep_all_tokens=ka, maybe_placeholders=mp)
    if amb:
        kw['ambiguity'] = amb
    if parser == 'lalr':
        kw['strict'] = True        # shift/reduce conflicts are refused, so LALR "supports" what it builds
    return Lark(text, **kw)


def has_ambig(t):
    if t is None or t[0] == 't':
        return False
    return t[1] == '_ambig' or any(has_ambig(c) for c in t[2])


def check_text(ctx, G, gtext, parsers, oracle, text, ka, mp, stream, key=None, generated=True):
    """run every engine on one text and compare with the oracle; returns the LALR tree (or None)"""
    from lark.exceptions import LarkError
    try:
        shapes = oracle.parses(text)
    except (sl.TooMany, RecursionError):
        ctx.count(stream + '-skipped', reason='too many derivations')
        return None
    nder = len(shapes)
    allowed = set(shapes)
    lalr_tree = None
    for (parser, lexer, amb), p in parsers.items():
        try:
            res = p.parse(text)
            # token types lark invents for anonymous literals are not compared (values and order are)
            got = ('ok', sl.canon_lit_types(sl.stree_of(res), G.named))
        except LarkError as ex:
            got = ('reject', type(ex).__name__)
        except sl.NotShaped as ex:
            got = ('notshaped', str(ex))
        except Exception as ex:          # not a parse error: the tree builder itself failed
            got = ('exception', repr(ex)[:200])
        eng = '%s/%s%s' % (parser, lexer, '/' + amb if amb else '')
        tree_nodes = sl.stree_size(got[1]) if got[0] == 'ok' else 0
        ctx.count(stream, key=(gtext, ka, mp, text, eng), nontrivial=tree_nodes >= 2, engine=eng,
                  derivations=min(nder, 3), result=got[0])
        bad = None
        if nder == 0 and generated:
            # our sentence generator produced it, so the oracle must derive it: harness self-check
            bad = 'oracle derives nothing for a generated sentence'
        elif nder == 0:
            # the grammar TEXT does not derive this input: no engine may return a tree for it
            if got[0] == 'ok':
                bad = 'engine %s returns %s for a text the grammar does not derive' % (eng, sl.show(got[1]))
            elif got[0] != 'reject':
                bad = 'engine %s: %s %s' % (eng, got[0], got[1])
        elif got[0] != 'ok':
            if parser in ('cyk', 'lalr') and got[0] == 'reject':
                continue        # acceptance is C01/C02's business; C03 speaks about the trees that are returned
            bad = 'engine %s: %s %s' % (eng, got[0], got[1])
        elif amb == 'explicit' and has_ambig(got[1]):
            if nder == 1:
                bad = 'engine %s reports _ambig but the text has one derivation' % eng
        elif got[1] not in allowed:
            bad = 'engine %s returns %s which is not the documented shaping of any derivation (%d derivation(s), e.g. %s)' % (
                eng, sl.show(got[1]), nder, sl.show(shapes[0]))
        if bad:
            ctx.violation('e2e-shape', {'grammar': gtext, 'rules': G.rules, 'named': G.named, 'text': text, 'keep_all_tokens': ka,
                                        'maybe_placeholders': mp, 'parser': parser, 'lexer': lexer, 'ambiguity': amb,
                                        'derivations': nder, 'expected': [sl.show(s) for s in sorted(allowed, key=repr)[:4]],
                                        'observed': got[0] if got[0] != 'ok' else sl.show(got[1])}, True, bad, key=key)
        if parser == 'lalr' and lexer == 'basic' and got[0] == 'ok' and nder:
            lalr_tree = sl.stree_of(res)
    return lalr_tree


def negative_texts(rng, G, texts):
    """texts near the sentences: a symbol literal swapped with the pattern of the terminal / word literal that
    owns its auto-name, and random one-character edits over the grammar's alphabet"""
    alphabet = sorted(set(''.join(G.named.values())) | set('xyz+-,*(;.)'))
    out = []
    for t in texts:
        for sym_, auto, squat in sl.COLLIDE:
            alts = [squat] + ([sl.KEYWORDS[sym_]] if sym_ in sl.KEYWORDS else [])
            for a in alts:
                if sym_ in t:
                    out.append(t.replace(sym_, a, 1))
                if a in t:
                    out.append(t.replace(a, sym_, 1))
        if t:
            i = rng.randrange(len(t))
            out.append(t[:i] + t[i + 1:])
            out.append(t[:i] + rng.choice(alphabet) + t[i + 1:])
        out.append(t + rng.choice(alphabet))
    rng.shuffle(out)
    seen, res = set(texts), []
    for t in out:
        if t not in seen and len(t) <= 16:
            seen.add(t)
            res.append(t)
    return res[:5]


def make_parsers(ctx, gtext, ka, mp, stream):
    from lark.exceptions import GrammarError, ParseError, LarkError
    parsers = {}
    for parser, lexer, amb in ENGINES:
        try:
            parsers[(parser, lexer, amb)] = build(gtext, parser, lexer, amb, ka, mp)
        except LarkError as ex:
            ctx.count(stream + '-construct', engine=parser, refused=type(ex).__name__)
        except Exception as ex:
            ctx.violation('e2e-construct', {'grammar': gtext, 'parser': parser, 'lexer': lexer, 'ambiguity': amb,
                                            'keep_all_tokens': ka, 'maybe_placeholders': mp, 'construct_error': repr(ex)[:200]},
                          True, 'constructing %s/%s raised %r' % (parser, lexer, ex))
    return parsers


def rebuild(rules, named=None):
    G = sl.Gram()
    G.rules = rules
    G.by_name = {r['name']: r for r in rules}
    if named:
        G.named = named
    return G


def correspond(ctx):
    rng = ctx.rng
    DEFER.__init__()
    if ctx.thorough():
        DEFER.budget = {'cb': 2400, 'e2e': 700, 'earley': 700, 'cyk': 700, 'cnfg': 200, 'frs': 800, 'parse': 500}
    wide = 3 if ctx.widen else 1

    # (r) fixed regression stream: helper rules must not be shared between `!` and plain rules (F18)
    f18_present = False
    for gtext, text in F18_WITNESSES:
        from lark import Lark
        for parser in ('lalr', 'earley'):
            ctx.count('regress-F18', key=(gtext, parser))
            if f18_bad(gtext, text, parser):
                f18_present = True
                try:
                    obs = sl.show(sl.stree_of(Lark(gtext, parser=parser).parse(text)))[:200]
                except Exception as ex:
                    obs = repr(ex)[:200]
                ctx.violation('e2e-shape-F18', {'grammar': gtext, 'text': text, 'parser': parser, 'fixed': 'F18',
                                                'observed': obs}, True,
                              'rule `a` must keep its tokens and rule `b` must drop them; got %s' % obs)

    # (c) end to end -----------------------------------------------------------------------------------
    sl.LITS[:] = [c for c in sl.LITS if c != 'a'] if f18_present else sl.ALL_LITS[:]
    ngram = ctx.scale(48, 350) * wide
    e2e_cases, e2e_meta = [], []
    comp_records = []
    tried = 0
    done = 0
    lalr_ok = 0
    while (done < ngram or lalr_ok < ngram * 0.7) and tried < ngram * 3:
        tried += 1
        shared = tried % 6 == 0        # every sixth grammar is of the shared-literal family
        G = sl.gen_shared_literal(rng) if shared else sl.gen_grammar(rng)
        gtext = G.text
        texts = []
        for _ in range(12):
            try:
                t = sl.gen_text(rng, G, budget=[90] if shared else None)
            except sl.TooDeep:
                continue
            if len(t) <= (34 if shared else 14) and t not in texts:
                texts.append(t)
            if len(texts) >= 4:
                break
        if not texts:
            continue
        configs = [(False, True), (rng.random() < 0.5, rng.random() < 0.5)]
        if ctx.thorough():
            configs = [(False, True), (False, False), (True, True), (True, False)]
        first = True
        for ka, mp in dict.fromkeys(configs):
            parsers = make_parsers(ctx, gtext, ka, mp, 'e2e')
            if ('earley', 'dynamic', 'resolve') not in parsers:
                break
            if first:
                done += 1
                first = False
                for ft in sorted(G.features):
                    ctx.histo.setdefault('feature', {})
                    ctx.histo['feature'][ft] = ctx.histo['feature'].get(ft, 0) + 1
            any_p = next(iter(parsers.values()))
            oracle = sl.Oracle(G, ka, mp)
            lalr = parsers.get(('lalr', 'basic', None))
            lalr_ok += (lalr is not None and (ka, mp) == (False, True))
            if lalr is not None and rng.random() < 0.5:
                comp_records.extend(sl.rrec_of_rule(r) for r in lalr.rules[:8])
            negs = negative_texts(rng, G, texts)
            if ('cyk', 'basic', None) in parsers:
                try:
                    cyk_cases(ctx, parsers[('cyk', 'basic', None)], gtext, texts + negs[:2], ka, mp)
                except Exception as ex:
                    ctx.violation('harness:cyk-capture', {'grammar': gtext, 'error': repr(ex)[:300]}, False, repr(ex)[:300])
            for text in negs:
                check_text(ctx, G, gtext, parsers, oracle, text, ka, mp, 'e2e-near', generated=False)
            for text in texts:
                tree = check_text(ctx, G, gtext, parsers, oracle, text, ka, mp, 'e2e')
                if rng.random() < 0.45:
                    try:
                        earley_forest_case(ctx, gtext, text, ka, mp, rng.choice(['basic', 'dynamic']))
                    except Exception as ex:
                        ctx.violation('harness:earley-forest', {'grammar': gtext, 'text': text, 'error': repr(ex)[:300]}, False, repr(ex)[:300])
                if tree is not None and lalr is not None:
                    try:
                        d = sl.lalr_derivation(lalr, text)
                    except Exception as ex:
                        ctx.violation('harness:lalr-derivation', {'grammar': gtext, 'text': text, 'error': repr(ex)}, False, repr(ex))
                        continue
                    if sl.dtree_size(d) <= 70:
                        cache = {}
                        lit = sl.dtree_lit(d, cache)
                        byid = {id(r): r for r in lalr.rules}
                        lets = ''.join('let %s := %s in ' % (nm, sl.rrec_lit(sl.rrec_of_rule(byid[k]))) for k, nm in cache.items())
                        e2e_cases.append('((%s(%s, %s, %s)) : e2e_case)' % (lets, sl.B(mp), lit, sl.stree_lit(tree)))
                        e2e_meta.append((gtext, text, ka, mp, tree))
                        ctx.count('e2e-coq-shape', key=(gtext, text, ka, mp), nontrivial=sl.stree_size(tree) >= 2)
            if len(ctx.samples) < 5 and texts:
                try:
                    ctx.sample({'e2e': {'grammar': gtext, 'keep_all_tokens': ka, 'maybe_placeholders': mp, 'text': texts[0],
                                        'tree': sl.show(sl.stree_of(parsers[('earley', 'dynamic', 'resolve')].parse(texts[0])))}})
                except Exception:
                    pass
    for term, (gtext, text, ka, mp, tree) in zip(e2e_cases, e2e_meta):
        def h(gtext=gtext, text=text, ka=ka, mp=mp, tree=tree):
            ctx.violation('correspondence:Spec.shape / chain driver vs lark LALR tree',
                          {'no_longer_checks': 'Coq shape of the LALR derivation == lark tree', 'grammar': gtext, 'text': text,
                           'keep_all_tokens': ka, 'maybe_placeholders': mp, 'observed': sl.show(tree)}, False,
                          'Coq shape / driver of the derivation lark followed differs from the tree lark returned')
        DEFER.add('(CaseE2E %s)' % term, ('e2e', h))
    # (f) FindRuleSize / maybe against Shape/Ebnf.v ------------------------------------------------------
    find_rule_size_stream(ctx)

    # (a) random rule records against lark's callback objects ---------------------------------------
    recs = [sl.random_record(rng, True) for _ in range(ctx.scale(110, 450) * wide)]
    callback_cases(ctx, recs, 'callback-random', True)

    # (b) compiled rules of those grammars against the callback objects --------------------------------
    uniq = {}
    for r in comp_records:
        uniq[json.dumps(r, sort_keys=True)] = r
    recs = list(uniq.values())
    rng.shuffle(recs)
    callback_cases(ctx, recs[:ctx.scale(60, 300)], 'callback-compiled', False)
    # (i) round 12: keep_all_tokens=True x %import of rules with anonymous literals (fixed corpus, every engine)
    try:
        import shapeimports
        shapeimports.stream(ctx)
    except Exception as ex:
        ctx.violation('harness:keep-all-imports', {'error': repr(ex)[:300]}, False, repr(ex)[:300])
    DEFER.run(ctx, 'c03', 'c03_check')
    # (x) regression F44 (fixed in /repo): CYK's to_cnf lost unit-skip rules depending on the hash seed
    # (UnitSkipRule.__eq__ ignored lhs/rhs); the witness runs in fresh interpreters over hash seeds 0..11
    ctx.count('regress-F44-cyk-hashseed', key='cyk-hashseed')
    hb = cyk_hashseed_bad(*CYK_HASH_WITNESS)
    if hb:
        ctx.violation('e2e-cyk-hashseed', {'grammar': CYK_HASH_WITNESS[0], 'text': hb[1], 'hashseed': hb[0], 'accepted_with_hashseed': hb[2]}, True,
                      'parser=cyk rejects %r under PYTHONHASHSEED=%d and accepts it under PYTHONHASHSEED=%d' % (hb[1], hb[0], hb[2]))


CYK_HASH_WITNESS = ('start: a "1" | d "2"\na: b\nd: b\nb: c\nc: X Y\nX: "x"\nY: "y"\n', ['xy1', 'xy2'])


def cyk_hashseed_bad(grammar, texts, seeds=range(12)):
    """run the CYK parser in fresh interpreters under several PYTHONHASHSEEDs; returns (seed, text) of a sentence
    rejected under one seed and accepted under another, or None"""
    import os
    import subprocess
    import sys
    import lib
    code = ('import sys, json\nfrom lark import Lark\nfrom lark.exceptions import LarkError\n'
            'g, texts = json.loads(sys.argv[1])\np = Lark(g, parser="cyk")\nout = []\n'
            'for t in texts:\n    try:\n        p.parse(t); out.append(True)\n    except LarkError:\n        out.append(False)\n'
            'print(json.dumps(out))\n')
    results = {}
    for sd in seeds:
        env = dict(os.environ, PYTHONHASHSEED=str(sd), PYTHONPATH=lib.REPO)
        r = subprocess.run([sys.executable, '-c', code, json.dumps([grammar, texts])], env=env, stdout=subprocess.PIPE,
                           stderr=subprocess.DEVNULL, text=True, timeout=120)
        try:
            results[sd] = json.loads(r.stdout)
        except ValueError:
            continue
    for i, t in enumerate(texts):
        acc = [sd for sd, v in results.items() if v[i]]
        rej = [sd for sd, v in results.items() if not v[i]]
        if acc and rej:
            return rej[0], t, acc[0]
    return None


def replay(ctx, case):
    w = case['witness']
    if w.get('imports_keep_all'):
        import shapeimports
        return shapeimports.bad(w, shapeimports.module_dir()) is not None
    if 'hashseed' in w:
        return cyk_hashseed_bad(w['grammar'], [w['text']]) is not None
    if 'fixed' in w:
        return f18_bad(w['grammar'], w['text'], w['parser'])
    if 'construct_error' in w:
        from lark.exceptions import LarkError
        try:
            build(w['grammar'], w['parser'], w['lexer'], w.get('ambiguity'), w['keep_all_tokens'], w['maybe_placeholders'])
        except LarkError:
            return False
        except Exception:
            return True
        return False
    if 'rules' in w and 'text' in w:
        from lark.exceptions import LarkError
        G = rebuild(w['rules'], w.get('named'))
        try:
            p = build(w['grammar'], w['parser'], w['lexer'], w.get('ambiguity'), w['keep_all_tokens'], w['maybe_placeholders'])
        except LarkError:
            return True
        oracle = sl.Oracle(G, w['keep_all_tokens'], w['maybe_placeholders'])
        shapes = oracle.parses(w['text'])
        try:
            got = sl.canon_lit_types(sl.stree_of(p.parse(w['text'])), G.named)
        except LarkError:
            return bool(shapes) and w['parser'] not in ('lalr', 'cyk')
        except Exception:
            return True
        if not shapes:
            return True            # a tree for a text the grammar does not derive
        if w.get('ambiguity') == 'explicit' and has_ambig(got):
            return len(shapes) == 1
        return got not in set(_tuplify(s) for s in shapes)
    return False


def _tuplify(t):
    if t is None:
        return None
    if t[0] == 't':
        return ('t', t[1], t[2])
    return ('T', t[1], tuple(_tuplify(c) for c in t[2]))
