"""C13 - Interactive parser: forks independent, accepts() exact, resume equals parse."""
import copy as _copy
import signal
from contextlib import contextmanager

from lib import coq_list as L


class Hang(BaseException):
    """an operation of the implementation did not return within the time limit (BaseException: the `except Exception`
    clauses around the implementation calls must not swallow it)"""


def _on_alarm(signum, frame):
    raise Hang()


HANG_SECS = 30


@contextmanager
def watchdog(secs=HANG_SECS):
    old = signal.signal(signal.SIGALRM, _on_alarm)
    signal.setitimer(signal.ITIMER_REAL, secs)
    try:
        yield
    finally:
        signal.setitimer(signal.ITIMER_REAL, 0)
        signal.signal(signal.SIGALRM, old)


def N(n):
    return '%d' % n

THEOREMS = ['C13_feed_eq_parse', 'C13_fork_separation', 'C13_fork_result_eq_parse', 'C13_trial_feed_pure',
            'C13_accepts_exact', 'C13_accepts_exact_table', 'C13_resume_eq_parse_rest', 'C13_resume_on_fork',
            'C13_default_copies_are_deep', 'C13_shallow_fork_aliasing_refuted', 'C13_shared_meta_refuted',
            'C13_resume_shared_lexer_refuted', 'C13_example_deep',
            'C13_feed_control_regenerated', 'C13_feed_control_regenerated_table', 'C13_value_slices_regenerated',
            'C13_copy_regenerated', 'C13_example_regenerated']
GEN_DEPS = ['InterHoles', 'LalrHoles']
RULE = ('random LALR grammars over 8 terminals (each token carries a unique number in its text) with `_`-inlined '
        'left/right-recursive rules (ChildFilterLALR in-place path), `?`-rules, `!`-rules, aliases, [x] placeholders, '
        'propagate_positions / maybe_placeholders / basic|contextual lexer switched at random; stream fork-trees: random '
        'trees of feed / copy / copy.copy / as_immutable / as_mutable / immutable feed / accepts / feed_eof (depth <= 4, '
        '<= 9 parsers, forks mid-input and right after tokens that triggered reductions, unexpected tokens fed and '
        'skipped); stream lexer-forks: forks of parse_interactive(text) stepped through their own lexer copies and '
        'finished by resume_parse(); stream on-error: Lark.parse(text, on_error=skip) with injected unexpected tokens; '
        'stream shallow-model: shallow-copy runs compared with the model only; failing fork trees are shrunk by greedy '
        'removal of operations; non-trivial = distinct case with >= 2 parsers whose histories differ, at least one '
        'in-place list extension or ?-expansion, and at least one result')
TRUSTED_BASE = ['export of lark\'s parse table and of the callback chain shape (to_include / append_none / '
                'ExpandSingleChild / Tree name) read from the live parser objects; unknown wrapper classes are rejected',
                'control skeleton of ParserState.copy, InteractiveParser.copy/as_immutable/accepts, '
                'ImmutableInteractiveParser.feed_token/as_mutable pinned by translator templates; copy defaults regenerated',
                'PropagatePositions is Pos.MetaSpan.propagate (C06 model) written into the Meta cell of the result; its '
                'source is pinned by the C06 translator, not by this one; token positions enter as a table id -> positions '
                'exported from the Token objects; the lexer is a position in the exported token list (the lexer itself is C07)']
ASSUMPTIONS = ['copy.deepcopy(value_stack) yields a fresh, disjoint, isomorphic copy of everything reachable - child lists and '
               'Meta objects (Inter.Heap.deepcopy; proved to have this specification on sharing-free stacks, observed on '
               'every run by an object-identity check); copy(lexer_thread) yields a new thread at the same position',
               'no transformer / lexer callbacks: callbacks[rule] is the chain built by ParseTreeBuilder, tokens are pushed as they are',
               'an inlined `_rule` value is always a Tree (the grammar syntax does not allow ?_rule)']

IMPORTS = 'From LV Require Import Inter.Heap Inter.IDriver Inter.ICheck Gen.InterHoles.'

VAL = ['A', 'B', 'C', 'D']
FIL = ['_S', '_L', '_R', '_T']
TCHAR = {'A': 'a', 'B': 'b', 'C': 'c', 'D': 'd', '_S': ';', '_L': '(', '_R': ')', '_T': '!'}
TERM_DEFS = r'''
A: /a[0-9]+/
B: /b[0-9]+/
C: /c[0-9]+/
D: /d[0-9]+/
_S: /;[0-9]+/
_L: /\([0-9]+/
_R: /\)[0-9]+/
_T: /![0-9]+/
%ignore /[ \n]+/
'''
PUB = ('empty', 'line', 'column', 'start_pos', 'end_line', 'end_column', 'end_pos')
CONT = ('container_line', 'container_column', 'container_start_pos',
        'container_end_line', 'container_end_column', 'container_end_pos')
KSHIFT, KRESULT, KERROR, KSTUCK = 0, 1, 2, 3


# ----------------------------------------------------------------------------------------- grammars
def gen_grammar(rng):
    n = rng.randint(2, 5)
    names = [(rng.choice(['', '', '_', '_', '_', '?', '?', '!']), 'r%d' % i) for i in range(n)]
    if rng.random() < 0.5:
        names[0] = ('_', 'r0')

    def ref(i):
        fl, nm = names[i]
        return ('_' + nm) if fl == '_' else nm

    def head(i):
        fl, nm = names[i]
        return {'': nm, '_': '_' + nm, '?': '?' + nm, '!': '!' + nm}[fl]

    lines = []
    start_alts = []
    for k in range(rng.randint(1, 2)):
        syms = [ref(0) if k == 0 else ref(rng.randrange(n))]
        for _ in range(rng.randint(0, 2)):
            syms.insert(rng.randint(0, len(syms)), rng.choice([ref(rng.randrange(n))] * 2 + VAL + FIL))
        start_alts.append(' '.join(syms))
    lines.append('start: ' + ' | '.join(start_alts))
    for i in range(n):
        alts = []
        for _ in range(rng.randint(1, 3)):
            syms = []
            for _ in range(rng.randint(0 if rng.random() < 0.1 else 1, 3)):
                r = rng.random()
                if r < 0.4 and i + 1 < n:
                    s = ref(rng.randrange(i + 1, n))
                elif r < 0.8:
                    s = rng.choice(VAL)
                else:
                    s = rng.choice(FIL)
                o = rng.random()
                if o < 0.12:
                    s = '[%s]' % s
                elif o < 0.18:
                    s = s + '?'
                syms.append(s)
            a = ' '.join(syms)
            if rng.random() < 0.15 and names[i][0] != '?' and syms:
                a += ' -> al%d' % rng.randint(0, 2)
            alts.append(a)
        rec = rng.random()
        item = rng.choice(VAL + ([ref(rng.randrange(i + 1, n))] * 2 if i + 1 < n else []))
        sep = rng.choice(['', '', '_S ', 'B '])
        if rec < (0.75 if names[i][0] == '_' else 0.4):
            alts = ['%s %s%s' % (ref(i), sep, item), item] + (alts[:1] if rng.random() < 0.3 else [])
        elif rec < 0.85 and names[i][0] != '_' or rec < 0.5:
            alts = ['%s %s%s' % (item, sep, ref(i)), item]
        lines.append('%s: %s' % (head(i), ' | '.join(alts)))
    return '\n'.join(lines) + TERM_DEFS


def build(g, pp, mp, lexer):
    from lark import Lark
    return Lark(g, parser='lalr', lexer=lexer, propagate_positions=pp, maybe_placeholders=mp)


def self_pp_ok(p):
    return p.options.propagate_positions is True


class Export:
    """lark's parse table and callback shapes as numbers (what the Coq model runs)"""

    def __init__(self, p):
        from lark.parsers.lalr_analysis import Shift
        from lark import parse_tree_builder as ptb
        from lark.tree import Tree
        import functools
        pt = p.parser.parser._parse_table
        cbs = p.parser.parser.parser.callbacks
        self.states = pt.states
        self.s0 = pt.start_states['start']
        self.e0 = pt.end_states['start']
        self.rules = list(cbs.keys())
        ridx = {r: i for i, r in enumerate(self.rules)}
        tnames = sorted({k for row in pt.states.values() for k in row if k.isupper() and k != '$END'})
        self.term = {'$END': 0}
        for t in tnames:
            self.term[t] = len(self.term)
        self.nts = {}
        for r in self.rules:
            self.nts.setdefault(r.origin.name, len(self.nts))
        self.data = {}
        self.acts, self.gotos = [], []
        self.nreduce = {}
        for s, row in pt.states.items():
            a, g = [], []
            for k, (act, arg) in row.items():
                if k.isupper():
                    if act is Shift:
                        a.append((self.term[k], ('S', arg)))
                    else:
                        a.append((self.term[k], ('R', ridx[arg])))
                else:
                    if act is not Shift:
                        raise ValueError('goto entry is not a Shift')
                    g.append((self.nts[k], arg))
            self.acts.append((s, a))
            self.gotos.append((s, g))
        self.cbs = []
        self.inplace_rules = set()
        self.expand1_rules = set()
        for r in self.rules:
            f = cbs[r]
            e1, filt = False, None
            seen_filter = False
            while True:
                if isinstance(f, ptb.PropagatePositions):
                    if f.node_filter is not None or not self_pp_ok(p) or seen_filter or e1:
                        raise ValueError('PropagatePositions in an unmodelled place')
                    f = f.node_builder
                elif type(f) is ptb.ChildFilterLALR:
                    if seen_filter or e1:
                        raise ValueError('unexpected chain order')
                    filt = ([(i, bool(x), int(nn)) for i, x, nn in f.to_include], int(f.append_none))
                    seen_filter = True
                    f = f.node_builder
                elif type(f) is ptb.ChildFilterLALR_NoPlaceholders:
                    if seen_filter or e1:
                        raise ValueError('unexpected chain order')
                    filt = ([(i, bool(x), 0) for i, x in f.to_include], 0)
                    seen_filter = True
                    f = f.node_builder
                elif type(f) is ptb.ExpandSingleChild:
                    if e1:
                        raise ValueError('two ExpandSingleChild')
                    e1 = True
                    f = f.node_builder
                elif isinstance(f, functools.partial) and f.func is Tree and len(f.args) == 1 and not f.keywords:
                    name = str(f.args[0])
                    break
                else:
                    raise ValueError('unknown callback wrapper %r' % (f,))
            d = self.data.setdefault(name, len(self.data) + 1)
            self.cbs.append((d, e1, filt))
            if filt and any(x for _, x, _ in filt[0]):
                self.inplace_rules.add(ridx[r])
            if e1:
                self.expand1_rules.add(ridx[r])
        self.rule_info = [(self.nts[r.origin.name], len(r.expansion)) for r in self.rules]
        self.pp = bool(p.options.propagate_positions)
        self.action = {s: dict(a) for s, a in self.acts}
        self.goto = {s: dict(g) for s, g in self.gotos}
        self.tname = {v: k for k, v in self.term.items()}

    # control-only LR driver (independent of lark's feed_token; used to generate plausible inputs)
    def pyfeed(self, ss, t):
        ss = list(ss)   # top last, like lark
        is_end = (t == 0)
        reduced = []
        for _ in range(500):
            act = self.action[ss[-1]].get(t)
            if act is None:
                return ss, KERROR, reduced
            if act[0] == 'S':
                if is_end:
                    return ss, KSTUCK, reduced
                ss.append(act[1])
                return ss, KSHIFT, reduced
            lhs, ar = self.rule_info[act[1]]
            reduced.append(act[1])
            if ar:
                del ss[-ar:]
            s1 = self.goto[ss[-1]].get(lhs)
            if s1 is None:
                return ss, KSTUCK, reduced
            ss.append(s1)
            if is_end and s1 == self.e0:
                return ss, KRESULT, reduced
        return ss, KSTUCK, reduced

    def completion(self, ss, depth=6, limit=400):
        """a shortest terminal sequence after which $END is accepted (None if none is found quickly)"""
        from collections import deque
        start = tuple(ss)
        q = deque([(start, [])])
        seen = {start}
        names = [t for t in self.term if t != '$END']
        while q and len(seen) < limit:
            cur, path = q.popleft()
            if self.pyfeed(cur, 0)[1] == KRESULT:
                return path
            if len(path) >= depth:
                continue
            for t in names:
                s2, kd, _ = self.pyfeed(cur, self.term[t])
                if kd == KSHIFT and tuple(s2) not in seen:
                    seen.add(tuple(s2))
                    q.append((tuple(s2), path + [t]))
        return None

    def coq_tables(self):
        def act(a):
            return '(Shift %d)' % a[1] if a[0] == 'S' else '(Reduce %d)' % a[1]
        acts = L(['(%d, %s)' % (s, L(['(%d, %s)' % (t, act(a)) for t, a in row])) for s, row in self.acts])
        gotos = L(['(%d, %s)' % (s, L(['(%d, %d)' % x for x in row])) for s, row in self.gotos])
        rules = L(['(%d, %d)' % x for x in self.rule_info])

        def cb(c):
            d, e1, f = c
            ff = 'None' if f is None else 'Some (%s, %d)' % (
                L(['(%d, %s, %d)' % (i, 'true' if x else 'false', nn) for i, x, nn in f[0]]), f[1])
            return '(mk_cbdata %d %s (%s))' % (d, 'true' if e1 else 'false', ff)
        return acts, gotos, rules, self.s0, self.e0, L([cb(c) for c in self.cbs])


# ----------------------------------------------------------------------------------------- values
def tok_id(t):
    return int(str(t)[1:]) if len(str(t)) > 1 else 0


def coq_trip(a, b, c):
    return '(mk_trip %d %d %d)' % (a, b, c)


def coq_meta(m):
    def grp(names):
        if m is not None and hasattr(m, names[1]):
            return '(Some %s)' % coq_trip(*[getattr(m, n) for n in names])
        return 'None'
    return '(mk_meta %s %s %s %s)' % (grp(('start_pos', 'line', 'column')), grp(('end_pos', 'end_line', 'end_column')),
                                     grp(('container_start_pos', 'container_line', 'container_column')),
                                     grp(('container_end_pos', 'container_end_line', 'container_end_column')))


def coq_tp(t):
    return '(mk_tp %d %s %s)' % (tok_id(t), coq_trip(t.start_pos, t.line, t.column), coq_trip(t.end_pos, t.end_line, t.end_column))


def to_ptree(ex, v):
    from lark import Tree, Token
    if v is None:
        return 'PNone'
    if isinstance(v, Token):
        return '(PTok %d %d)' % (ex.term[v.type], tok_id(v))
    if isinstance(v, Tree):
        return '(PNode %d %s %s)' % (ex.data[str(v.data)], coq_meta(v._meta), L([to_ptree(ex, c) for c in v.children]))
    raise ValueError('unexpected value on the value stack: %r' % (v,))


def lexer_count(thread, text_tokens):
    """how many tokens of the text a LexerThread has yielded"""
    if thread is None or thread.state is None or text_tokens is None:
        return 0
    pos = thread.state.line_ctr.char_pos
    return len([t for t in text_tokens if t.end_pos <= pos])


def dump(v, meta_mode):
    """structural dump of a result / stack value. meta_mode: 0 none, 1 public fields, 2 public + container"""
    from lark import Tree, Token
    if v is None:
        return None
    if isinstance(v, Token):
        return ('K', v.type, str(v), v.start_pos, v.line, v.column, v.end_line, v.end_column, v.end_pos)
    if isinstance(v, Tree):
        m = ()
        if meta_mode and v._meta is not None:
            names = PUB + (CONT if meta_mode == 2 else ())
            m = tuple((k, getattr(v._meta, k)) for k in names if hasattr(v._meta, k))
        return ('T', str(v.data), m, tuple(dump(c, meta_mode) for c in v.children))
    if isinstance(v, list):
        return ('L', tuple(dump(c, meta_mode) for c in v))
    return ('?', repr(v))


def mutable_ids(v, acc, with_meta):
    from lark import Tree
    if isinstance(v, Tree):
        acc.add(id(v))
        acc.add(id(v.children))
        if with_meta and v._meta is not None:
            acc.add(id(v._meta))
        for c in v.children:
            mutable_ids(c, acc, with_meta)
    elif isinstance(v, list):
        acc.add(id(v))
        for c in v:
            mutable_ids(c, acc, with_meta)
    return acc


def meta_defect_present():
    """F21: Tree.__deepcopy__ shares the Meta object (see the exotic stream)."""
    return witness_meta_A() is not None


def witness_meta_A():
    g = 'start: x\n?x: e _S | e _S _T\ne:\n' + TERM_DEFS
    p = build(g, True, True, 'basic')
    text = ';1   !2'
    T = list(p.lex(text))
    ip = p.parse_interactive()
    ip.feed_token(T[0])
    f1, f2 = ip.copy(), ip.copy()
    f1.feed_eof(T[0])
    f2.feed_token(T[1])
    r2 = f2.feed_eof(T[1])
    exp = p.parse(text)
    if dump(r2, 1) != dump(exp, 1):
        return {'grammar': g, 'text': text, 'fork_result': repr(dump(r2, 1)), 'parse_result': repr(dump(exp, 1)), 'which': 'A'}
    return None


def witness_meta_B():
    g = 'start: x\n?x: _L y _R | _L y _R _S\ny: A\n' + TERM_DEFS
    p = build(g, True, True, 'basic')
    text = '(1 a2 )3 ;4'
    T = list(p.lex(text))
    ip = p.parse_interactive()
    for t in T[:3]:
        ip.feed_token(t)
    f1, f2 = ip.copy(), ip.copy()
    r1 = f1.feed_eof(T[2])
    before = dump(r1, 2)
    f2.feed_token(T[3])
    f2.feed_eof(T[3])
    after = dump(r1, 2)
    if before != after:
        return {'grammar': g, 'text': text, 'result_when_returned': repr(before), 'result_after_sibling_ran': repr(after), 'which': 'B'}
    return None


def witness_resume_lexer():
    """F22: a fork's resume_parse() reads the original's lexer (ParserState.copy keeps self.lexer)."""
    from lark.exceptions import UnexpectedToken
    g = 'start: A B C\n' + TERM_DEFS
    p = build(g, False, True, 'basic')
    text = 'a1 b2 c3'
    ip = p.parse_interactive(text)
    fork = ip.copy()
    r1 = fork.resume_parse()
    try:
        r0 = ip.resume_parse()
    except UnexpectedToken as e:
        return {'grammar': g, 'text': text, 'which': 'R', 'fork_result': repr(r1),
                'original_after_fork_resumed': 'UnexpectedToken(%s)' % e.token.type, 'expected': repr(p.parse(text))}
    if r0 != p.parse(text):
        return {'grammar': g, 'text': text, 'which': 'R', 'original_after_fork_resumed': repr(r0)}
    return None


def run_witness(fn, name):
    """a witness that raises (e.g. because forks share their state stack) also counts as reproduced"""
    try:
        with watchdog():
            return fn()
    except Hang:
        return {'which': {'regress-meta-A': 'A', 'regress-meta-B': 'B', 'regress-resume-lexer': 'R'}[name],
                'exception': 'did not return within %d s' % HANG_SECS}
    except Exception as e:  # noqa
        return {'which': {'regress-meta-A': 'A', 'regress-meta-B': 'B', 'regress-resume-lexer': 'R'}[name],
                'exception': '%s: %s' % (type(e).__name__, str(e)[:200])}


# ----------------------------------------------------------------------------------------- fork trees
class Fork:
    """one parser object held by the harness, with its own history"""

    def __init__(self, py, imm, fed, text, depth, errs=False, lexpos=0, last=None):
        self.py, self.imm, self.fed, self.text, self.depth = py, imm, list(fed), text, depth
        self.done, self.errs, self.result = False, errs, None
        self.lexpos, self.last = lexpos, last
        self.state = py.parser_state if py is not None else None   # kept even when the object is lost


def tok_sig(t):
    return (t.type, str(t), t.start_pos, t.line, t.column, t.end_line, t.end_column, t.end_pos)


def mk_token(text, ty, ident, sep=' '):
    """append a token of type ty to text; returns (new_text, Token with the positions the lexer would give)"""
    from lark import Token
    s = TCHAR[ty] + str(ident)
    if text:
        text = text + sep
    start = len(text)
    line = 1 + text.count('\n')
    col = start - (text.rfind('\n') + 1) + 1
    return text + s, Token(ty, s, start, line, col, line, col + len(s), start + len(s))


class TreeRun:
    """executes fork-tree operations on the implementation, records ops/observations for the model and
    evaluates the property's own oracle after every operation"""

    def __init__(self, rng, p, ex, lexer, allow_bad, meta_mode, text=None, lexer_shared=False):
        self.rng, self.p, self.ex, self.lexer = rng, p, ex, lexer
        self.lexer_shared = lexer_shared   # True: only the root parser may call resume_parse()
        self.oracle = True                 # False: record only (shallow-copy runs, where the property does not hold)
        self.allow_bad = allow_bad
        self.mm = meta_mode           # how much of Tree.meta the oracle compares (0 none, 1 public, 2 all)
        self.forks = []
        self.ops, self.obs = [], []   # Coq terms
        self.script = []              # replayable description
        self.fail = None
        self.next_id = 1
        self.bits = set()
        self.text = text              # lexer-driven runs: the text every fork's lexer reads
        self.text_tokens = list(p.lex(text)) if text is not None else None
        self.tokpos = {tok_id(t): t for t in (self.text_tokens or [])}   # token identity -> Token (positions)
        ip = p.parse_interactive(text) if text is not None else p.parse_interactive()
        self.forks.append(Fork(ip, False, [], text or '', 0))

    # -- observation helpers ---------------------------------------------------------------
    def _snap(self):
        out = []
        for f in self.forks:
            if f.state is None:
                out.append(None)
                continue
            res = dump(f.result, self.mm) if (f.done and not isinstance(f.result, str)) else None
            out.append((tuple(f.state.state_stack), dump(list(f.state.value_stack), self.mm), res))
        return out

    def _check_others(self, before, touched, what):
        """every parser not touched by the operation, and every result already returned, is unchanged; no two
        parsers reach a common mutable object"""
        if self.fail or not self.oracle:
            return
        after = self._snap()
        for j, (b, a) in enumerate(zip(before, after)):
            if j in touched or b is None:
                continue
            if b != a:
                self.fail = ('independence', 'operation %s changed parser %d (its stacks or an already returned result)' % (what, j))
                return
        seen = {}
        for j, f in enumerate(self.forks):
            if f.state is None:
                continue
            ids = set()
            for v in f.state.value_stack:
                mutable_ids(v, ids, self.mm > 0)
            ids.add(id(f.state.state_stack))
            ids.add(id(f.state.value_stack))
            for k, other in seen.items():
                if ids & other:
                    self.fail = ('aliasing', 'parsers %d and %d reach a common mutable object after %s' % (k, j, what))
                    return
            seen[j] = ids

    def _choices_check(self, j):
        f = self.forks[j]
        if self.fail or f.py is None or not self.oracle:
            return
        if dict(f.py.choices()) != dict(self.ex.states[f.state.state_stack[-1]]):
            self.fail = ('choices', 'choices() of parser %d is not the table row of its top state' % j)

    def _record_fed(self, j, kind):
        ss = list(reversed(self.forks[j].state.state_stack))
        self.obs.append('(EFed %d %d %s)' % (j, kind, L([N(x) for x in ss])))

    def _note_reductions(self, ss_before, tnum):
        _, _, red = self.ex.pyfeed(ss_before, tnum)
        if set(red) & self.ex.inplace_rules:
            self.bits.add('inplace')
        if set(red) & self.ex.expand1_rules:
            self.bits.add('expand1')
        return bool(red)

    # -- feed (hand-made token, or the next token of the parser's own lexer) -----------------------
    def op_feed(self, i, ty, ident=None, sep=' ', from_lexer=False):
        from lark.exceptions import UnexpectedToken
        f = self.forks[i]
        is_end = (ty == '$END')
        before = self._snap()
        ss_before = list(f.state.state_stack)
        new_text = f.text
        if from_lexer:
            tok = next(f.py.lexer_thread.lex(f.py.parser_state))
            want = self.text_tokens[f.lexpos]
            if tok_sig(tok) != tok_sig(want):
                self.fail = ('lexer-copy', 'parser %d: its lexer yielded %r where the text has %r' % (i, tok_sig(tok), tok_sig(want)))
                return None
            f.lexpos += 1
            ty, ident = tok.type, tok_id(tok)
            self.script.append(['step', i])
        elif is_end:
            tok = None
            self.script.append(['feed', i, ty, None, sep])
        else:
            if ident is None:
                ident = self.next_id
                self.next_id += 1
            new_text, tok = mk_token(f.text, ty, ident, sep)
            self.script.append(['feed', i, ty, ident, sep])
        tnum = self.ex.term[ty]
        if from_lexer:
            self.ops.append('(OStep %d)' % i)
        else:
            self.ops.append('(OFeed %d %d %d)' % (i, tnum, 0 if is_end else ident))
        if tok is not None:
            self.tokpos[ident] = tok
        kind, res, new_py, err_state = None, None, None, None
        try:
            r = f.py.feed_eof(f.last) if is_end else f.py.feed_token(tok)
            if f.imm:
                new_py, res = r, r.result
            else:
                res = r
            kind = KRESULT if is_end else KSHIFT
        except UnexpectedToken as e:
            kind = KERROR
            err_state = e.state
        except Exception as e:  # noqa
            kind = KSTUCK
            self.fail = ('exception', 'feed raised %s: %s' % (type(e).__name__, str(e)[:200]))
            return kind
        if f.imm:
            j = len(self.forks)
            nf = Fork(new_py, True, f.fed + ([] if tok is None else [tok]), new_text, f.depth + 1,
                      f.errs or kind == KERROR, f.lexpos, f.last if (is_end or kind == KERROR) else tok)
            if new_py is None:
                nf.state = err_state     # the copy itself is unreachable, its state came with the exception
                nf.done = True
                nf.result = 'LOST'
            self.forks.append(nf)
            before.append(None)
            tgt = nf
        else:
            j, tgt = i, f
            if tok is not None and not from_lexer:
                tgt.text = new_text
            if tok is not None:
                tgt.fed.append(tok)
            if kind == KSHIFT:
                tgt.last = tok
            elif kind == KERROR and not is_end:
                tgt.errs = True
        if kind == KRESULT:
            tgt.done, tgt.result = True, res
            self.bits.add('result')
        elif is_end and kind == KERROR and tgt.result != 'LOST':
            tgt.done, tgt.result = True, 'ERROR'
        self._record_fed(j, kind)
        self._check_others(before, {j}, 'feed')
        self._choices_check(j)
        if not is_end:
            self._note_reductions(ss_before, tnum)
        return kind

    def op_copy(self, i, how):
        from lark.parsers.lalr_interactive_parser import ImmutableInteractiveParser
        f = self.forks[i]
        before = self._snap()
        self.script.append([how, i])
        if how == 'copy':
            c, imm = f.py.copy(), f.imm
            self.ops.append('(OCopy %d InterHoles.interactive_copy_default)' % i)
        elif how == 'copycopy':
            c, imm = _copy.copy(f.py), f.imm
            self.ops.append('(OCopy %d InterHoles.interactive_copy_default)' % i)
        elif how == 'copydeep':
            c, imm = f.py.copy(deepcopy_values=True), f.imm
            self.ops.append('(OCopy %d true)' % i)
        elif how == 'shallow':
            c, imm = f.py.copy(deepcopy_values=False), f.imm
            self.ops.append('(OCopy %d false)' % i)
        elif how == 'imm':
            c, imm = f.py.as_immutable(), True
            self.ops.append('(OAsImm %d)' % i)
        else:
            c, imm = f.py.as_mutable(), False
            self.ops.append('(OAsMut %d)' % i)
        if isinstance(c, ImmutableInteractiveParser) != imm:
            self.fail = ('kind', '%s returned a parser of the wrong class' % how)
        nf = Fork(c, imm, f.fed, f.text, f.depth + 1, f.errs, f.lexpos, f.last)
        if f.done:
            # a copy of a finished parser: it has no result of its own; it is only observed, never fed
            nf.done, nf.result = True, 'COPY-OF-DONE'
        j = len(self.forks)
        self.forks.append(nf)
        before.append(None)
        self.obs.append('(ENew %d)' % j)
        self._check_others(before, {j}, how)
        if self.text is not None and not self.fail and f.lexpos < len(self.text_tokens):
            # the copy's lexer must be at the same place and independent of the original's
            a, b = f.py.lexer_thread.state.line_ctr, c.lexer_thread.state.line_ctr
            if a is b or a.char_pos != b.char_pos:
                self.fail = ('lexer-copy', '%s: the copy shares or misplaces the lexer position' % how)
        self.bits.add('fork')

    def op_accepts(self, i):
        from lark import Token
        from lark.exceptions import UnexpectedToken
        f = self.forks[i]
        before = self._snap()
        self.script.append(['accepts', i])
        try:
            acc = f.py.accepts()
        except Exception as e:  # noqa
            self.fail = ('exception', 'accepts() raised %s: %s' % (type(e).__name__, str(e)[:200]))
            return
        self.ops.append('(OAccepts %d)' % i)
        order = [k for k in f.py.choices() if k in acc]
        self.obs.append('(EAcc %s)' % L([N(self.ex.term[k]) for k in order]))
        self._check_others(before, set(), 'accepts')
        if self.fail or not self.oracle:
            return
        # the property's own statement: t in accepts()  <=>  feeding a token of type t succeeds
        expect = set()
        for t in self.ex.term:
            c = f.py.copy(deepcopy_values=True)
            if f.imm:
                c = c.as_mutable()
            try:
                if t == '$END':
                    c.feed_eof()
                else:
                    c.feed_token(Token(t, ''))
                expect.add(t)
            except UnexpectedToken:
                pass
        if acc != expect:
            self.fail = ('accepts', 'parser %d: accepts()=%s but feeding succeeds exactly for %s' % (i, sorted(acc), sorted(expect)))

    def op_resume(self, i):
        """p_i.resume_parse(): the rest of its own lexer, then $END"""
        from lark.exceptions import UnexpectedToken
        f = self.forks[i]
        before = self._snap()
        self.script.append(['resume', i])
        rest = self.text_tokens[f.lexpos:]
        self.ops.append('(OResume %d)' % i)
        try:
            res = f.py.resume_parse()
            kind = KRESULT
            f.lexpos = len(self.text_tokens)
            f.done, f.result = True, res
            self.bits.add('result')
            self.bits.add('resume')
        except UnexpectedToken as e:
            kind = KERROR
            if e.token.type == '$END':
                f.lexpos = len(self.text_tokens)
                f.done, f.result = True, 'ERROR'
            else:
                k = [n for n, t in enumerate(self.text_tokens) if t.start_pos == e.token.start_pos][0]
                f.lexpos = k + 1
                f.errs = True
                self.bits.add('error')
        except Exception as e:  # noqa
            self.fail = ('exception', 'resume_parse raised %s: %s' % (type(e).__name__, str(e)[:200]))
            return
        self._record_fed(i, kind)
        self._check_others(before, {i}, 'resume_parse')

    # -- random walks ------------------------------------------------------------------------
    def _shiftable(self, ss):
        ok, bad = [], []
        for t, n in self.ex.term.items():
            if t == '$END':
                continue
            _, kd, red = self.ex.pyfeed(ss, n)
            (ok if kd == KSHIFT else bad).append((t, red))
        return ok, bad

    def run_tree(self, max_ops):
        rng = self.rng
        last_reduced = False
        for step in range(max_ops):
            if self.fail:
                break
            live = [i for i, f in enumerate(self.forks) if f.py is not None and not f.done]
            if not live:
                break
            i = rng.choice(live[-3:] if rng.random() < 0.6 else live)
            f = self.forks[i]
            ss = f.state.state_stack
            room = len(self.forks) < 12
            can_fork = f.depth < 4 and len(self.forks) < 9
            r = rng.random()
            if can_fork and (r < 0.2 or (last_reduced and r < 0.5) or (step >= 3 and len(self.forks) == 1)):
                self.op_copy(i, rng.choice(['copy', 'copy', 'copycopy', 'copydeep', 'imm', 'mut' if f.imm else 'imm']))
                last_reduced = False
                continue
            if f.imm and not room:
                self.op_accepts(i)
                continue
            r = rng.random()
            ok, bad = self._shiftable(ss)
            if r < 0.6 and ok:
                t, red = rng.choice(ok)
                self.op_feed(i, t, sep=rng.choice([' ', ' ', '  ', '\n']))
                last_reduced = bool(red)
            elif r < 0.72:
                if self.ex.pyfeed(ss, 0)[1] == KRESULT or rng.random() < 0.15:
                    self.op_feed(i, '$END')
            elif r < 0.9:
                self.op_accepts(i)
            elif self.allow_bad and bad:
                self.op_feed(i, rng.choice(bad)[0])
                self.bits.add('error')
        # finish every open fork: complete its sentence when that is cheap, then $END
        i = 0
        while i < len(self.forks) and not self.fail:
            f = self.forks[i]
            i += 1
            if f.py is None or f.done:
                continue
            if f.imm:
                if len(self.forks) >= 18:
                    continue
                if self.ex.pyfeed(f.state.state_stack, 0)[1] == KRESULT or rng.random() < 0.3:
                    self.op_feed(i - 1, '$END')
                else:
                    self.op_copy(i - 1, 'mut')
                continue
            comp = self.ex.completion(f.state.state_stack) if rng.random() < 0.85 else None
            for t in comp or []:
                if self.fail or self.op_feed(i - 1, t, sep=rng.choice([' ', '\n'])) != KSHIFT:
                    break
            if not self.fail:
                self.op_feed(i - 1, '$END')

    def run_accepts_sweep(self, types, imm_at=None):
        """one parser fed a token sequence, accepts() before every token, after every token (also after an unexpected
        one, where the reductions done under that look-ahead stay) and before $END; from position imm_at on through an
        immutable parser (every feed creates a new one)"""
        cur = 0
        self.op_accepts(cur)
        for k, ty in enumerate(types):
            if self.fail or len(self.forks) >= 14:
                break
            if imm_at is not None and k == imm_at:
                self.op_copy(cur, 'imm')
                cur = len(self.forks) - 1
            f = self.forks[cur]
            if f.py is None or f.done:
                break
            acc_terms = {t for t in f.py.choices() if t.isupper()}
            kd = self.op_feed(cur, ty)
            if self.fail:
                break
            if f.imm:
                cur = len(self.forks) - 1
                if self.forks[cur].py is None:
                    break
            if kd == KERROR:
                self.bits.add('error')
            self.op_accepts(cur)
            if not self.fail and {t for t in self.forks[cur].py.choices() if t.isupper()} != set(self.forks[cur].py.accepts()):
                self.bits.add('trial-rejects')     # a key of choices() whose trial feed fails after its reductions
        f = self.forks[cur]
        if not self.fail and f.py is not None and not f.done:
            self.op_feed(cur, '$END')

    def run_shallow(self, max_ops):
        """mutable parsers, shallow copies, feeds and accepts only; nothing is asserted (the model is compared)"""
        rng = self.rng
        self.oracle = False
        for _ in range(max_ops):
            if self.fail:
                break
            live = [i for i, f in enumerate(self.forks) if not f.done]
            if not live:
                break
            i = rng.choice(live)
            f = self.forks[i]
            r = rng.random()
            ok, _ = self._shiftable(f.state.state_stack)
            if r < 0.25 and len(self.forks) < 5:
                self.op_copy(i, 'shallow')
            elif r < 0.85 and ok:
                self.op_feed(i, rng.choice(ok)[0])
            elif r < 0.93:
                self.op_accepts(i)
            elif self.ex.pyfeed(f.state.state_stack, 0)[1] == KRESULT:
                self.op_feed(i, '$END')
        for i, f in enumerate(list(self.forks)):
            if not f.done and not self.fail and self.ex.pyfeed(f.state.state_stack, 0)[1] == KRESULT:
                self.op_feed(i, '$END')

    def run_lexer_forks(self, max_ops):
        rng = self.rng
        n = len(self.text_tokens)

        def may_resume(i):
            return i == 0 or not self.lexer_shared
        for _ in range(max_ops):
            if self.fail:
                break
            live = [i for i, f in enumerate(self.forks) if f.py is not None and not f.done]
            if not live:
                break
            i = rng.choice(live)
            f = self.forks[i]
            r = rng.random()
            if r < 0.25 and f.depth < 4 and len(self.forks) < 8:
                self.op_copy(i, rng.choice(['copy', 'copycopy', 'imm', 'mut' if f.imm else 'copy']))
            elif r < 0.6 and not f.imm and f.lexpos < n:
                k = self.op_feed(i, None, from_lexer=True)
                if k == KERROR:
                    self.bits.add('error')
            elif r < 0.72:
                self.op_accepts(i)
            elif r < 0.9 and may_resume(i):
                self.op_resume(i)
        i = 0
        while i < len(self.forks) and not self.fail:
            f = self.forks[i]
            if f.py is not None and not f.done:
                if may_resume(i):
                    for _ in range(n + 2):
                        if f.done or self.fail:
                            break
                        self.op_resume(i)
                elif f.imm:
                    if len(self.forks) < 14:
                        self.op_copy(i, 'mut')
                else:
                    while f.lexpos < n and not self.fail:
                        if self.op_feed(i, None, from_lexer=True) == KERROR:
                            self.bits.add('error')
                    if not self.fail:
                        self.op_feed(i, '$END')
            i += 1

    # -- final oracle: every fork's result is the parse of its own token sequence; originals re-checked
    def final_oracle(self):
        from lark.exceptions import UnexpectedToken
        if self.fail:
            return
        texts = set()
        for j, f in enumerate(self.forks):
            if f.state is None or not f.done or isinstance(f.result, str) and f.result in ('LOST', 'COPY-OF-DONE'):
                continue
            if self.text is None and [tok_sig(t) for t in self.p.lex(f.text)] != [tok_sig(t) for t in f.fed]:
                raise RuntimeError('harness: hand-made tokens differ from the lexer output for %r' % f.text)
            if f.errs and self.lexer != 'basic':
                continue
            try:
                exp = self.p.parse(f.text, on_error=(lambda e: isinstance(e, UnexpectedToken)) if f.errs else None)
                exp_d = dump(exp, self.mm)
            except UnexpectedToken:
                exp_d = 'ERROR'
            got = 'ERROR' if isinstance(f.result, str) else dump(f.result, self.mm)
            if got != exp_d:
                self.fail = ('result', 'parser %d: its result differs from parse(%r)%s' % (j, f.text, ' with unexpected tokens skipped' if f.errs else ''))
                return
            texts.add(f.text if self.text is None else j)
        if len(texts) >= 2:
            self.bits.add('distinct')

    def finals(self):
        out = []
        for f in self.forks:
            if f.state is None:
                out.append('None')
            else:
                lt = f.py.lexer_thread if f.py is not None else f.state.lexer
                lx = '(Some (%d, %d))' % (lexer_count(lt, self.text_tokens), lexer_count(f.state.lexer, self.text_tokens))
                out.append('(mk_final %s %s %s)' % (L([N(x) for x in reversed(f.state.state_stack)]),
                                                  L([to_ptree(self.ex, v) for v in f.state.value_stack]), lx))
        return L(out)

    def coq_rest(self):
        tps = L([coq_tp(t) for _, t in sorted(self.tokpos.items())])
        inp = L(['(%d, %d)' % (self.ex.term[t.type], tok_id(t)) for t in (self.text_tokens or [])])
        return '%s %s %s %s %s' % (tps, inp, L(self.ops), L(self.obs), self.finals())

    def coq_case(self, shared=False):
        pp = 'true' if self.ex.pp else 'false'
        if shared:
            return '(mk_icase ta tg tr %d %d tc %s %s)' % (self.ex.s0, self.ex.e0, pp, self.coq_rest())
        acts, gotos, rules, s0, e0, cbs = self.ex.coq_tables()
        return '(mk_icase %s %s %s %d %d %s %s %s)' % (acts, gotos, rules, s0, e0, cbs, pp, self.coq_rest())

    def nontrivial(self):
        return {'fork', 'distinct', 'result'} <= self.bits and bool(self.bits & {'inplace', 'expand1'})


# replay of a recorded script on the implementation -----------------------------------------------------
def replay_script(g, pp, mp, lexer, script, meta_mode, text=None, oracle=True):
    p = build(g, pp, mp, lexer)
    ex = Export(p)
    tr = TreeRun(None, p, ex, lexer, True, meta_mode, text, lexer_shared=False)
    tr.oracle = oracle
    for st in script:
        if st[1] >= len(tr.forks) or tr.forks[st[1]].py is None or \
                (st[0] in ('feed', 'step', 'resume') and tr.forks[st[1]].done) or \
                (st[0] == 'mut' and not tr.forks[st[1]].imm) or (st[0] == 'step' and tr.forks[st[1]].imm):
            continue
        if tr.fail:
            break
        if st[0] == 'feed':
            tr.op_feed(st[1], st[2], st[3], st[4])
        elif st[0] == 'step':
            tr.op_feed(st[1], None, from_lexer=True)
        elif st[0] == 'accepts':
            tr.op_accepts(st[1])
        elif st[0] == 'resume':
            tr.op_resume(st[1])
        else:
            tr.op_copy(st[1], st[0])
    tr.final_oracle()
    return tr


# ----------------------------------------------------------------------------------------- on_error stream
def gen_sentence(rng, ex, bad_rate, max_len=12):
    """token types by a random walk over the table (own control-only driver); unexpected tokens injected"""
    ss = [ex.s0]
    out = []
    names = [t for t in ex.term if t != '$END']
    for _ in range(max_len):
        ok, bad = [], []
        for t in names:
            s2, kd, _ = ex.pyfeed(ss, ex.term[t])
            (ok if kd == KSHIFT else bad).append((t, s2))
        if ex.pyfeed(ss, 0)[1] == KRESULT and rng.random() < 0.25:
            break
        if bad and rng.random() < bad_rate:
            t, ss = rng.choice(bad)
            out.append(t)
            continue
        if not ok:
            break
        t, ss = rng.choice(ok)
        out.append(t)
    return out


def sentence_text(rng, types):
    text, toks = '', []
    for k, ty in enumerate(types):
        text, tok = mk_token(text, ty, k + 1, rng.choice([' ', ' ', '\n']))
        toks.append(tok)
    return text, toks


class OnErrorRun:
    """Lark.parse(text, on_error=lambda e: True): every unexpected token is dropped and resume_parse() continues.
    Oracle: a fresh interactive parser fed the same tokens one by one, skipping those that raise."""

    def __init__(self, p, ex, text, meta_mode):
        from lark.exceptions import UnexpectedToken
        self.fail = None
        toks = list(p.lex(text))
        errs = []
        holder = {}

        def handler(e):
            if not isinstance(e, UnexpectedToken):
                return False
            holder['state'] = e.interactive_parser.parser_state
            errs.append((e.token.type, e.token.start_pos, list(e.interactive_parser.parser_state.state_stack)))
            return True
        final_exc = None
        try:
            res = p.parse(text, on_error=handler)
            got = dump(res, meta_mode)
        except UnexpectedToken as e:
            got = 'ERROR'
            final_exc = e
            holder['state'] = e.state
        # oracle: interactive feeding with skipping
        ip = p.parse_interactive()
        o_errs = []
        last = None
        for t in toks:
            try:
                ip.feed_token(t)
                last = t
            except UnexpectedToken:
                o_errs.append((t.type, t.start_pos, list(ip.parser_state.state_stack)))
        try:
            exp = dump(ip.feed_eof(last), meta_mode)
            end_err = False
        except UnexpectedToken:
            exp = 'ERROR'
            end_err = True
        # parse() asks the handler once about the $END error before giving up
        o_all = o_errs + ([('$END', errs[-1][1] if errs else 0, list(ip.parser_state.state_stack))] if end_err else [])
        if got != exp:
            self.fail = ('resume', 'parse(on_error=skip) differs from feeding the same tokens one by one and skipping the unexpected ones')
        elif [(a, c) for a, b, c in errs] != [(a, c) for a, b, c in o_all]:
            self.fail = ('resume', 'error states seen by on_error differ from those of token-by-token feeding')
        # model: one OResume per (re)start
        idx = {t.start_pos: k for k, t in enumerate(toks)}
        self.ops, self.obs = [], []
        pos = 0
        n_err = 0
        for (ty, sp, ss) in errs:
            self.ops.append('(OResume 0)')
            self.obs.append('(EFed 0 %d %s)' % (KERROR, L([N(x) for x in reversed(ss)])))
            pos = len(toks) if ty == '$END' else idx[sp] + 1
            n_err += 1
        self.ops.append('(OResume 0)')
        st = holder.get('state', ip.parser_state)
        self.obs.append('(EFed 0 %d %s)' % (KERROR if final_exc is not None else KRESULT,
                                           L([N(x) for x in reversed(st.state_stack)])))
        lx = 'None'
        if 'state' in holder:
            n = lexer_count(st.lexer, toks)
            lx = '(Some (%d, %d))' % (n, n)
        self.final = '(mk_final %s %s %s)' % (L([N(x) for x in reversed(st.state_stack)]),
                                             L([to_ptree(ex, v) for v in st.value_stack]), lx)
        self.rest = '%s %s %s %s %s' % (L([coq_tp(t) for t in toks]),
                                        L(['(%d, %d)' % (ex.term[t.type], tok_id(t)) for t in toks]),
                                        L(self.ops), L(self.obs), L([self.final]))
        self.ex = ex
        self.n_err = n_err
        self.ok = final_exc is None

    def coq_case(self, shared=False):
        pp = 'true' if self.ex.pp else 'false'
        if shared:
            return '(mk_icase ta tg tr %d %d tc %s %s)' % (self.ex.s0, self.ex.e0, pp, self.rest)
        acts, gotos, rules, s0, e0, cbs = self.ex.coq_tables()
        return '(mk_icase %s %s %s %d %d %s %s %s)' % (acts, gotos, rules, s0, e0, cbs, pp, self.rest)


def coq_group(ex, runs):
    """all cases of one grammar as one Coq term of type list icase; the tables are written once"""
    acts, gotos, rules, s0, e0, cbs = ex.coq_tables()
    return '(let ta := %s in let tg := %s in let tr := %s in let tc := %s in %s)' % (
        acts, gotos, rules, cbs, L([r.coq_case(shared=True) for r in runs]))


# ----------------------------------------------------------------------------------------- driver
# grammars that always take part (propagate_positions on): inlined ?rules that return an existing child tree
# with filtered tokens around it (the Meta of that tree is written in place), empty trees, nesting
SPECIAL_GRAMMARS = [
    'start: x\n?x: e _S | e _S _T\ne:\n',
    'start: x\n?x: _L y _R | _L y _R _S\ny: A\n',
    'start: x C\n?x: e _S | _L x _R\ne: | A\n',
    'start: x\n?x: _S e | _S e _T\ne:\n',
    'start: _l\n_l: _l x | x\n?x: _S e | _L x _R | A\ne: | B\n',
    'start: _l\n_l: _l x | x\n?x: A | _L y _R | _L y _R _T\ny: [B] C | e _S\ne:\n',
    'start: _l _T?\n_l: _l _S x | x\n?x: y | _L x _R\ny: A | B y\n',
]


# explicitly EMPTY alternatives reduced in the same chain as (and right after) a non-empty reduction: the reduce loop of
# feed_token pops nothing for them (`if size:`), so any re-implementation of the loop (accepts(), trial cursors) has to
# treat size 0 separately
EMPTY_FAMILY = [
    'start: a b C\na: A\nb: | B\n',
    'start: item ox oy\nitem: A | item A\nox: | B\noy: | C\n',
    'start: item rest\nitem: A\nrest: | _S item rest\n',
    'start: _l opt D\n_l: _l A | A\nopt: | _S\n',
    'start: x o D\n?x: A | _L x _R\no: | B\n',
    'start: a e e2 C\na: A B\ne:\ne2: | D\n',
    'start: stmt\nstmt: A osemi | stmt A osemi\nosemi: | _S\n',
]


def gen_empty_family(rng):
    """one more member of the family: a head reduced by a non-empty rule, then 1-3 nullable non-terminals (optional
    token, nullable tail, always-empty), then possibly a closing terminal"""
    head = rng.choice(['a: A\n', 'a: A | a A\n', 'a: A B\n', '?a: A | _L a _R\n', '_a: _a A | A\n'])
    hname = '_a' if head.startswith('_a') else 'a'
    k = rng.randint(1, 3)
    toks = ['B', 'C', 'D', '_S', '_T']
    rng.shuffle(toks)
    lines, names = [], []
    for i in range(k):
        n = 'o%d' % i
        shape = rng.choice(['opt', 'opt', 'tail', 'empty', 'optr'])
        if shape == 'opt':
            lines.append('%s: | %s' % (n, toks[i]))
        elif shape == 'optr':
            lines.append('%s: %s |' % (n, toks[i]))
        elif shape == 'tail':
            lines.append('%s: | %s %s %s' % (n, toks[i], hname, n))
        else:
            lines.append('%s:' % n)
        names.append(n)
    close = rng.choice(['', '', ' ' + toks[k], ' ' + toks[k]])
    return 'start: %s %s%s\n' % (hname, ' '.join(names), close) + head + '\n'.join(lines) + '\n'


def new_parser(rng, force_basic=False):
    from lark.exceptions import GrammarError
    for _ in range(50):
        g = gen_grammar(rng)
        pp = rng.random() < 0.6
        mp = rng.random() < 0.8
        lexer = 'basic' if (force_basic or rng.random() < 0.5) else 'contextual'
        try:
            p = build(g, pp, mp, lexer)
        except GrammarError:
            continue
        return g, pp, mp, lexer, p, Export(p)
    raise RuntimeError('no LALR grammar in 50 attempts')


def drop_op(script, k):
    """script without operation k and without everything that depended on a parser it created"""
    imm = [False]
    dead = set()
    out = []
    for idx, st in enumerate(script):
        kind, i = st[0], st[1]
        creates = None
        if kind == 'feed':
            if imm[i]:
                creates = True
        elif kind in ('copy', 'copycopy', 'copydeep', 'shallow'):
            creates = imm[i]
        elif kind == 'imm':
            creates = True
        elif kind == 'mut':
            creates = False
        skip = (idx == k) or (i in dead)
        if creates is not None:
            if skip:
                dead.add(len(imm))
            imm.append(creates)
        if not skip:
            st2 = list(st)
            st2[1] = i - len([d for d in dead if d < i])
            out.append(st2)
    return out


def shrink(g, pp, mp, lexer, tr, kind):
    """greedy removal of operations while the run still fails (any failure of the property's oracle)"""
    script = [list(x) for x in tr.script]
    text = tr.text
    budget = 120
    k = len(script) - 1
    while k >= 0 and budget > 0:
        cand = drop_op(script, k)
        budget -= 1
        try:
            with watchdog(10):
                t2 = replay_script(g, pp, mp, lexer, cand, tr.mm, text, oracle=(kind != 'shallow'))
            bad = t2.fail is not None
        except RuntimeError:
            bad = False
        except Hang:
            bad = True
        except Exception:  # noqa
            bad = True
        if bad:
            script = cand
        k = min(k - 1, len(script) - 1)
    return script


def safely(tr, fn, *a):
    """an exception escaping from the implementation during a run is a failure of that run (a harness
    self-check raises RuntimeError, which is not swallowed)"""
    try:
        with watchdog():
            fn(*a)
    except RuntimeError:
        raise
    except Hang:
        if not tr.fail:
            last = tr.script[-1] if getattr(tr, 'script', None) else None
            tr.fail = ('hang', 'operation %r did not return within %d s' % (last, HANG_SECS))
    except Exception as e:  # noqa
        if not tr.fail:
            tr.fail = ('exception', '%s: %s' % (type(e).__name__, str(e)[:200]))


N_SHRUNK = [0]


def witness(g, pp, mp, lexer, tr, kind):
    script = tr.script
    if kind in ('tree', 'lexer') and N_SHRUNK[0] < 12 and not (tr.fail and tr.fail[0] == 'hang'):
        N_SHRUNK[0] += 1
        try:
            script = shrink(g, pp, mp, lexer, tr, kind)
        except Exception:  # noqa
            script = tr.script
    return {'kind': kind, 'grammar': g, 'propagate_positions': pp, 'maybe_placeholders': mp, 'lexer': lexer,
            'script': script, 'text': tr.text, 'meta_mode': tr.mm, 'ops_before_shrinking': len(tr.script)}


def correspond(ctx):
    rng = ctx.rng
    # regression streams: the witnesses of the two repaired defects (F25 Tree.__deepcopy__ shared Meta,
    # F26 a fork's resume_parse() read the original's lexer) must stay repaired
    for fn, name, what in ((witness_meta_A, 'regress-meta-A', 'propagate_positions: a fork changed position data in another fork\'s result'),
                           (witness_meta_B, 'regress-meta-B', 'propagate_positions: a returned result changed when a sibling fork ran'),
                           (witness_resume_lexer, 'regress-resume-lexer', 'fork.resume_parse() advanced the original parser\'s lexer')):
        w = run_witness(fn, name)
        ctx.count('regression', key=name, nontrivial=True)
        if w is not None:
            ctx.violation('regression:' + name, w, True, what)
    defect = False
    lexer_shared = False
    ngram = ctx.scale(70, 400) * (3 if ctx.widen else 1)
    groups = []      # (g, pp, mp, lexer, ex, [(kind, run)])
    mm = 2

    for gi in range(ngram):
        allow_bad = rng.random() < 0.4
        fam = False
        if gi < len(SPECIAL_GRAMMARS):
            g, pp, mp, lexer = SPECIAL_GRAMMARS[gi] + TERM_DEFS, True, True, 'basic'
            p = build(g, pp, mp, lexer)
            ex = Export(p)
        elif gi < len(SPECIAL_GRAMMARS) + len(EMPTY_FAMILY) + 6:
            k_ = gi - len(SPECIAL_GRAMMARS)
            fam = True
            g = (EMPTY_FAMILY[k_] if k_ < len(EMPTY_FAMILY) else gen_empty_family(rng)) + TERM_DEFS
            pp, mp, lexer = rng.random() < 0.6, rng.random() < 0.8, rng.choice(['basic', 'contextual'])
            if allow_bad:
                lexer = 'basic'
            from lark.exceptions import GrammarError
            try:
                p = build(g, pp, mp, lexer)
            except GrammarError:
                ctx.count('empty-family-not-lalr', nontrivial=False)
                continue
            ex = Export(p)
        else:
            g, pp, mp, lexer, p, ex = new_parser(rng, force_basic=allow_bad)
        runs = []
        for _ in range(3):
            tr = TreeRun(rng, p, ex, lexer, allow_bad, mm)
            safely(tr, tr.run_tree, rng.randint(8, 26))
            safely(tr, tr.final_oracle)
            ctx.count('fork-trees', key=(g, pp, mp, tuple(map(tuple, tr.script))), nontrivial=tr.nontrivial(),
                      parsers=len(tr.forks), ops=min(len(tr.ops) // 5 * 5, 40), propagate_positions=pp, lexer=lexer,
                      inplace='inplace' in tr.bits, expand1='expand1' in tr.bits, errors='error' in tr.bits)
            if tr.fail:
                ctx.violation('fork-trees:' + tr.fail[0], witness(g, pp, mp, lexer, tr, 'tree'), True, tr.fail[1])
            else:
                runs.append(('tree', tr))
        # accepts() at every point of one token sequence (also through an immutable parser)
        for k_ in range(2):
            types = gen_sentence(rng, ex, 0.15 if allow_bad else 0.0)
            tr = TreeRun(rng, p, ex, lexer, allow_bad, mm)
            safely(tr, tr.run_accepts_sweep, types, (rng.randrange(len(types)) if types and k_ == 1 else None))
            safely(tr, tr.final_oracle)
            ctx.count('accepts-sweep', key=(g, pp, mp, tuple(map(tuple, tr.script))),
                      nontrivial=(len(types) >= 2 and 'result' in tr.bits), trial_rejects='trial-rejects' in tr.bits,
                      empty_family=fam)
            if tr.fail:
                ctx.violation('accepts-sweep:' + tr.fail[0], witness(g, pp, mp, lexer, tr, 'tree'), True, tr.fail[1])
            else:
                runs.append(('tree', tr))
        # forks that only exist under shallow copies: no property here, the model alone is compared (this is
        # where the in-place list re-use of ChildFilterLALR becomes visible)
        tr = TreeRun(rng, p, ex, lexer, False, mm)
        safely(tr, tr.run_shallow, rng.randint(6, 16))
        ctx.count('shallow-model', key=(g, pp, mp, tuple(map(tuple, tr.script))),
                  nontrivial=('inplace' in tr.bits and 'fork' in tr.bits), shallow_inplace='inplace' in tr.bits)
        if tr.fail:
            ctx.violation('shallow-model:' + tr.fail[0], witness(g, pp, mp, lexer, tr, 'shallow'), False, tr.fail[1])
        else:
            runs.append(('shallow', tr))
        # lexer-driven forks finished by resume_parse()
        types = gen_sentence(rng, ex, 0.12 if lexer == 'basic' else 0.0)
        text, _ = sentence_text(rng, types)
        if types:
            tr = TreeRun(rng, p, ex, lexer, False, mm, text=text)
            safely(tr, tr.run_lexer_forks, rng.randint(6, 18))
            safely(tr, tr.final_oracle)
            ctx.count('lexer-forks', key=(g, pp, mp, text, tuple(map(tuple, tr.script))),
                      nontrivial=({'fork', 'resume'} <= tr.bits), resume='resume' in tr.bits)
            if tr.fail:
                ctx.violation('lexer-forks:' + tr.fail[0], witness(g, pp, mp, lexer, tr, 'lexer'), True, tr.fail[1])
            else:
                runs.append(('lexer', tr))
        # Lark.parse(on_error=skip)
        if lexer == 'basic':
            for _ in range(2):
                types = gen_sentence(rng, ex, 0.2)
                text, _ = sentence_text(rng, types)
                if not types:
                    continue
                try:
                    with watchdog():
                        oe = OnErrorRun(p, ex, text, mm)
                except (Exception, Hang) as e:  # noqa
                    ctx.count('on-error', key=(g, pp, mp, text), nontrivial=False)
                    ctx.violation('on-error:exception', {'kind': 'on_error', 'grammar': g, 'propagate_positions': pp,
                                                        'maybe_placeholders': mp, 'lexer': lexer, 'text': text,
                                                        'meta_mode': mm}, True, '%s: %s' % (type(e).__name__, str(e)[:200]))
                    continue
                ctx.count('on-error', key=(g, pp, mp, text), nontrivial=(oe.n_err > 0 and oe.ok), skipped=min(oe.n_err, 4))
                if oe.fail:
                    ctx.violation('on-error:' + oe.fail[0], {'kind': 'on_error', 'grammar': g, 'propagate_positions': pp,
                                                            'maybe_placeholders': mp, 'lexer': lexer, 'text': text,
                                                            'meta_mode': mm}, True, oe.fail[1])
                else:
                    runs.append(('on_error', oe))
        if runs:
            groups.append((g, pp, mp, lexer, ex, runs))
    if groups:
        g, pp, mp, lexer, ex, runs = groups[0]
        ctx.sample({'grammar': g.split('\nA:')[0], 'propagate_positions': pp, 'lexer': lexer,
                    'script': getattr(runs[0][1], 'script', None)})
    check_group = '(fun l => forallb check_case l)'
    bad, errs = ctx.coq_bad_indices('c13', IMPORTS, check_group, [coq_group(gr[4], [r for _, r in gr[5]]) for gr in groups], chunk=6)
    ctx.coq_cases_checked += sum(len(gr[5]) for gr in groups) - len(groups)
    for e in errs:
        ctx.violation('correspondence:coq-eval', {'error': e}, False, e[:300])
    for gi in bad[:5]:
        g, pp, mp, lexer, ex, runs = groups[gi]
        sub, errs2 = ctx.coq_bad_indices('c13_g%d' % gi, IMPORTS, 'check_case', [r.coq_case() for _, r in runs], chunk=50)
        kinds = sorted({runs[i][0] for i in sub}) or ['?']
        first = runs[sub[0]][1] if sub else runs[0][1]
        # search: more fork trees on the same grammar under the property's own oracle
        found = None
        p = build(g, pp, mp, lexer)
        ex2 = Export(p)
        for _ in range(80):
            tr = TreeRun(rng, p, ex2, lexer, lexer == 'basic', mm)
            safely(tr, tr.run_tree, rng.randint(8, 30))
            safely(tr, tr.final_oracle)
            if tr.fail:
                found = tr
                break
        if found:
            ctx.violation('correspondence+oracle:' + found.fail[0], witness(g, pp, mp, lexer, found, 'tree'), True, found.fail[1])
        else:
            ctx.violation('correspondence:Inter/IDriver.wrun vs lark InteractiveParser (%s)' % ','.join(kinds),
                          {'no_longer_checks': 'model/implementation agreement on case', 'grammar': g,
                           'propagate_positions': pp, 'maybe_placeholders': mp, 'lexer': lexer,
                           'script': getattr(first, 'script', None), 'text': getattr(first, 'text', None),
                           'coq_case': first.coq_case()[:6000]}, False,
                          'model and implementation disagree on observations or final stacks; the property oracle holds on this grammar')


def replay(ctx, case):
    w = case['witness']
    if w.get('which') == 'A':
        return run_witness(witness_meta_A, 'regress-meta-A') is not None
    if w.get('which') == 'B':
        return run_witness(witness_meta_B, 'regress-meta-B') is not None
    if w.get('which') == 'R':
        return run_witness(witness_resume_lexer, 'regress-resume-lexer') is not None
    if w.get('kind') == 'on_error':
        p = build(w['grammar'], w['propagate_positions'], w['maybe_placeholders'], w['lexer'])
        try:
            with watchdog():
                return OnErrorRun(p, Export(p), w['text'], w.get('meta_mode', 0)).fail is not None
        except RuntimeError:
            raise
        except (Exception, Hang):  # noqa
            return True
    if w.get('kind') in ('tree', 'lexer'):
        try:
            with watchdog():
                tr = replay_script(w['grammar'], w['propagate_positions'], w['maybe_placeholders'], w['lexer'],
                                   w['script'], w.get('meta_mode', 0), w.get('text'))
        except RuntimeError:
            raise
        except (Exception, Hang):  # noqa
            return True
        return tr.fail is not None
    return False
