"""C10 - A Lark instance is a pure function of its input: reusable and thread-safe."""
import ast
import functools
import inspect
import json
import os
import re
import subprocess
import sys
import threading
import time

from lib import coq_list as L

# Coq's string and number notations cost about a millisecond per character / literal when a generated cases file is
# elaborated; explicit constructors over predefined constants are ~40x cheaper.  FAST_DEFS goes into extra_defs.
FAST_DEFS = '\n'.join(
    ['Definition c%d : ascii := Ascii %s.' % (i, ' '.join('true' if (i >> b) & 1 else 'false' for b in range(8)))
     for i in range(256)] +
    ['Definition n0 : nat := O.'] + ['Definition n%d : nat := S n%d.' % (i, i - 1) for i in range(1, 400)])


def S(s):
    acc = 'EmptyString'
    for ch in reversed(s):
        o = ord(ch)
        if o > 255:
            raise ValueError('non-latin1 character in model string')
        acc = '(String c%d %s)' % (o, acc) if acc != 'EmptyString' else '(String c%d EmptyString)' % o
    return acc


def N(n):
    return 'n%d' % n if 0 <= n < 400 else '%d%%nat' % n


def Z(n):
    return '(Z.of_nat %s)' % N(n) if n >= 0 else '(Z.opp (Z.of_nat %s))' % N(-n)


THEOREMS = ['C10_coherent_inv', 'C10_history', 'C10_history_pure', 'C10_per_call_state_fresh',
            'C10_indenter_yields_agree', 'C10_lazy_init_safe', 'C10_callbacks_complete',
            'C10_lazy_init_race_old_order_refuted', 'C10_no_reset_refuted', 'C10_example', 'C10_example_threads',
            'C10_other_instances', 'C10_construction_pure', 'C10_configuration_immutable', 'C10_example_process',
            'C10_parse_paths_write_only_per_call_objects', 'C10_writable_cells_exact', 'C10_history_pure_heap',
            'C10_lazy_cells_value_safe', 'C10_lazy_identity_race_refuted', 'C10_example_heap']
GEN_DEPS = ['InstOrder', 'IndenterHoles', 'InstWrites']
RULE = ('histories: random sequences (0-6 operations) over the public API {parse ok / failing in lexer, parser or Indenter, '
        'parse(start=...), parse(on_error=...), lex and lex(dont_ignore=True) and scan consumed partially or abandoned, '
        'parse_interactive abandoned, get_terminal, save to a BytesIO, another Lark instance created and used} on one instance '
        'of 10 configurations (lalr/earley/cyk x basic/contextual/dynamic, one or two start symbols, with and without an '
        'Indenter post-lexer and lexer_callbacks), followed by a probe and a plain complete lex(); every operation compared '
        'with the same operation on a fresh instance; plus every kind of operation of every configuration between two '
        'object-graph snapshots; non-trivial = distinct (configuration, history, probe) with a non-empty history. schedules: '
        'all interleavings (quick: all with <= 2 pre-emptions plus a seeded sample) of 2 threads lexing with one fresh shared '
        'BasicLexer, switched only at the lines that access self._scanner / self.callback; non-trivial = distinct schedule in '
        'which both threads produce tokens. stress: unscheduled threads on all engines. other-instance-options: 11 instances A '
        '(Earley on tie-heavy ambiguous inputs with resolve/explicit ambiguity and every lexer, LALR, CYK, Indenter); between '
        'two parses of A another instance is constructed and used with every single-option deviation of a 25-entry matrix '
        '(ordered_sets, ambiguity, priority, lexer, parser, keep_all_tokens, maybe_placeholders, propagate_positions, '
        'tree_class, transformer, callbacks, flags, start, ...) on the same and on another grammar, plus random combinations; '
        'A is then parsed 5 more times; first results also compared with a fresh process under the same PYTHONHASHSEED. '
        'shaping-histories: the whole family {inlined _rule body: all-optional / mixed / star / plain / optional group} x {first, '
        'middle, last, only child of its parent} x {one statement, repeated statements} x {lalr contextual/basic, earley '
        'dynamic/basic} x maybe_placeholders (keep_all_tokens, propagate_positions, explicit ambiguity rotated): every text '
        'parsed twice in a row, a seeded mix of parse / interactive session / abandoned session / scan, every text again; each '
        'result compared with a fresh instance and every earlier result re-read after every later call. lazy-cell-schedules: every '
        'lazily initialised attribute found by the translator, all interleavings of two threads (bounded for 2+1 calls and three '
        'threads). shared-store-schedules: the lines of every function storing into an object the instance may hold are switch '
        'points; six engine configurations x three pairs of same-shape texts, <= 2 pre-emptions')
TRUSTED_BASE = [
    'thread switches happen only between source lines (the tracer-based scheduler of this harness has exactly that power); '
    'in the publish-last code every scheduling line performs one GIL-atomic load/store of a shared attribute plus look-ups '
    'in a dict nobody mutates once published',
    'translator/gen_instance.py: template match of BasicLexer._build_scanner / scanner / search_scanner / match, access list of '
    'next_token, and the write-set analysis (stores on self, mutable defaults) of the functions on the call path of '
    'parse/lex/scan/parse_interactive/save/get_terminal - a syntactic flow-sensitive may-alias analysis (stores through local '
    'names bound to objects reachable from self are attributed to self); state changed inside callees that are not listed '
    '(e.g. a transformer object kept on self) is covered only by the object-graph snapshots and the configuration '
    'fingerprint of the harness; process-wide state: every statement inside a function of lark/*.py that stores into a class, '
    'module or function object or a module-level variable is listed and compared with a reviewed list of three',
    'Inst/MiniLex.v models literals and backtrack-free character-class regexps only; LALR/Earley/CYK are consumers in the model '
    'whose demand may read every cell of the instance that no parse path writes (C10_history_pure_heap)',
    'translator/gen_instwrites.py: name-based over-approximation of the call graph from the parse entry points (method calls are '
    'resolved by name over all lark classes, attribute loads of property names are calls, indirect calls reach every __call__, '
    'nested function and loaded bound method, all dunder methods are roots) and a flow-sensitive may-alias analysis of each body '
    '(roots self / parameter / call result); fail-closed on unknown statement or expression forms; aliasing across calls is not '
    'tracked: what the reviewed tables of Inst/Writes.v assert (the target of a store through a parameter or a call result is an '
    'object of the current call) and the list Writes.held_classes are checked on the implementation by the object-graph '
    'snapshots (now including partial objects, closures and bound methods, i.e. the ParseTreeBuilder callback objects) and by '
    'the held-classes stream; dynamic stores (setattr with a computed name, C extensions) are outside the analysis',
]
ASSUMPTIONS = ['no user-supplied stateful callbacks or post-lexer other than lark.indenter.Indenter; two live generators of one '
               'Indenter object are never interleaved',
               'exceptions other than those raised by lark itself (KeyboardInterrupt, MemoryError) do not occur inside _build_scanner']
ALLOWED_AXIOMS = []

IMPORTS = ('From LV Require Import Base.Prelude Sys.IndenterBase Inst.Instance Inst.MiniLex Inst.ThreadsBase Inst.Threads '
           'Inst.InstCheck.')

# =====================================================================================================
# configurations
# =====================================================================================================
G_IND = r'''
start: _NL* tree+
tree: item+ _NL+ [_INDENT tree+ _DEDENT]
item: NAME | "if" | "(" item* ")"
NAME: /[a-z]+/
WS: / +/
_NL: /\n[ ]*/
%declare _INDENT _DEDENT
%ignore WS
'''

G_FLAT = r'''
start: item+
item: NAME | NUM | "if" | "(" item* ")"
NAME: /[a-z]+/
NUM: /[0-9]+/
WS: /[ \n]+/
%ignore WS
'''

G_OTHER = r'''
start: pair ("," pair)*
pair: KEY "=" VAL
KEY: /[a-z]+/
VAL: /[0-9]+/
%ignore " "
'''


def cb_upper(t):
    return t.update(value=t.value.upper())


def cb_tag(t):
    return t.update(value=t.value + '!')


CB = {'upper': cb_upper, 'tag': cb_tag}

# id -> (grammar, Lark kwargs, Indenter?, {terminal: callback name}, modelled in Coq?, kinds of operations)
LEXOPS = ['lex', 'lexall', 'getterm', 'other']
LALROPS = ['parse', 'pstart', 'onerr', 'inter', 'save'] + LEXOPS
CONFIGS = {
    'ind_basic': (G_IND, dict(parser='lalr', lexer='basic'), True, {'NAME': 'upper'}, True, LALROPS + ['scan']),
    'ind_ctx': (G_IND, dict(parser='lalr', lexer='contextual'), True, {'NAME': 'upper'}, False, LALROPS),
    'flat_basic': (G_FLAT, dict(parser='lalr', lexer='basic'), False, {'NAME': 'upper', 'NUM': 'tag', 'WS': 'tag'}, True,
                   LALROPS + ['scan']),
    'flat_basic_nocb': (G_FLAT, dict(parser='lalr', lexer='basic'), False, {}, True, LALROPS + ['scan']),
    'flat_multi': (G_FLAT, dict(parser='lalr', lexer='basic', start=['start', 'item']), False, {'NAME': 'upper'}, True,
                   LALROPS + ['scan']),
    'flat_ctx': (G_FLAT, dict(parser='lalr', lexer='contextual'), False, {'NAME': 'upper', 'NUM': 'tag'}, False,
                 LALROPS + ['scan']),
    'flat_lexonly': (G_FLAT, dict(parser=None, lexer='basic'), False, {'NAME': 'tag'}, True, LEXOPS),
    'flat_earley_basic': (G_FLAT, dict(parser='earley', lexer='basic'), False, {'NAME': 'upper'}, True,
                          ['parse', 'pstart', 'onerr', 'scan', 'save'] + LEXOPS),
    'flat_earley_dyn': (G_FLAT, dict(parser='earley', lexer='dynamic'), False, {}, False,
                        ['parse', 'pstart', 'lex', 'lexall', 'getterm', 'other']),
    'flat_cyk': (G_FLAT, dict(parser='cyk', lexer='basic'), False, {'NUM': 'tag'}, False, ['parse', 'pstart'] + LEXOPS),
}


class CountIt:
    """iterator wrapper counting the tokens pulled out of the post-lexer (does not change what process() does)"""

    def __init__(self, it, owner):
        self.it = it
        self.owner = owner

    def __iter__(self):
        return self

    def __next__(self):
        t = next(self.it)
        self.owner.pulled += 1
        return t


def make_indenter():
    from lark.indenter import Indenter

    class Ind(Indenter):
        NL_type = '_NL'
        OPEN_PAREN_types = ['LPAR']
        CLOSE_PAREN_types = ['RPAR']
        INDENT_type = '_INDENT'
        DEDENT_type = '_DEDENT'
        tab_len = 8
        pulled = 0

        def process(self, stream):
            self.pulled = 0
            return CountIt(super().process(stream), self)

    return Ind()


def make_instance(cid):
    import lark
    g, kw, ind, cbs, _, _ = CONFIGS[cid]
    kw = dict(kw)
    if ind:
        kw['postlex'] = make_indenter()
    if cbs:
        kw['lexer_callbacks'] = {k: CB[v] for k, v in cbs.items()}
    return lark.Lark(g, **kw)


def basic_lexers(inst):
    """all BasicLexer objects of the instance: [(label, lexer)]"""
    from lark.lexer import BasicLexer, ContextualLexer
    from lark.parser_frontends import PostLexConnector
    lx = getattr(inst, 'lexer', None)
    if lx is None and hasattr(inst, 'parser'):
        lx = getattr(inst.parser, 'lexer', None)
    if isinstance(lx, PostLexConnector):
        lx = lx.lexer
    out = []
    if isinstance(lx, BasicLexer):
        out.append(('basic', lx))
    elif isinstance(lx, ContextualLexer):
        seen = set()
        for st in sorted(lx.lexers):
            b = lx.lexers[st]
            if id(b) not in seen:
                seen.add(id(b))
                out.append(('ctx:' + ','.join(sorted(t.name for t in b.terminals)), b))
        out.append(('root', lx.root_lexer))
    return out


def cells_of(lexer):
    d = lexer.__dict__
    cb = d.get('callback')
    return (d.get('_scanner') is not None, d.get('_search_scanner') is not None, None if cb is None else list(cb))


def scanner_sig(sc):
    return None if sc is None else ([t.name for t in sc.terminals], sorted(sc.allowed_types), [m.pattern for m in sc._mres])


def cb_sig(cb):
    if cb is None:
        return None
    from lark.lexer import UnlessCallback, CallChain
    out = []
    for k, v in cb.items():
        if isinstance(v, UnlessCallback):
            out.append((k, 'unless', scanner_sig(v.scanner)))
        elif isinstance(v, CallChain):
            out.append((k, 'chain', scanner_sig(v.callback1.scanner) if isinstance(v.callback1, UnlessCallback) else '?',
                        getattr(v.callback2, '__name__', '?')))
        else:
            out.append((k, 'user', getattr(v, '__name__', '?')))
    return out


_REF = {}


def reference_cells(cid):
    """what the builders return for this configuration: a fresh instance with every cell forced"""
    if cid not in _REF:
        inst = make_instance(cid)
        ref = {}
        for label, lx in basic_lexers(inst):
            ref[label] = (scanner_sig(lx.scanner), cb_sig(lx.callback), scanner_sig(lx.search_scanner))
        _REF[cid] = ref
    return _REF[cid]


def config_fingerprint(inst):
    """the part of the instance the model treats as immutable configuration"""
    def terms(ts):
        return [(t.name, type(t.pattern).__name__, t.pattern.value, sorted(t.pattern.flags), t.priority) for t in ts]
    out = {}
    lc = getattr(inst, 'lexer_conf', None)
    if lc is not None:
        g = lambda a: getattr(lc, a, None)      # (a loaded instance's LexerConf has only the serialised fields)
        out['lexer_conf'] = (terms(lc.terminals), list(lc.ignore), sorted(g('callbacks') or ()), g('g_regex_flags'),
                             g('use_bytes'), g('skip_validation'), g('strict'), str(g('lexer_type')),
                             type(g('postlex')).__name__, sorted(g('terminals_by_name') or ()))
    out['terminals'] = terms(getattr(inst, 'terminals', ()))
    out['ignore_tokens'] = list(getattr(inst, 'ignore_tokens', ()))
    out['rules'] = [repr(r) for r in getattr(inst, 'rules', ())]
    out['options'] = sorted((k, repr(v) if not callable(v) and not isinstance(v, dict) else str(type(v)))
                            for k, v in inst.options.options.items() if k != 'postlex')
    # (the states of a contextual lexer are numbered differently in different instances: a sorted set)
    out['lexers'] = sorted({repr((label, terms(lx.terminals), sorted(lx.ignore_types), sorted(lx.newline_types),
                                  sorted(lx.user_callbacks), lx.g_regex_flags, lx.use_bytes)) for label, lx in basic_lexers(inst)})
    pc = getattr(getattr(inst, 'parser', None), 'parser_conf', None)
    if pc is not None:
        out['parser_conf'] = (list(pc.start), len(pc.rules), sorted(map(str, pc.callbacks)) if pc.callbacks else None)
    return out


_CONF = {}


def coherence_violation(cid, inst):
    if cid not in _CONF:
        _CONF[cid] = config_fingerprint(make_instance(cid))
    fp = config_fingerprint(inst)
    for k, v in _CONF[cid].items():
        if fp.get(k) != v:
            return 'configuration changed: %s is %s, on a fresh instance %s' % (k, str(fp.get(k))[:150], str(v)[:150])
    return _cells_violation(cid, inst)


def _cells_violation(cid, inst):
    from lark.utils import get_regexp_width
    for t in inst.terminals:
        w = t.pattern.__dict__.get('_width')
        if w is not None and tuple(w) != tuple(get_regexp_width(t.pattern.to_regexp())):
            return 'PatternRE._width of %s is %r, get_regexp_width gives %r' % (t.name, w, get_regexp_width(t.pattern.to_regexp()))
    """coherent_inv evaluated on the implementation: every lazy cell is unset or equals what its builder returns, and a
    published scanner comes with a published callback table"""
    ref = reference_cells(cid)
    for label, lx in basic_lexers(inst):
        d = lx.__dict__
        rs, rc, rss = ref[label]
        if d.get('_scanner') is not None:
            if scanner_sig(d['_scanner']) != rs:
                return '%s._scanner differs from what _build_scanner returns on a fresh lexer' % label
            if 'callback' not in d:
                return '%s._scanner is published but self.callback is not' % label
        if 'callback' in d and cb_sig(d['callback']) != rc:
            return '%s.callback = %r differs from the complete table %r' % (label, cb_sig(d['callback']), rc)
        if d.get('_search_scanner') is not None and scanner_sig(d['_search_scanner']) != rss:
            return '%s._search_scanner differs from what search_scanner builds on a fresh lexer' % label
    return None


# =====================================================================================================
# operations and their canonical results
# =====================================================================================================
def ctok(t):
    return [str(t.type), str(t), getattr(t, 'start_pos', None), getattr(t, 'line', None), getattr(t, 'column', None),
            getattr(t, 'end_pos', None), getattr(t, 'end_line', None), getattr(t, 'end_column', None)]


def ctree(x):
    from lark import Tree, Token
    if isinstance(x, Tree):
        return ['T', str(x.data), [ctree(c) for c in x.children]]
    if isinstance(x, Token):
        return ['t'] + ctok(x)
    return repr(x)


def cerr(e):
    out = [type(e).__name__]
    for a in ('pos_in_stream', 'line', 'column'):
        out.append(getattr(e, a, None))
    tok = getattr(e, 'token', None)
    out.append(ctok(tok) if tok is not None and hasattr(tok, 'type') else None)
    for a in ('expected', 'allowed', 'accepts'):
        v = getattr(e, a, None)
        out.append(sorted(map(str, v)) if isinstance(v, (set, frozenset, list, tuple)) else None)
    if not hasattr(e, 'line'):
        out.append(str(e)[:200])
    return out


def on_error_skip(e):
    return True


def on_error_stop(e):
    return False


ON_ERROR = {'skip': on_error_skip, 'stop': on_error_stop}
SAVE_PROBES_FLAT = ['ab  if 12 ( x )', 'a\n ?']
SAVE_PROBES_IND = ['a\n  b c\nd\n', 'a ( b\n c )\n']


def canon_data(x):
    """pickle-able data of Lark.save() in a canonical JSON-able form"""
    if isinstance(x, dict):
        return ['dict', sorted(([repr(k), canon_data(v)] for k, v in x.items()), key=lambda kv: kv[0])]
    if isinstance(x, (list, tuple)):
        return [type(x).__name__, [canon_data(v) for v in x]]
    if isinstance(x, (set, frozenset)):
        return ['set', sorted(repr(v) for v in x)]
    if callable(x):
        return ['callable', getattr(x, '__name__', '?')]
    return repr(x)


def run_op(inst, op):
    """op = [kind, text, k]; returns (canonical result, info) where info tells the model how the stream ended"""
    kind, text, k = op
    info = {'end': None}
    try:
        if kind == 'parse':
            try:
                return ['tree', ctree(inst.parse(text))], {'end': 'done'}
            except Exception as e:  # noqa
                tok = getattr(e, 'token', None)
                name = type(e).__name__
                if name == 'UnexpectedToken':
                    info['end'] = 'done' if getattr(tok, 'type', None) == '$END' else 'stopped'
                else:
                    info['end'] = name
                return ['err', cerr(e)], info
        if kind in ('pstart', 'onerr'):
            kw = {'start': k} if kind == 'pstart' else {'on_error': ON_ERROR[k]}
            try:
                return ['tree', ctree(inst.parse(text, **kw))], {'end': 'done'}
            except Exception as e:  # noqa
                tok = getattr(e, 'token', None)
                name = type(e).__name__
                if name == 'UnexpectedToken':
                    info['end'] = 'done' if getattr(tok, 'type', None) == '$END' else 'stopped'
                else:
                    info['end'] = name
                return ['err', cerr(e)], info
        if kind == 'lex':
            toks = []
            it = inst.lex(text)
            return _pull(it, k, toks, info, 'tokens')
        if kind == 'lexall':
            toks = []
            it = inst.lex(text, dont_ignore=True)
            return _pull(it, k, toks, info, 'tokens')
        if kind == 'getterm':
            t = inst.get_terminal(text)
            return ['terminal', str(t.name), type(t.pattern).__name__, str(t.pattern.value), sorted(t.pattern.flags),
                    t.priority], {'end': 'done'}
        if kind == 'save':
            import io
            import pickle
            f = io.BytesIO()
            inst.save(f, exclude_options=('postlex',) if inst.options.postlex is not None else ())
            # the numbering of the LALR states differs from instance to instance, so the saved bytes are compared through
            # what they load to: the configuration of the loaded instance and how it answers
            import lark
            f.seek(0)
            data = pickle.loads(f.getvalue())['data']
            loaded = lark.Lark.load(f)
            fp = config_fingerprint(loaded)
            probes = SAVE_PROBES_IND if inst.options.postlex is not None else SAVE_PROBES_FLAT
            return ['saved', canon_data(data['options']), canon_data(data['parser']['lexer_conf']), canon_data(data['rules']),
                    json.loads(json.dumps(fp, default=repr)),
                    [run_op(loaded, ['lex', t, None])[0] for t in probes] +
                    [run_op(loaded, ['parse', t, None])[0] for t in probes]], {'end': 'done'}
        if kind == 'inter':
            ip = inst.parse_interactive(text)
            if k == 0:
                return ['inter', [], 'abandoned', sorted(ip.accepts())], {'end': 'stopped'}
            toks = []
            res, info = _pull(ip.iter_parse(), k, toks, info, 'inter')
            return res + [sorted(ip.accepts())], info
        if kind == 'scan':
            ms = []
            it = inst.scan(text)
            n = 0
            while k is None or n < k:
                try:
                    m = next(it)
                except StopIteration:
                    return ['scan', ms, 'done'], {'end': 'done'}
                ms.append([list(m.range), ctree(m.value)])
                n += 1
            return ['scan', ms, 'abandoned'], {'end': 'stopped'}
        if kind == 'other':
            import lark
            o = lark.Lark(G_OTHER, parser='lalr')
            o.parse(text)
            list(lark.Lark(G_FLAT, parser='earley').lex('ab 1'))
            return ['other'], {'end': 'done'}
    except Exception as e:  # noqa
        return ['exc', cerr(e)], {'end': type(e).__name__}
    raise ValueError(kind)


def _pull(it, k, toks, info, tag):
    n = 0
    while k is None or n < k:
        try:
            t = next(it)
        except StopIteration:
            return [tag, toks, 'done'], {'end': 'done'}
        except Exception as e:  # noqa
            name = type(e).__name__
            return [tag, toks, cerr(e)], {'end': 'stopped' if name == 'UnexpectedToken' else name}
        toks.append(ctok(t))
        n += 1
    return [tag, toks, 'abandoned'], {'end': 'stopped'}


# ---- texts --------------------------------------------------------------------------------------------
def gen_text_ind(rng):
    lines = []
    levels = [0]
    for _ in range(rng.randint(1, 5)):
        c = rng.random()
        if c < 0.3:
            levels.append(levels[-1] + rng.choice([1, 2, 4]))
        elif c < 0.55 and len(levels) > 1:
            del levels[rng.randrange(1, len(levels)):]
        elif c < 0.7 and levels[-1] > 0:
            col = levels[-1] - 1                                   # dedent to a column that is (usually) not open
            while levels and levels[-1] > col:
                levels.pop()
            levels.append(col)
        body = ' '.join(rng.choice(['a', 'bc', 'if', 'x', '( a )', 'a', '( if', ')', 'q (', 'a ?'][:6 + rng.choice([0, 0, 1, 2, 4])])
                        for _ in range(rng.randint(1, 3)))
        lines.append(' ' * levels[-1] + body)
        if rng.random() < 0.1:
            lines.append('')
    return '\n'.join(lines) + ('\n' if rng.random() < 0.85 else '')


def gen_text_flat(rng):
    words = ['a', 'if', 'xyz', '12', '7', '(', ')', '( a 1 )', 'iff']
    if rng.random() < 0.2:
        words = words + ['?', 'A']
    return rng.choice(['', ' ', '\n'][:1 + (rng.random() < 0.1) * 2]) + rng.choice([' ', '  ', '\n']).join(
        rng.choice(words) for _ in range(rng.randint(0, 6)))


def gen_op(rng, cid):
    g, kw, ind, cbs, modelled, kinds = CONFIGS[cid]
    kind = rng.choice(kinds)
    if kind == 'other':
        return ['other', rng.choice(['a=1', 'a=1, b=22', 'a=']), None]
    if kind == 'getterm':
        return ['getterm', rng.choice(['NAME', 'WS', 'LPAR', 'IF', 'NOPE']), None]
    if kind == 'save':
        return ['save', '', None]
    text = gen_text_ind(rng) if ind else gen_text_flat(rng)
    if kind == 'parse':
        return ['parse', text, None]
    if kind == 'pstart':
        return ['pstart', text, rng.choice(['start', 'start', 'start', 'start', 'item', 'nope'])]
    if kind == 'onerr':
        return ['onerr', text, rng.choice(['skip', 'stop'])]
    if kind == 'scan':
        return ['scan', text, rng.choice([None, 0, 1, 2])]
    return [kind, text, rng.choice([None, None, 0, 1, 2, 3, 4, 6])]


# =====================================================================================================
# the model's view (Coq terms)
# =====================================================================================================
def coq_opt(x, f):
    return 'None' if x is None else '(Some %s)' % f(x)


def coq_bool(b):
    return 'true' if b else 'false'


class Unmodelled(Exception):
    pass


def parse_class(s, i):
    """character class or single (escaped) character at s[i:] -> (set of chars, next index)"""
    esc = {'n': '\n', 't': '\t', 'r': '\r'}
    if s[i] == '[':
        j = i + 1
        cs = []
        while s[j] != ']':
            if s[j] == '\\':
                c = esc.get(s[j + 1], s[j + 1])
                j += 2
            else:
                c = s[j]
                j += 1
            if s[j] == '-' and s[j + 1] != ']':
                hi = s[j + 1]
                cs.extend(chr(x) for x in range(ord(c), ord(hi) + 1))
                j += 2
            else:
                cs.append(c)
        return cs, j + 1
    if s[i] == '\\':
        return [esc.get(s[i + 1], s[i + 1])], i + 2
    if s[i] in '()|.?+*{}^$':
        raise Unmodelled(s)
    return [s[i]], i + 1


def coq_pattern(p):
    from lark.lexer import PatternStr, PatternRE
    if p.flags:
        raise Unmodelled('flags')
    if isinstance(p, PatternStr):
        return '(PStr %s)' % S(p.value)
    if not isinstance(p, PatternRE):
        raise Unmodelled(type(p).__name__)
    s = p.value
    i = 0
    items = []
    while i < len(s):
        cs, i = parse_class(s, i)
        q = 'QOne'
        if i < len(s) and s[i] in '+*':
            q = 'QPlus' if s[i] == '+' else 'QStar'
            i += 1
        items.append((cs, q))
    for (a, _), (b, _) in zip(items, items[1:]):
        if set(a) & set(b):
            raise Unmodelled('adjacent classes overlap: greedy matching could need backtracking')
    return '(PRe %s)' % L(['(%s, %s)' % (S(''.join(cs)), q) for cs, q in items])


def coq_lconf(cid, lexer):
    cbs = CONFIGS[cid][3]
    terms = L(['(mkTerm %s %s %s)' % (S(t.name), coq_pattern(t.pattern), Z(t.priority)) for t in lexer.terminals])
    ign = L([S(x) for x in sorted(lexer.ignore_types)])
    ucb = L(['(%s, %s)' % (S(k), {'upper': 'UUpper', 'tag': '(UTag %s)' % S('!')}[cbs[k]]) for k in lexer.user_callbacks])
    return '(mkLconf %s %s %s)' % (terms, ign, ucb)


COQ_ICFG = 'c10_icfg'
END_CODE = {'stopped': 0, 'done': 1, 'UnexpectedCharacters': 3, 'DedentError': 4, 'AssertionError': 5, 'IndexError': 6}


def coq_tok(t):
    return '(mkTok %s %s)' % (S(t[0]), S(t[1]))


def observe_state(cid, inst):
    """what the model's state trace is compared with: taken right after an operation"""
    lxs = basic_lexers(inst)
    p = inst.options.postlex
    return (cells_of(lxs[0][1]) if lxs else None,
            (p.paren_level, list(p.indent_level), p.pulled) if CONFIGS[cid][2] else None)


def model_step(cid, op, res, info, seen):
    """(Coq term of the operation descriptor and of what was observed after it)"""
    g, kw, ind, cbs, modelled, kinds = CONFIGS[cid]
    kind, text, k = op
    end = info['end']
    if end == 'UnexpectedEOF':
        end = 'done'            # Earley: raised after the whole stream was consumed
    NOSTATE = ('other', 'getterm', 'save')          # the model: no cell is read or written
    if end in ('ConfigurationError', 'NotImplementedError') and kind in ('parse', 'pstart', 'onerr', 'inter', 'scan'):
        kind = 'other'              # raised by _verify_start / Lark.parse / ParsingFrontend.scan before anything is lexed
    if kind == 'onerr':
        if ind and k == 'skip':
            raise Unmodelled('on_error resuming a parse with a post-lexer')
        kind = 'parse'
        if k == 'skip':
            end = 'done' if end in ('stopped', 'UnexpectedCharacters') else end      # the handler made the parser go on
    if kind == 'pstart':
        kind = 'parse'
    if kind not in NOSTATE and end not in END_CODE:
        raise Unmodelled('operation ended with %s' % end)
    if kind in NOSTATE:
        d = 'DOther'
    else:
        if kind == 'scan':
            kk = k
        elif ind:
            # with a post-lexer the state left behind depends on how many tokens the consumer pulled
            kk = seen[1][2] if end == 'stopped' else None
            if kind == 'inter' and k == 0:
                kk = 0
        else:
            kk = 0 if (k == 0) else None       # the cells do not depend on the demand once it is >= 1
            if kind in ('lex', 'lexall'):
                kk = k
        d = '(%s %s %s)' % ({'parse': 'DParse', 'lex': 'DLex', 'lexall': 'DLexAll', 'inter': 'DInter', 'scan': 'DScan'}[kind],
                            S(text), coq_opt(kk, N))
    sc, se, keys = seen[0]
    if ind:
        indx = '(IND %s %s)' % (Z(seen[1][0]), L([Z(x) for x in reversed(seen[1][1])]))
    else:
        indx = 'None'
    if kind in ('lex', 'lexall') and res[0] == 'tokens':
        tokx = '(TOKS %s %s)' % (L([coq_tok(t) for t in res[1]]), N(END_CODE[end]))
    else:
        tokx = 'None'
    return '(mkS %s (mkX %s %s %s %s %s))' % (d, coq_bool(sc), coq_bool(se), coq_opt(keys, lambda ks: L([S(x) for x in ks])),
                                             indx, tokx)


_LCONF = {}


def lconf_defs():
    """Definition lc_<config> : lconf for every modelled configuration (read off a fresh instance's BasicLexer)"""
    out = []
    for cid in sorted(CONFIGS):
        if CONFIGS[cid][4]:
            if cid not in _LCONF:
                _LCONF[cid] = coq_lconf(cid, basic_lexers(make_instance(cid))[0][1])
            out.append('Definition lc_%s : lconf := %s.' % (cid, _LCONF[cid]))
    out.append('Definition c10_icfg : option icfg := Some (mkCfg "_NL" ["LPAR"] ["RPAR"] "_INDENT" "_DEDENT" (8)%Z).')
    return FAST_DEFS + '\n' + '\n'.join(out)


def model_case(cid, inst, steps):
    g, kw, ind, cbs, modelled, kinds = CONFIGS[cid]
    lx = basic_lexers(inst)[0][1]
    if coq_lconf(cid, lx) != _LCONF.get(cid):
        raise Unmodelled('configuration of the BasicLexer differs between two instances of the same grammar')
    fuel = 8 + 2 * max([len(s[0][1]) for s in steps if s[0][0] != 'other'] + [0])
    return '(mkH %s lc_%s %s %s %s %s)' % (N(fuel), cid, COQ_ICFG if ind else 'None',
                                         coq_bool(kw.get('parser') is None), coq_bool(kw.get('parser') == 'lalr'),
                                         L([model_step(cid, *s) for s in steps]))


# =====================================================================================================
# frame condition: nothing but the modelled cells changes in the instance's object graph
# =====================================================================================================
ALLOWED_CHANGES = {('PatternRE', '_width'), ('BasicLexer', '_scanner'), ('BasicLexer', '_search_scanner'), ('BasicLexer', 'callback'),
                   ('Ind', 'paren_level'), ('Ind', 'indent_level'), ('Ind', 'pulled')}
ATOMS = (int, float, str, bytes, bool, type(None), complex, frozenset)


def shallow(o):
    if isinstance(o, ATOMS):
        return ('atom', repr(o))
    if isinstance(o, dict):
        return ('dict', [(repr(k) if isinstance(k, ATOMS) else id(k), id(v)) for k, v in o.items()])
    if isinstance(o, (list, tuple)):
        return (type(o).__name__, [id(x) for x in o])
    if isinstance(o, set):
        return ('set', sorted(id(x) for x in o))
    return None


def children(o):
    if isinstance(o, ATOMS):
        return []
    if isinstance(o, dict):
        return [(('key', i), k) for i, k in enumerate(o.keys()) if not isinstance(k, ATOMS)] + \
               [(('item', repr(k)[:40]), v) for k, v in o.items()]
    if isinstance(o, (list, tuple, set)):
        return [(('elt', i), x) for i, x in enumerate(o)]
    out = []
    d = getattr(o, '__dict__', None)
    if isinstance(d, dict) and not isinstance(o, type) and not inspect.ismodule(o) and not inspect.isroutine(o):
        out.extend((('attr', k), v) for k, v in d.items())
    for cls in type(o).__mro__:
        for s in getattr(cls, '__slots__', ()) if isinstance(getattr(cls, '__slots__', ()), (tuple, list)) else ():
            if hasattr(o, s):
                out.append((('attr', s), getattr(o, s)))
    if inspect.isfunction(o):
        out.append((('attr', '__defaults__'), o.__defaults__))
        out.append((('attr', '__kwdefaults__'), o.__kwdefaults__))
        for i, c in enumerate(o.__closure__ or ()):        # callbacks built as closures (inplace_transformer, visit wrappers)
            try:
                out.append((('cell', i), c.cell_contents))
            except ValueError:
                pass
    if isinstance(o, functools.partial):                   # partial(ChildFilterLALR, to_include, n), partial(Tree, name) ...
        out.extend([(('attr', 'func'), o.func), (('attr', 'args'), o.args), (('attr', 'keywords'), o.keywords)])
    if inspect.ismethod(o):                                # a bound method kept as a callback (EarleyRegexpMatcher.match)
        out.append((('attr', '__self__'), o.__self__))
    return out


def lark_class_state():
    """class-level data attributes and function defaults of every class defined in lark.* (process-wide state)"""
    roots = []
    for name, mod in list(sys.modules.items()):
        if not (name == 'lark' or name.startswith('lark.')) or mod is None:
            continue
        for k, v in list(vars(mod).items()):
            if isinstance(v, type) and getattr(v, '__module__', '').startswith('lark'):
                for a, x in list(vars(v).items()):
                    if a.startswith('__') and a.endswith('__') and a not in ('__init__', '__call__'):
                        continue
                    if isinstance(x, property):
                        x = x.fget
                    if isinstance(x, (staticmethod, classmethod)):
                        x = x.__func__
                    if inspect.isfunction(x):
                        if x.__defaults__ or x.__kwdefaults__:
                            roots.append((('class', v.__name__, a), x))
                    elif isinstance(x, (dict, list, set)):
                        roots.append((('class', v.__name__, a), x))
            elif inspect.isfunction(v) and getattr(v, '__module__', '').startswith('lark') and (v.__defaults__ or v.__kwdefaults__):
                roots.append((('func', name, k), v))
            elif isinstance(v, (dict, list, set)) and not k.startswith('__'):
                roots.append((('global', name, k), v))
    return roots


SNAPSHOT_CAP = 60000
FRAMES = {'on': True}


def snapshot(inst):
    """id -> (owner type name, path, shallow state); keeps the objects alive"""
    seen = {}
    keep = []
    stack = [(('root',), inst, None)] + [(p, o, None) for p, o in lark_class_state()]
    while stack and len(seen) < SNAPSHOT_CAP:
        path, o, owner = stack.pop()
        if id(o) in seen or isinstance(o, ATOMS) or isinstance(o, type) or inspect.ismodule(o):
            continue
        if type(o).__module__ in ('re', '_sre', 'builtins') and not isinstance(o, (dict, list, tuple, set)) and \
                not inspect.isfunction(o):
            continue
        keep.append(o)
        kids = children(o)
        state = shallow(o)
        if state is None:
            state = ('obj', [(k, id(v) if not isinstance(v, ATOMS) else repr(v)) for k, v in kids])
        seen[id(o)] = (type(o).__name__, path, state)
        for k, v in kids:
            stack.append((path + (k,), v, o))
    return seen, keep


def frame_violation(before, after):
    """objects that existed before the operation and whose shallow state changed outside the modelled cells"""
    b, _ = before
    a, _ = after
    for i, (tn, path, st) in b.items():
        if i not in a:
            continue
        st2 = a[i][2]
        if st == st2:
            continue
        if st[0] == 'obj' and st2[0] == 'obj':
            d1, d2 = dict(st[1]), dict(st2[1])
            diff = {k for k in set(d1) | set(d2) if d1.get(k) != d2.get(k)}
            if all((tn, k[1]) in ALLOWED_CHANGES for k in diff):
                continue
            return '%s at %s: attribute(s) %s changed' % (tn, _fmt(path), sorted(k[1] for k in diff if (tn, k[1]) not in ALLOWED_CHANGES))
        # containers: only those hanging off an allowed attribute may change (indent_level list, callback dict)
        if any(isinstance(p, tuple) and p[0] == 'attr' and p[1] in ('indent_level', 'callback', '_scanner', '_search_scanner') for p in path):
            continue
        return '%s at %s changed (%d -> %d entries)' % (tn, _fmt(path), len(st[1]), len(st2[1]))
    return None


def _fmt(path):
    return '/'.join(str(p[-1]) if isinstance(p, tuple) else str(p) for p in path)[:160]


# =====================================================================================================
# histories
# =====================================================================================================
_FRESH = {}


def fresh_result(cid, op):
    key = (cid, json.dumps(op))
    if key not in _FRESH:
        _FRESH[key] = run_op(make_instance(cid), op)[0]
    return _FRESH[key]


def run_history(cid, ops, with_frames=False):
    """runs ops on one new instance; returns (instance, [(op, result, info)], first problem or None)"""
    inst = make_instance(cid)
    steps = []
    problem = None
    for i, op in enumerate(ops):
        snap = snapshot(inst) if with_frames and FRAMES['on'] else None
        res, info = run_op(inst, op)
        steps.append((op, res, info, observe_state(cid, inst)))
        if problem is None:
            fr = fresh_result(cid, op)
            if res != fr:
                problem = ('oracle', i, 'result after the history differs from the result on a fresh instance', res, fr)
        if problem is None:
            m = coherence_violation(cid, inst)
            if m:
                problem = ('coherence', i, m, None, None)
        if problem is None and snap is not None:
            m = frame_violation(snap, snapshot(inst))
            if m:
                problem = ('frame', i, m, None, None)
                FRAMES['n'] = FRAMES.get('n', 0) + 1
                if FRAMES['n'] >= 4:
                    FRAMES['on'] = False        # established; further snapshots only cost time (a leak makes them grow)
    return inst, steps, problem


GOOD_TEXT = {True: 'a\n  b ( c\n d ) if\ne\n', False: 'ab 12 ( x if ( 7 ) ) y'}


def frame_coverage(ctx):
    """every kind of operation of every configuration once with a well-formed and once with a random text, each between two
    object-graph snapshots (the random histories are only sampled for snapshots)"""
    rng = ctx.rng
    for cid in sorted(CONFIGS):
        ind, kinds = CONFIGS[cid][2], CONFIGS[cid][5]
        ops = []
        for kind in kinds:
            for good in (True, False):
                op = gen_op(rng, cid)
                while op[0] != kind:
                    op = gen_op(rng, cid)
                if good and kind not in ('other', 'getterm', 'save'):
                    op[1] = GOOD_TEXT[ind]
                    if kind == 'pstart':
                        op[2] = 'start'
                    elif kind not in ('onerr',):
                        op[2] = None
                ops.append(op)
        rng.shuffle(ops)
        for lo in range(0, len(ops), 6):
            part = ops[lo:lo + 6]
            inst, steps, problem = run_history(cid, part, True)
            ctx.count('frame-coverage', key=(cid, json.dumps(part)), nontrivial=True, config=cid)
            if problem:
                report_history_problem(ctx, cid, part, problem)


def report_history_problem(ctx, cid, allops, problem):
    stage, i, msg, got, exp = problem
    w = {'kind': 'history', 'config': cid, 'operations': allops[:i + 1], 'result_after_history': got,
         'result_on_fresh_instance': exp, 'what': stage}
    if stage == 'oracle':
        ctx.violation('history-oracle', w, True, '%s: operation %d %r: %s' % (cid, i, allops[i][:2], msg))
        return
    # the invariant / frame condition is broken: look for a call whose result shows it
    found = search_failing_probe(ctx, cid, allops[:i + 1])
    if found:
        ctx.violation('history-%s+oracle' % stage, found, True, '%s; and a following call answers differently '
                      'from a fresh instance' % msg)
    else:
        ctx.nsoft = getattr(ctx, 'nsoft', 0) + 1
        if ctx.nsoft <= 3:
            ctx.violation('correspondence:%s' % stage, dict(w, no_longer_checks='instance state model: ' + msg), False,
                          '%s: after operation %d %r: %s' % (cid, i, allops[i][:2], msg))


def history_stream(ctx):
    rng = ctx.rng
    frame_coverage(ctx)
    n = ctx.scale(400, 3000) * (3 if ctx.widen else 1)
    cids = sorted(CONFIGS)
    cases, meta = [], []
    nframes = 0
    defs = lconf_defs()
    for hi in range(n):
        cid = cids[hi % len(cids)] if hi < 2 * len(cids) else rng.choice(cids + ['ind_basic', 'ind_basic', 'ind_ctx'])
        NOTEXT = ('other', 'getterm', 'save')
        ops = []
        for _ in range(rng.randint(0, 6)):
            op = gen_op(rng, cid)
            texts = [o[1] for o in ops if o[0] not in NOTEXT]
            if texts and op[0] not in NOTEXT and rng.random() < 0.25:
                op[1] = rng.choice(texts)            # the same text again (caches keyed by the input show up here)
            ops.append(op)
        probe = gen_op(rng, cid)
        while probe[0] in NOTEXT:
            probe = gen_op(rng, cid)
        texts = [o[1] for o in ops if o[0] not in NOTEXT]
        if texts and rng.random() < 0.3:
            probe[1] = rng.choice(texts)
        allops = ops + [probe]
        if 'lex' in CONFIGS[cid][5] and probe[0] != 'lex':
            # every history ends with a plain, complete lex() (of an earlier text when there is one)
            allops.append(['lex', rng.choice(texts) if texts and rng.random() < 0.6
                           else (gen_text_ind(rng) if CONFIGS[cid][2] else gen_text_flat(rng)), None])
        with_frames = hi < 2 * len(cids) or rng.random() < (0.25 if ctx.thorough() else 0.06)
        nframes += with_frames
        inst, steps, problem = run_history(cid, allops, with_frames)
        kinds = [o[0] + ('' if s[2]['end'] in ('done',) else ':' + str(s[2]['end'])) for o, s in zip(allops, steps)]
        ctx.count('histories', key=(cid, json.dumps(allops)), nontrivial=len(ops) > 0, config=cid, history_len=len(ops),
                  probe=probe[0])
        for kd in kinds:
            ctx.count('history-operations', key=None, nontrivial=False, operation=kd)
        if problem:
            report_history_problem(ctx, cid, allops, problem)
            continue
        if CONFIGS[cid][4]:
            try:
                cases.append(model_case(cid, inst, steps))
                meta.append((cid, allops, [s[1] for s in steps]))
            except Unmodelled as e:
                ctx.count('histories-outside-model', key=None, nontrivial=False, reason=str(e)[:40])
    if meta:
        ctx.sample({'config': meta[0][0], 'operations': meta[0][1], 'probe_result': meta[0][2][-1]})
    ctx.extra['frame_snapshots_histories'] = nframes
    bad, errs = ctx.coq_bad_indices('c10h', IMPORTS, 'check_hist', cases, chunk=150, extra_defs=defs)
    for e in errs:
        ctx.violation('correspondence:coq-eval', {'no_longer_checks': 'model evaluation', 'error': e}, False, e[:300])
    for i in bad[:10]:
        cid, allops, results = meta[i]
        found = search_failing_probe(ctx, cid, allops)
        if found:
            ctx.violation('correspondence+oracle', found, True, 'model and implementation disagree on the state after a history '
                          'and a following call answers differently from a fresh instance')
        else:
            ctx.violation('correspondence:Inst/Instance.run_op vs lark (cells / Indenter state / tokens after each operation)',
                          {'no_longer_checks': 'model/implementation agreement on the instance state trace', 'config': cid,
                           'operations': allops}, False,
                          '%s: state trace of the model differs from the implementation; no call answering differently found' % cid)


def search_failing_probe(ctx, cid, ops, tries=60):
    """after the given history, look for a call whose result differs from the fresh instance's"""
    import random
    rng = random.Random(ctx.seed * 7919 + len(ops))
    again = []
    for o in ops:                      # first the calls of the history themselves, complete and with the same text
        if o[0] not in ('other', 'getterm', 'save'):
            for cand in ([o[0], o[1], o[2] if o[0] in ('pstart', 'onerr') else None], ['parse', o[1], None],
                         ['lex', o[1], None], ['save', '', None]):
                if cand[0] in CONFIGS[cid][5] and cand not in again:
                    again.append(cand)
    for t in range(tries + len(again)):
        probe = again[t] if t < len(again) else gen_op(rng, cid)
        if probe[0] == 'other':
            continue
        inst = make_instance(cid)
        for op in ops:
            run_op(inst, op)
        res = run_op(inst, probe)[0]
        fr = fresh_result(cid, probe)
        if res != fr:
            return {'kind': 'history', 'config': cid, 'operations': ops + [probe], 'result_after_history': res,
                    'result_on_fresh_instance': fr, 'what': 'oracle'}
    return None


# ---- reference results computed in another process (nothing else created there before each call) -------
def subprocess_reference(ctx):
    items = sorted(_FRESH.items())
    rng = ctx.rng
    rng.shuffle(items)
    items = items[:ctx.scale(120, 1000)]
    payload = json.dumps([[k[0], json.loads(k[1])] for k, _ in items])
    code = ('import sys, json\nsys.path.insert(0, %r)\nsys.path.insert(0, %r)\nimport props.C10 as m\n'
            'ops = json.loads(sys.stdin.read())\nout = []\n'
            'for cid, op in ops:\n    out.append(m.run_op(m.make_instance(cid), op)[0])\nprint(json.dumps(out))\n'
            % (os.path.dirname(os.path.dirname(os.path.abspath(__file__))), os.environ.get('VERIF_REPO', '/repo')))
    try:
        p = subprocess.run([sys.executable, '-c', code], input=payload, capture_output=True, text=True, timeout=600)
        ref = json.loads(p.stdout)
    except Exception as e:  # noqa
        ctx.violation('correspondence:subprocess-reference', {'no_longer_checks': 'fresh-process reference', 'error': str(e)[:300]},
                      False, 'reference process failed: %s' % str(e)[:200])
        return
    for (k, res), r in zip(items, ref):
        ctx.count('fresh-process-reference', key=k, nontrivial=True)
        if json.loads(json.dumps(res)) != r:
            ctx.violation('process-oracle', {'kind': 'process', 'config': k[0], 'operation': json.loads(k[1]),
                                             'result_in_this_process': res, 'result_in_fresh_process': r}, True,
                          'result on a fresh instance depends on what else was created in the process')


# =====================================================================================================
# other instances: between two calls on instance A another instance with a different option set is constructed and used
# =====================================================================================================
G_AMB = 'start: a a\na: X+\nX: "x"\n'                       # n-1 derivations that neither priority nor rule order separates
G_AMB_EXPR = 'start: e\ne: e "+" e | N\nN: /[0-9]/\n'        # every bracketing of a sum
G_AMB_WORDS = 'start: w+\nw: L+\nL: /[a-z]/\n'               # every segmentation of a word

OO_GRAMMARS = {'amb': G_AMB, 'expr': G_AMB_EXPR, 'words': G_AMB_WORDS, 'flat': G_FLAT, 'other': G_OTHER, 'ind': G_IND}
OO_TEXT = {'amb': 'x' * 12, 'expr': '1+2+3+4+5', 'words': 'abcdef', 'flat': 'ab 12 ( x if ) y', 'other': 'a=1, b=22',
           'ind': 'a\n  b ( c\n d )\ne\n'}

# instance A: name -> (grammar id, options spec, texts).  Only configurations whose output is documented to be stable
# (ordered_sets=False is not) - the tie-heavy inputs make the Earley results depend on the order of the SPPF families.
OO_A = {
    'earley_dynamic': ('amb', {'parser': 'earley'}, ['x' * 12, 'x' * 7]),
    'earley_basic': ('amb', {'parser': 'earley', 'lexer': 'basic'}, ['x' * 12]),
    'earley_explicit': ('amb', {'parser': 'earley', 'ambiguity': 'explicit'}, ['x' * 6]),
    'earley_expr': ('expr', {'parser': 'earley'}, ['1+2+3+4+5+6']),
    'earley_expr_explicit': ('expr', {'parser': 'earley', 'ambiguity': 'explicit', 'lexer': 'basic'}, ['1+2+3+4']),
    'earley_complete': ('words', {'parser': 'earley', 'lexer': 'dynamic_complete'}, ['abcdefgh']),
    'earley_positions': ('amb', {'parser': 'earley', 'propagate_positions': True}, ['x' * 9]),
    'lalr': ('flat', {'parser': 'lalr'}, ['ab 12 ( x if ) y', 'ab )']),
    'lalr_basic_cb': ('flat', {'parser': 'lalr', 'lexer': 'basic', 'lexer_callbacks': {'NAME': 'upper'}}, ['ab 12 ( x )']),
    'cyk': ('flat', {'parser': 'cyk'}, ['ab 12 ( x )']),
    'lalr_ind': ('ind', {'parser': 'lalr', 'postlex': 'indenter'}, ['a\n  b ( c\n d )\ne\n']),
}

# single-option deviations for instance B (every one is tried against every A on every run) ...
OO_FACTORS = [
    {'ordered_sets': False}, {'ambiguity': 'explicit'}, {'ambiguity': 'forest'}, {'priority': 'invert'}, {'priority': None},
    {'priority': 'normal'}, {'lexer': 'basic'}, {'lexer': 'dynamic_complete'}, {'lexer': 'dynamic'}, {'keep_all_tokens': True},
    {'maybe_placeholders': False}, {'propagate_positions': True}, {'tree_class': 'MyTree'}, {'g_regex_flags': 2},
    {'parser': 'lalr'}, {'parser': 'lalr', 'lexer': 'basic'}, {'parser': 'lalr', 'lexer': 'contextual'}, {'parser': 'cyk'},
    {'parser': 'lalr', 'transformer': 'T'}, {'parser': 'lalr', 'lexer_callbacks': {'NAME': 'tag'}}, {'use_bytes': True},
    {'regex': False}, {'parser': 'lalr', 'cache': False}, {'start': ['start', 'a']}, {'parser': 'lalr', 'strict': False},
]
OO_REPEAT = 5


def oo_options(spec):
    """option spec (JSON-able) -> Lark keyword arguments"""
    import lark
    kw = {}
    for k, v in spec.items():
        if k == 'tree_class':
            kw[k] = type('MyTree', (lark.Tree,), {})
        elif k == 'transformer':
            kw[k] = type('T', (lark.Transformer,), {'start': lambda self, ch: ('start', len(ch))})()
        elif k == 'lexer_callbacks':
            kw[k] = {t: CB[c] for t, c in v.items()}
        elif k == 'postlex':
            kw[k] = make_indenter()
        else:
            kw[k] = v
    return kw


def oo_make(gid, spec):
    import lark
    kw = oo_options(spec)
    kw.setdefault('parser', 'earley')
    return lark.Lark(OO_GRAMMARS[gid], **kw)


def oo_parse(inst, text):
    try:
        return ['tree', ctree(inst.parse(text))]
    except Exception as e:  # noqa
        return ['err', cerr(e)]


def oo_other(gid, spec):
    """construct another instance and use it; failing constructions and calls are calls too"""
    try:
        b = oo_make(gid, spec)
    except Exception as e:  # noqa
        return 'construction:' + type(e).__name__
    try:
        b.parse(OO_TEXT[gid].encode() if spec.get('use_bytes') else OO_TEXT[gid])
        return 'used'
    except Exception as e:  # noqa
        return 'use:' + type(e).__name__


def oo_case(aid, bgid, bspec, repeat=OO_REPEAT):
    """-> (first differing (text, result before, result after) or None, what happened to B, results before)"""
    gid, aspec, texts = OO_A[aid]
    a = oo_make(gid, aspec)
    before = [oo_parse(a, t) for t in texts]
    how = oo_other(bgid, bspec)
    for _ in range(repeat):
        for t, r0 in zip(texts, before):
            r = oo_parse(a, t)
            if r != r0:
                return (t, r0, r), how, before
    return None, how, before


def other_options_stream(ctx):
    rng = ctx.rng
    cases = []
    for aid in sorted(OO_A):
        gid = OO_A[aid][0]
        for f in OO_FACTORS:                                   # one factor at a time, same grammar and another one
            cases.append((aid, gid if gid in ('amb', 'expr', 'words') or 'start' not in f else 'amb', f))
        for f in OO_FACTORS[:6]:
            cases.append((aid, rng.choice(['amb', 'expr', 'flat', 'other']), f))
    for _ in range(ctx.scale(60, 1500)):                       # ... and random combinations
        spec = {}
        for f in rng.sample(OO_FACTORS, rng.randint(2, 4)):
            spec.update(f)
        cases.append((rng.choice(sorted(OO_A)), rng.choice(sorted(OO_GRAMMARS)), spec))
    refs = {}
    for aid, bgid, bspec in cases:
        if 'start' in bspec and bgid not in ('amb',):
            bspec = {k: v for k, v in bspec.items() if k != 'start'}
        bad, how, before = oo_case(aid, bgid, bspec)
        refs.setdefault(aid, before)
        ctx.count('other-instance-options', key=(aid, bgid, json.dumps(bspec, sort_keys=True)), nontrivial=how == 'used',
                  instance_A=aid, other_instance=how)
        if before != refs[aid]:
            bad = (OO_A[aid][2][0], refs[aid], before)        # a *new* A answers differently after earlier Bs
        if bad:
            t, r0, r = bad
            ctx.violation('other-instance-oracle', {'kind': 'other-options', 'instance_A': aid, 'other_grammar': bgid,
                                                    'other_options': bspec, 'text': t, 'result_before': r0, 'result_after': r},
                          True, '%s: parse(%r) changed after Lark(%s, %s) was constructed (%s): %s -> %s'
                          % (aid, t, bgid, json.dumps(bspec, sort_keys=True), how, str(r0)[:90], str(r)[:90]))
            if getattr(ctx, 'noo', 0) >= 5:
                break
            ctx.noo = getattr(ctx, 'noo', 0) + 1
    # the same calls in a process where nothing else was ever constructed (same PYTHONHASHSEED)
    code = ('import sys, json\nsys.path.insert(0, %r)\nsys.path.insert(0, %r)\nimport props.C10 as m\n'
            'print(json.dumps({a: [m.oo_parse(m.oo_make(m.OO_A[a][0], m.OO_A[a][1]), t) for t in m.OO_A[a][2]] '
            'for a in sorted(m.OO_A)}))\n'
            % (os.path.dirname(os.path.dirname(os.path.abspath(__file__))), os.environ.get('VERIF_REPO', '/repo')))
    try:
        p = subprocess.run([sys.executable, '-c', code], capture_output=True, text=True, timeout=300)
        fresh = json.loads(p.stdout)
    except Exception as e:  # noqa
        ctx.violation('correspondence:subprocess-reference', {'no_longer_checks': 'fresh-process reference (other instances)',
                                                             'error': str(e)[:300]}, False, 'reference process failed')
        return
    for aid, before in refs.items():
        ctx.count('other-instance-fresh-process', key=aid, nontrivial=True)
        if json.loads(json.dumps(before)) != fresh.get(aid):
            ctx.violation('process-oracle', {'kind': 'process-oo', 'instance_A': aid, 'result_in_this_process': before,
                                             'result_in_fresh_process': fresh.get(aid)}, True,
                          '%s: the first parse of a new instance differs from the same parse in a fresh process' % aid)


# =====================================================================================================
# threads: a deterministic line scheduler
# =====================================================================================================
SHARED = re.compile(r'\bself\.(_scanner|callback)\b')
KIND_BY_SRC = [
    (r'^if self\._scanner is None:?$', 0),
    (r'^self\._scanner = self\._build_scanner\(\)$', 1),
    (r'^self\.callback = callback$', 2),
    (r'^return self\._scanner$', 4),
    (r'^if not ignored or type_ in self\.callback:?$', 5),
    (r'^if t\.type in self\.callback:?$', 6),
    (r'^t = self\.callback\[t\.type\]\(t\)$', 7),
    (r'^terminals, self\.callback = _create_unless\(', 8),
    (r'^assert all\(self\.callback\.values\(\)\)$', 9),
    (r'^if type_ in self\.callback:?$', 10),
    (r'^self\.callback\[type_\] = ', 11),
]


def sched_points():
    """code object -> {line: (statement id, kind code)} for the statements that access self._scanner / self.callback"""
    from lark.lexer import BasicLexer
    out = {}
    for fn in (BasicLexer.scanner.fget, BasicLexer._build_scanner, BasicLexer.next_token):
        src, first = inspect.getsourcelines(fn)
        tree = ast.parse(_dedent(src))
        table = {}
        for node in ast.walk(tree):
            if not isinstance(node, ast.stmt) or isinstance(node, (ast.FunctionDef, ast.ClassDef)):
                continue
            body = getattr(node, 'body', None)
            if isinstance(body, list) and body and isinstance(body[0], ast.stmt):
                lo, hi = node.lineno, body[0].lineno - 1        # header of a compound statement
                head = ast.unparse(node).split('\n')[0]
            else:
                lo, hi = node.lineno, node.end_lineno
                head = ast.unparse(node).replace('\n', ' ')
            text = ' '.join(l.split('#')[0] for l in src[lo - 1:hi])
            if not SHARED.search(text):
                continue
            kind = 99
            for pat, code in KIND_BY_SRC:
                if re.match(pat, head):
                    kind = code
                    break
            for ln in range(lo, hi + 1):
                table[first + ln - 1] = ((first + lo - 1), kind)
        out[fn.__code__] = table
    return out


def _dedent(src):
    ind = len(src[0]) - len(src[0].lstrip())
    return ''.join(l[ind:] if l.strip() else '\n' for l in src)


RUN_TIMEOUT = 60


class Sched:
    """Threads stop before every statement listed by sched_points() and at the return of _build_scanner; the controller
    lets exactly one of them run to its next stop."""

    def __init__(self, points):
        from lark.lexer import BasicLexer
        self.points = points
        self.build_code = BasicLexer._build_scanner.__code__
        self.cv = threading.Condition()
        self.state = {}
        self.where = {}
        self.grant = None
        self.log = []          # (tid, kind, scanner set, callback keys) for every granted step
        self.live_sets = []    # threads that were waiting at each step
        self.tokres = {}       # tid -> [(type, code)]

    # -- in the worker threads --
    def tracer(self, tid):
        last = {}

        def local(frame, event, arg):
            code = frame.f_code
            if event == 'line':
                tab = self.points.get(code)
                ent = tab.get(frame.f_lineno) if tab else None
                key = id(frame)
                if ent is None:
                    last[key] = None
                elif last.get(key) != ent[0]:
                    last[key] = ent[0]
                    self.pause(tid, frame, ent[1])
            elif event == 'return':
                last.pop(id(frame), None)
                if code is self.build_code and arg is not None:
                    self.pause(tid, frame, 3)
            return local

        def glob(frame, event, arg):
            return local if frame.f_code in self.points else None
        return glob

    def observe(self, tid, frame, kind):
        s = frame.f_locals.get('self')
        d = s.__dict__
        cb = d.get('callback')
        ev = (tid, kind, d.get('_scanner') is not None, None if cb is None else list(cb))
        # what the line about to run will read, as a token result
        res = None
        loc = frame.f_locals
        if kind in (5, 6, 7):
            from lark.lexer import UnlessCallback, CallChain
            ty = loc.get('type_')
            if kind == 5 and loc.get('ignored'):
                res = (ty, 6) if cb is None else ((ty, 4) if ty not in cb else None)
            elif kind == 6:
                res = (ty, 6) if cb is None else ((ty, 0) if ty not in cb else None)
            elif kind == 7:
                if cb is None:
                    res = (ty, 6)
                elif ty not in cb:
                    res = (ty, 5)
                else:
                    v = cb[ty]
                    res = (ty, 1 if isinstance(v, UnlessCallback) else 3 if isinstance(v, CallChain) else 2)
        return ev, res

    # Baton passing: exactly one worker runs at a time.  The worker that reaches a scheduling point (or ends) picks who
    # runs next; if it picks itself no OS-level switch happens at all.
    def pick(self):
        """called with self.cv held by the thread that owns the baton"""
        live = [t for t, s in sorted(self.state.items()) if s == 'paused']
        if not live:
            self.grant = 'controller'
            self.cv.notify_all()
            return None
        t = self.choose(live, len(self.sched))
        self.sched.append(t)
        self.live_sets.append(live)
        self.grant = t
        self.cv.notify_all()
        return t

    def pause(self, tid, frame, kind):
        with self.cv:
            self.state[tid] = 'paused'
            if self.started:
                self.pick()
            else:
                self.cv.notify_all()
            while self.grant != tid:
                self.cv.wait()
            self.grant = None
            self.state[tid] = 'running'
            ev, res = self.observe(tid, frame, kind)       # nobody else runs now: this is what the next line will read
            self.log.append(ev)
            if res is not None:
                self.tokres[tid].append(res)

    def work(self, tid, fn, results):
        sys.settrace(self.tracer(tid))
        try:
            results[tid] = ['ok', fn()]
        except BaseException as e:  # noqa
            results[tid] = ['exc', type(e).__name__, str(e)[:100]]
        finally:
            sys.settrace(None)
            with self.cv:
                self.state[tid] = 'done'
                if self.started:
                    self.pick()
                else:
                    self.cv.notify_all()

    # -- the controller --
    def run(self, fns, choose):
        results = {}
        ths = []
        self.choose = choose
        self.started = False
        self.sched = []
        for tid, fn in enumerate(fns):
            self.state[tid] = 'running'
            self.tokres[tid] = []
            ths.append(threading.Thread(target=self.work, args=(tid, fn, results), daemon=True))
        for th in ths:
            th.start()
        with self.cv:
            # every thread runs (touching nothing shared) up to its first scheduling point
            while any(s == 'running' for s in self.state.values()):
                self.cv.wait(10)
            self.started = True
            deadline = time.time() + RUN_TIMEOUT
            if self.pick() is not None:
                while self.grant != 'controller' and time.time() < deadline:
                    self.cv.wait(1)
            self.hung = self.grant != 'controller'
        for th in ths:
            th.join(0.1 if self.hung else 10)
        return [results.get(t, ['hang']) for t in range(len(fns))]


# One Indenter object used by concurrent streams is the stateful post-lexer the property excludes: no Indenter here.
TH_CONFIGS = {
    # id -> (config id, how a thread uses the instance)
    'lexonly': ('flat_lexonly', 'lex'),
    'lalr_basic': ('flat_basic', 'parse'),
    'lalr_ctx': ('flat_ctx', 'parse'),
}


# the unscheduled stress run also covers the engines whose shared state is not in the lexer
STRESS_CONFIGS = dict(TH_CONFIGS, earley_basic=('flat_earley_basic', 'parse'), earley_dyn=('flat_earley_dyn', 'parse'),
                      cyk=('flat_cyk', 'parse'), multi=('flat_multi', 'parse_item'))


def thread_job(inst, how, text):
    def job():
        if how == 'lex':
            return [ctok(t) for t in inst.lex(text)]
        try:
            return ['tree', ctree(inst.parse(text, start='item') if how == 'parse_item' else inst.parse(text))]
        except Exception as e:  # noqa
            if type(e).__name__ in ('UnexpectedToken', 'UnexpectedCharacters', 'UnexpectedEOF', 'DedentError'):
                return ['err', cerr(e)]
            raise
    return job


_SEQ = {}


def sequential(thid, text):
    """the oracle for a thread: the same call alone on a fresh instance"""
    if (thid, text) not in _SEQ:
        cid, how = STRESS_CONFIGS[thid]
        try:
            _SEQ[(thid, text)] = ['ok', thread_job(make_instance(cid), how, text)()]
        except BaseException as e:  # noqa
            _SEQ[(thid, text)] = ['exc', type(e).__name__, str(e)[:100]]
    return _SEQ[(thid, text)]


def run_schedule(thid, texts, prefix, points, policy='stay'):
    """runs the threads on a fresh instance under the schedule `prefix`, continued by the default policy"""
    cid, how = TH_CONFIGS[thid]
    inst = make_instance(cid)
    s = Sched(points)
    cur = [None]

    def choose(live, i):
        if i < len(prefix) and prefix[i] in live:
            t = prefix[i]
        elif policy == 'stay' and cur[0] in live:
            t = cur[0]
        else:
            t = live[0]
        cur[0] = t
        return t
    results = s.run([thread_job(inst, how, tx) for tx in texts], choose)
    return inst, s, results


def preemptions(sched, live_sets):
    n = 0
    for i in range(1, len(sched)):
        if sched[i] != sched[i - 1] and sched[i - 1] in live_sets[i]:
            n += 1
    return n


def enumerate_schedules(thid, texts, points, max_preempt=None, limit=None):
    """stateless depth-first enumeration of all schedules (optionally only those with <= max_preempt pre-emptions)"""
    stack = [[]]
    n = 0
    while stack:
        prefix = stack.pop()
        inst, s, results = run_schedule(thid, texts, prefix, points)
        sched = list(s.sched)
        n += 1
        yield inst, s, results, sched
        if limit is not None and n >= limit:
            return
        for i in range(len(sched) - 1, len(prefix) - 1, -1):
            for alt in s.live_sets[i]:
                if alt != sched[i]:
                    cand = sched[:i] + [alt]
                    if max_preempt is not None and preemptions(cand, s.live_sets[:i + 1]) > max_preempt:
                        continue
                    stack.append(cand)


_MATCHES = {}


def matches_of(cid, text):
    if (cid, text) not in _MATCHES:
        _MATCHES[(cid, text)] = _matches_of(cid, text)
    return _MATCHES[(cid, text)]


def _matches_of(cid, text):
    """the (terminal, ignored) sequence the scanner matches on the text, and the table description for the model"""
    from lark.lexer import UnlessCallback, CallChain
    from lark.utils import TextSlice
    inst = make_instance(cid)
    lx = basic_lexers(inst)[0][1]
    sc = lx.scanner
    ts = TextSlice.cast_from(text)
    pos = 0
    out = []
    while pos < len(text):
        m = sc.match(ts, pos)
        if not m:
            break
        out.append((m[1], m[1] in lx.ignore_types))
        pos += len(m[0])
    unless = [k for k, v in lx.callback.items() if isinstance(v, (UnlessCallback, CallChain))]
    return out, unless, list(lx.user_callbacks)


def build_order():
    src = open(os.path.join(os.path.dirname(os.path.dirname(os.path.dirname(os.path.abspath(__file__)))), 'coq', 'Gen',
                            'InstOrder.v')).read()
    m = re.search(r'Definition build_order : order := (\w+)\.', src)
    return m.group(1) if m else 'PublishLast'


def coq_sched_case(order, cid, texts, s, sched):
    inputs = []
    unless = users = None
    for tx in texts:
        ms, unless, users = matches_of(cid, tx)
        inputs.append(L(['(mkI %s %s)' % (S(k), coq_bool(ig)) for k, ig in ms]))
    cfg = '(mkTcfg %s %s)' % (L([S(k) for k in unless]), L([S(k) for k in users]))
    log = L(['(mkE %s %s %s %s)' % (N(t), N(k), coq_bool(sc), coq_opt(keys, lambda ks: L([S(x) for x in ks])))
             for t, k, sc, keys in s.log])
    res = L([L(['(mkR %s %s)' % (S(k), N(c)) for k, c in s.tokres[t]]) for t in range(len(texts))])
    return '(mkSC %s %s %s %s %s %s)' % (order, cfg, L(inputs), L([N(t) for t in sched]), log, res)


TH_TEXTS = {
    'lexonly': [['ab', 'if'], ['ab 1', 'c'], ['if x', ' 7']],
    'lalr_basic': [['ab 1', 'c'], ['( a )', 'if 2']],
    'lalr_ctx': [['ab 1', '( c )']],
}


def schedule_stream(ctx):
    rng = ctx.rng
    points = sched_points()
    order = build_order()
    unknown = [(c.co_name, ln) for c, tab in points.items() for ln, (_, k) in tab.items() if k == 99]
    if unknown:
        ctx.violation('correspondence:scheduling-points', {'no_longer_checks': 'mapping of source lines to model steps',
                                                          'lines': unknown}, False,
                      'lines accessing self._scanner/self.callback that the interleaving model does not know: %r' % unknown)
    cases, meta = [], []
    budget = ctx.scale(700, 40000) * (2 if ctx.widen else 1)
    total = 0
    plan = []
    # exhaustive (thorough) or pre-emption bounded (quick) enumeration on the lexer-only instance; bounded elsewhere
    for thid in ('lexonly', 'lalr_basic', 'lalr_ctx'):
        for texts in TH_TEXTS[thid]:
            if thid == 'lexonly' and texts == TH_TEXTS['lexonly'][0]:
                # all interleavings (thorough, for the publish-last code: about 12000); otherwise bounded pre-emptions
                full = ctx.thorough() and order == 'PublishLast' and not ctx.widen
                plan.append((thid, texts, None if full else (3 if ctx.thorough() or ctx.widen else 2), None))
            else:
                plan.append((thid, texts, 2 if ctx.thorough() else 1, ctx.scale(60, 500)))
    for thid, texts, bound, limit in plan:
        cid = TH_CONFIGS[thid][0]
        seq = [sequential(thid, tx) for tx in texts]
        for inst, s, results, sched in enumerate_schedules(thid, texts, points, bound, limit):
            total += 1
            both = all(r and r[0] == 'ok' and r[1] for r in results)
            ctx.count('schedules', key=(thid, tuple(texts), tuple(sched)), nontrivial=both, thread_config=thid,
                      schedule_len=min(len(sched), 60) // 10 * 10, preemptions=min(preemptions(sched, s.live_sets), 6))
            check_schedule_result(ctx, thid, texts, sched, results, seq, inst)
            if s.hung:
                return
            if CONFIGS[cid][4]:
                cases.append(coq_sched_case(order, cid, texts, s, sched))
                meta.append((thid, texts, sched))
            if total >= budget:
                break
    # seeded random schedules (random choice at every step)
    for _ in range(ctx.scale(120, 1000)):
        thid = rng.choice(['lexonly', 'lexonly', 'lalr_basic', 'lalr_ctx'])
        texts = rng.choice(TH_TEXTS[thid])
        if rng.random() < 0.3:
            texts = texts + [rng.choice(texts)]          # three threads
        prefix = [rng.randrange(len(texts)) for _ in range(80)]
        inst, s, results = run_schedule(thid, texts, prefix, points, policy='first')
        sched = list(s.sched)
        seq = [sequential(thid, tx) for tx in texts]
        ctx.count('schedules-random', key=(thid, tuple(texts), tuple(sched)), nontrivial=True, threads=len(texts))
        check_schedule_result(ctx, thid, texts, sched, results, seq, inst)
        cid = TH_CONFIGS[thid][0]
        if CONFIGS[cid][4]:
            cases.append(coq_sched_case(order, cid, texts, s, sched))
            meta.append((thid, texts, sched))
    if meta:
        ctx.sample({'thread_config': meta[0][0], 'texts': meta[0][1], 'schedule': meta[0][2]})
    bad, errs = ctx.coq_bad_indices('c10s', IMPORTS, 'check_sched', cases, chunk=300, extra_defs=FAST_DEFS)
    for e in errs:
        ctx.violation('correspondence:coq-eval', {'no_longer_checks': 'model evaluation', 'error': e}, False, e[:300])
    for i in bad[:5]:
        thid, texts, sched = meta[i]
        ctx.violation('correspondence:Inst/Threads.run vs lark under the line scheduler',
                      {'no_longer_checks': 'model/implementation agreement on what each thread observes', 'thread_config': thid,
                       'texts': texts, 'schedule': sched}, False,
                      'the cells observed at the scheduling points differ from the model run of the same schedule')


PROBE_TEXTS = ['ab if 1', 'if x', '7 ( y )']


def check_schedule_result(ctx, thid, texts, sched, results, seq, inst):
    for t, (r, sq) in enumerate(zip(results, seq)):
        if r != sq:
            ctx.violation('schedule-oracle', {'kind': 'schedule', 'thread_config': thid, 'texts': texts, 'schedule': sched,
                                              'thread': t, 'result': r, 'sequential_result': sq}, True,
                          '%s: thread %d under schedule %s returns %s, alone on a fresh instance %s'
                          % (thid, t, ''.join(map(str, sched)), str(r)[:120], str(sq)[:120]))
            return False
    m = coherence_violation(TH_CONFIGS[thid][0], inst)
    if m:
        # the cells are not what the builders return: does a later call on this instance show it?
        cid, how = TH_CONFIGS[thid]
        for tx in PROBE_TEXTS:
            try:
                r = ['ok', thread_job(inst, how, tx)()]
            except BaseException as e:  # noqa
                r = ['exc', type(e).__name__, str(e)[:100]]
            sq = sequential(thid, tx)
            if r != sq:
                ctx.violation('schedule+probe-oracle', {'kind': 'schedule', 'thread_config': thid, 'texts': texts, 'schedule': sched,
                                                        'probe': tx, 'result': r, 'sequential_result': sq}, True,
                              '%s: after schedule %s the instance answers %s to %r, a fresh instance %s (%s)'
                              % (thid, ''.join(map(str, sched)), str(r)[:100], tx, str(sq)[:100], m[:120]))
                return False
        ctx.nincoh = getattr(ctx, 'nincoh', 0) + 1
        if ctx.nincoh <= 2:
            ctx.violation('correspondence:coherence-after-schedule', {'no_longer_checks': 'coherent cells after a schedule',
                                                                     'thread_config': thid, 'texts': texts, 'schedule': sched}, False, m)
    return True


def stress_round(thid, texts):
    """8 unscheduled threads, 6 calls each, on one fresh instance; returns None or (what, text, result, sequential result)"""
    cid, how = STRESS_CONFIGS[thid]
    seq = [sequential(thid, tx) for tx in texts]
    inst = make_instance(cid)
    out = [None] * 8
    barrier = threading.Barrier(8)

    def work(i):
        barrier.wait()
        res = []
        for j in range(6):
            tx = texts[(i + j) % len(texts)]
            try:
                res.append(((i + j) % len(texts), ['ok', thread_job(inst, how, tx)()]))
            except BaseException as e:  # noqa
                res.append(((i + j) % len(texts), ['exc', type(e).__name__, str(e)[:100]]))
        out[i] = res
    old = sys.getswitchinterval()
    sys.setswitchinterval(1e-6)
    try:
        ths = [threading.Thread(target=work, args=(i,), daemon=True) for i in range(8)]
        for th in ths:
            th.start()
        for th in ths:
            th.join(RUN_TIMEOUT)
    finally:
        sys.setswitchinterval(old)
    if any(th.is_alive() for th in ths):
        return ('hang', None, 'hang', None)
    for res in out:
        for k, rr in res or []:
            if rr != seq[k]:
                return ('differs', texts[k], rr, seq[k])
    return None


def stress_stream(ctx):
    """unscheduled threads with a tiny switch interval: smoke test"""
    rng = ctx.rng
    names = sorted(STRESS_CONFIGS)
    for r in range(ctx.scale(2 * len(names), 60)):
        thid = names[r % len(names)]
        cid, how = STRESS_CONFIGS[thid]
        # long and mostly well-formed texts, so that the calls overlap in every phase (lexing, parsing, tree building)
        texts = [' '.join(rng.choice(['a', 'if', 'xyz', '12', '( a 1 )', '( ( b ) if )'])
                          for _ in range(rng.randint(8, 30))) + rng.choice(['', '', '', ' )', ' ?'])
                 for _ in range(4)]
        if how == 'parse_item':
            texts = ['( ' + t + ' )' for t in texts]
        bad = stress_round(thid, texts)
        ctx.count('stress', key=(thid, tuple(texts)), nontrivial=True, stress_config=thid)
        if bad:
            what, tx, rr, sq = bad
            ctx.violation('stress-oracle', {'kind': 'stress', 'thread_config': thid, 'texts': texts, 'text': tx,
                                            'result': rr, 'sequential_result': sq}, True,
                          '%s: a call running concurrently with others %s' % (thid, 'did not return within %d s' % RUN_TIMEOUT
                                                                              if what == 'hang' else
                                                                              'returned %s, sequentially %s' % (str(rr)[:100], str(sq)[:100])))
            return


# =====================================================================================================
def held_instances():
    """used instances of every configuration, of the other-instance matrix and of the shaping family (lazy cells forced)"""
    import props.C10_writes as W
    out = []
    for cid in sorted(CONFIGS):
        inst = make_instance(cid)
        for kind in ('parse', 'lex', 'scan', 'inter'):
            if kind in CONFIGS[cid][5]:
                run_op(inst, [kind, GOOD_TEXT[CONFIGS[cid][2]], None if kind != 'inter' else 2])
        out.append((cid, inst))
    for aid in sorted(OO_A):
        gid, aspec, texts = OO_A[aid]
        a = oo_make(gid, aspec)
        oo_parse(a, texts[0])
        out.append(('oo:' + aid, a))
    for cid, g, opts, texts in W.shape_cases()[::17]:
        import lark
        a = lark.Lark(g, **opts)
        W.shape_op(a, 'parse', texts[0])
        out.append(('shape:' + cid, a))
    import lark
    t = type('T', (lark.Transformer,), {'start': lambda self, ch: ('start', len(ch))})()
    a = lark.Lark(G_FLAT, parser='lalr', transformer=t)
    a.parse('ab 12')
    out.append(('embedded-transformer', a))
    return out


def writes_tie(ctx):
    import props.C10_writes as W
    W.held_class_tie(ctx, held_instances())


def correspond(ctx):
    import props.C10_writes as W
    secs = {}
    for name, fn in (('histories', history_stream), ('shaping-histories', W.shaping_history_stream),
                     ('fresh-process', subprocess_reference),
                     ('other-instances', other_options_stream), ('schedules', schedule_stream),
                     ('lazy-cells', W.lazy_cell_stream), ('shared-stores', W.shared_store_stream),
                     ('held-classes', writes_tie), ('stress', stress_stream)):
        t0 = time.time()
        fn(ctx)
        secs[name] = round(time.time() - t0, 1)
    ctx.extra['stage_seconds'] = secs


def replay(ctx, case):
    w = case.get('witness', case)
    kind = w.get('kind')
    if kind == 'history':
        ops = w['operations']
        cid = w['config']
        inst = make_instance(cid)
        res = None
        for op in ops:
            res = run_op(inst, op)[0]
        fr = run_op(make_instance(cid), ops[-1])[0]
        print('after history:', json.dumps(res)[:400])
        print('fresh        :', json.dumps(fr)[:400])
        return json.loads(json.dumps(res)) != json.loads(json.dumps(fr))
    if kind == 'process':
        return False
    if kind == 'shaping':
        import props.C10_writes as W
        return W.replay_shaping(w)
    if kind == 'gschedule':
        import props.C10_writes as W
        return W.replay_gschedule(w)
    if kind == 'other-options':
        for _ in range(8):              # the order of an id-hashed set differs from run to run
            bad, how, before = oo_case(w['instance_A'], w['other_grammar'], w['other_options'], repeat=10)
            if bad:
                print('before:', json.dumps(bad[1])[:300])
                print('after :', json.dumps(bad[2])[:300])
                return True
        return False
    if kind == 'schedule':
        points = sched_points()
        thid, texts, sched = w['thread_config'], w['texts'], w['schedule']
        inst, s, results = run_schedule(thid, texts, sched, points)
        seq = [sequential(thid, tx) for tx in texts]
        if w.get('probe') is not None:
            cid, how = TH_CONFIGS[thid]
            try:
                results = ['ok', thread_job(inst, how, w['probe'])()]
            except BaseException as e:  # noqa
                results = ['exc', type(e).__name__, str(e)[:100]]
            seq = sequential(thid, w['probe'])
        print('scheduled :', json.dumps(results)[:400])
        print('sequential:', json.dumps(seq)[:400])
        return json.loads(json.dumps(results)) != json.loads(json.dumps(seq))
    if kind == 'stress':
        for _ in range(25):             # unscheduled threads: the same round, repeated
            bad = stress_round(w['thread_config'], w['texts'])
            if bad:
                print('concurrent:', json.dumps(bad[2])[:300])
                print('sequential:', json.dumps(bad[3])[:300])
                return True
        return False
    return False
