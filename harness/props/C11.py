"""C11 - Saved, cached and stand-alone parsers behave like the original."""
import io
import json
import os
import pickle
import re
import subprocess
import sys
import traceback
from concurrent.futures import ThreadPoolExecutor

import lib
from props import C11_export as E

THEOREMS = ['C11_table_roundtrip', 'C11_token_numbering_injective', 'C11_memo_roundtrip', 'C11_fields_restored',
            'C11_options_partition', 'C11_load_save', 'C11_saveload', 'C11_cache', 'C11_load_override',
            'C11_load_rejects', 'C11_standalone_partial', 'C11_flags_list_changes_unless_test',
            'C11_flags_test_preserved', 'C11_wf_check_sound', 'C11_example',
            'C11_standalone_same_program', 'C11_standalone_generated_module', 'C11_standalone_closed',
            'C11_standalone_closed_spec', 'C11_standalone_ordered', 'C11_standalone_ordered_spec',
            'C11_standalone_name_resolution_sound', 'C11_standalone_no_name_error', 'C11_standalone_client_runs_reached',
            'C11_standalone_cache_grammar_refuted', 'C11_standalone_units_example']
GEN_DEPS = ['SerializeFields', 'Standalone', 'StandaloneUnits']
RULE = ('fixed corpus of LALR grammars (imports from common.lark, templates, rule/terminal priorities, 120 terminals, '
        'regex and string flags, bytes mode, placeholders, aliases/inlining, several start symbols, lark.lark) plus '
        'seeded random grammars, each under sampled options {lexer basic/contextual, keep_all_tokens, '
        'maybe_placeholders, propagate_positions, start list}; variants load(save) / cache (2nd construction) / '
        '_load_from_dict with load-time keyword arguments / stand-alone module (plain, --compress, run in a clean '
        'subprocess); probes = sample sentences, their one-edit mutations and random fragment strings, through '
        'parse, parse_interactive (step trace with accepts()) and scan; non-trivial = distinct (grammar, options, '
        'variant, input) whose outcome is a tree with >= 2 tokens or an error at a position > 0')
TRUSTED_BASE = ['pickle / repr+Python parser / zlib / base64 as exact codecs of the value universe (Section variable in '
                'C11_standalone_partial; pickle identity in the model of Lark.save)',
                'Ser/Relevant.v: the declared attribute sets the behaviour reads (validated each run by read tracing '
                'and by deleting the NotRead attributes from a direct instance)',
                'translator/gen_serialize.py pins the code shape of Serialize.serialize/deserialize, _serialize, '
                '_deserialize, SerializeMemoizer, Enumerator, ParseTableBase.serialize/deserialize, Lark.save/_load, '
                '_deserialize_lexer_conf, LarkOptions.__init__ loop; lists, tags and defaults are regenerated',
                'stand-alone program part: the Python evaluator is a Section parameter with the locality hypothesis (a run depends '
                'only on the definitions reachable from the entry point through global-name references); translator/'
                'gen_standalone.py executes the tool\'s own extract_sections / strip_docstrings and analyses with ast + symtable',
                'stand-alone name resolution (round 12): Ser/NameRes.v is the evaluator model for "is a global name bound when it is '
                'looked up"; trusted: the syntactic position classification of translator/gen_saunits.py, name-based attribute '
                'resolution as over-approximation of dynamic dispatch, declared sa_not_run = [create_lalr_parser] and '
                'sa_unsupported_attrs (validated by the call trace of the real generated modules against sa_reached)']
ASSUMPTIONS = ['memo keys identify objects inside one instance: rules are distinct by (origin, expansion), terminals '
               'by name (checked on every exported instance by inst_wf_b)',
               'cache_grammar (Grammar object in the saved data), custom lexer classes and postlexers are outside the model',
               'construction (load_grammar, compile, LALR analysis) reads the load-allowed options only through the '
               'LexerConf arguments pinned by the translator; validated by the load-time-override differential']
ALLOWED_AXIOMS = []

IMPORTS = 'From LV Require Import Ser.Value Gen.SerializeFields Ser.Serialize Ser.SerializeCheck.'

# ----------------------------------------------------------------------------------------------- canonical outcomes
# This source is executed both here (against lark from $VERIF_REPO) and inside the stand-alone runner subprocess
# (against the generated module), so that both sides are observed by the same code.
OBSERVER_SRC = r'''
def _b(x):
    if isinstance(x, bytes):
        return ['bytes', x.decode('latin-1')]
    return str(x)

def canon_tok(t):
    return ['tok', str(t.type), _b(t.value), t.start_pos, t.line, t.column, t.end_line, t.end_column, t.end_pos]

def canon_meta(m):
    if getattr(m, 'empty', True):
        return ['meta', 'empty']
    return ['meta'] + [getattr(m, a, None) for a in ('line', 'column', 'end_line', 'end_column', 'start_pos', 'end_pos')]

def canon(x):
    if x is None:
        return None
    if hasattr(x, 'children') and hasattr(x, 'data'):
        return ['tree', str(x.data), canon_meta(x.meta), [canon(c) for c in x.children]]
    if isinstance(x, (str, bytes)) and hasattr(x, 'type'):
        return canon_tok(x)
    if isinstance(x, (str, bytes)):
        return ['str', _b(x)]
    if isinstance(x, (list, tuple)):
        return ['seq'] + [canon(c) for c in x]
    return ['obj', type(x).__name__, repr(x)[:80]]

def canon_exc(e):
    n = type(e).__name__
    out = ['error', n]
    for a in ('pos_in_stream', 'line', 'column'):
        out.append(getattr(e, a, None))
    if n == 'UnexpectedCharacters':
        out.append(sorted(str(s) for s in (e.allowed or ())))
        out.append(_b(e.char))
        out.append(canon_tok(e.token_history[-1]) if e.token_history else None)
    elif n == 'UnexpectedToken':
        out.append(sorted(str(s) for s in (e.expected or ())))
        out.append(canon_tok(e.token) if hasattr(e.token, 'type') else _b(e.token))
        out.append(sorted(str(s) for s in (e.accepts or ())) if getattr(e, 'accepts', None) is not None else None)
    elif n == 'UnexpectedEOF':
        out.append(sorted(str(s) for s in (e.expected or ())))
    elif n not in ('DedentError',):
        out.append(str(e)[:120])
    return out

def obs_parse(p, text, start):
    try:
        return canon(p.parse(text, start=start))
    except Exception as e:
        return canon_exc(e)

def obs_interactive(p, text, start):
    trace = []
    try:
        ip = p.parse_interactive(text, start=start)
        for tok in ip.lexer_thread.lex(ip.parser_state):
            trace.append([canon_tok(tok), sorted(str(a) for a in ip.accepts())])
            ip.feed_token(tok)
        trace.append(['accepts-at-end', sorted(str(a) for a in ip.accepts())])
        trace.append(['result', canon(ip.feed_eof())])
    except Exception as e:
        trace.append(canon_exc(e))
    return trace

def obs_scan(p, text, start):
    out = []
    try:
        for m in p.scan(text, start=start):
            out.append([list(m.range), canon(m.value)])
            if len(out) > 50:
                break
    except Exception as e:
        out.append(canon_exc(e))
    return out

def obs_witnesses(ns, p, text, start):
    """regression (F49): code paths of the generated module that used names its header did not import"""
    import warnings as _w
    out = []
    try:
        tree = p.parse(text, start=start)
    except Exception as e:
        return [canon_exc(e)]
    T = type('T', (ns.Transformer,), {})
    TN = type('TN', (ns.Transformer_NonRecursive,), {})
    fs = [lambda: canon((T() * T()).transform(tree)), lambda: canon(TN().transform(tree)),
          lambda: canon_tok(ns.Token(type_='A', value='x')),
          lambda: type(p.parse_interactive(text, start=start).lexer_state).__name__]
    for f in fs:
        try:
            with _w.catch_warnings():
                _w.simplefilter('ignore')
                out.append(f())
        except Exception as e:
            out.append(['raised', type(e).__name__, str(e)[:80]])
    return out

def observe(p, probes):
    """probes: list of [kind, text, start]; text is str or ['bytes', latin1]"""
    res = []
    for kind, text, start in probes:
        if isinstance(text, list):
            text = text[1].encode('latin-1')
        f = {'parse': obs_parse, 'interactive': obs_interactive, 'scan': obs_scan}[kind]
        res.append(f(p, text, start))
    return res
'''
_obs = {}
exec(OBSERVER_SRC, _obs)
observe = _obs['observe']
obs_witnesses = _obs['obs_witnesses']

RUNNER_SRC = OBSERVER_SRC + r'''
import sys, json, importlib.util
def main():
    jobs = json.load(sys.stdin)
    out = []
    for j in jobs:
        try:
            assert 'lark' not in sys.modules, 'the stand-alone module imported lark'
            spec = importlib.util.spec_from_file_location(j['name'], j['path'])
            mod = importlib.util.module_from_spec(spec)
            called = set()
            mpath = j['path']
            def prof(frame, event, arg, called=called, mpath=mpath):
                if event == 'call' and frame.f_code.co_filename == mpath:
                    called.add((frame.f_code.co_qualname, frame.f_code.co_firstlineno))
            spec.loader.exec_module(mod)
            assert 'lark' not in sys.modules, 'the stand-alone module imported lark'
            sys.setprofile(prof)
            try:
                p = mod.Lark_StandAlone(**j['kw'])
                wit = obs_witnesses(mod, p, j['wit'][0], j['wit'][1]) if j.get('wit') else None
                res = observe(p, j['probes'])
            finally:
                sys.setprofile(None)
            out.append({'ok': True, 'res': res, 'rules': len(p.rules), 'terminals': len(p.terminals),
                        'wit': wit, 'called': sorted(called)})
        except Exception as e:
            import traceback
            out.append({'ok': False, 'err': traceback.format_exc()[-1500:]})
    json.dump(out, sys.stdout)
main()
'''

# ----------------------------------------------------------------------------------------------- corpus
G_JSON = r'''
?start: value
?value: object | array | string | SIGNED_NUMBER -> number | "true" -> true | "false" -> false | "null" -> null
array  : "[" [value ("," value)*] "]"
object : "{" [pair ("," pair)*] "}"
pair   : string ":" value
string : ESCAPED_STRING
%import common.ESCAPED_STRING
%import common.SIGNED_NUMBER
%import common.WS
%ignore WS
'''
G_TEMPLATE = r'''
start: _list{item, ","} ";" _list{NUMBER, "+"}
_list{x, sep}: x (sep x)*
item: NAME | "(" _list{item, ","} ")" -> group
NAME: /[a-z_]+/
%import common.NUMBER
%import common.WS_INLINE
%ignore WS_INLINE
'''
G_PRIO = r'''
start: stmt+
stmt: kw | call | NAME ";" -> var
kw.2: "if" NAME ";"
call: NAME "(" [NAME] ")" ";"
IF.3: "if"
NAME: /[a-z]+/
WS: /[ \n]+/
%ignore WS
'''
G_RRPRIO = r'''
start: a | b
a.2: X
b: X
X: "x"
'''
G_FLAGS = r'''
start: (A | B | C | D)+
A: "abc"i
B: /[a-z]+/s
C: /\d+ \. \d*/x
D: /#.*?$/im
WS: /[ \n]+/
%ignore WS
'''
G_F20 = 'start: (A | B)+\nA: "abc"i\nB: /[a-z]+/s\n'
G_BYTES = r'''
start: (WORD | NUM | ";")+
WORD: /[a-z]+/
NUM: /[0-9]+/
%ignore /[ \n]+/
'''
G_PLACEHOLDER = r'''
start: "(" [A] b [C [D]] ")" e*
b: B? "!" | -> empty
e: "e" [A A]
!f: "x" "y"
A: "a"
B: "b"
C: "c"
D: "d"
%ignore " "
'''
G_ALIAS = r'''
start: expr (";" expr)*
?expr: term | expr "+" term -> add | expr "-" term -> sub
?term: atom | term "*" atom -> mul
?atom: NUMBER | "-" atom -> neg | "(" expr ")" | _hidden
_hidden: "<" NAME ">"
!kept: "[" "]"
NAME: /[a-z]+/
%import common.NUMBER
%import common.WS
%ignore WS
'''
G_MULTISTART = r'''
a: "x" b+
b: "y" | "z" c?
c: "(" a ")"
d: b "," b
%ignore " "
'''
G_LINES = r'''
start: line+
line: WORD+ NL | COMMENT NL
WORD: /[a-z]+/
COMMENT: /#[^\n]*/
NL: /\r?\n/
%ignore /[ \t]+/
'''
G_REGEXMOD = r'''
start: (WORD | NUM)+
WORD: /\p{Lu}\p{Ll}*/
NUM: /\p{Nd}+/
%ignore " "
'''
G_INDENT = r'''
start: stmt+
stmt: NAME _NL | NAME ":" _NL _INDENT stmt+ _DEDENT
%declare _INDENT _DEDENT
NAME: /[a-z]+/
_NL: /(\r?\n[\t ]*)+/
%ignore " "
'''
G_UNLESS = r'''
start: (KW | OTHER | NAME | NUM)+
KW: "while"
OTHER: "for"
NAME: /[a-z]+/
NUM: /\d+/
%ignore " "
'''


def g_many_terminals(n=120):
    lines = ['start: (kw | NAME | NUM)+', 'kw: ' + ' | '.join('K%d' % i for i in range(n))]
    for i in range(n):
        lines.append('K%d: "kw%dx"' % (i, i))
    lines += ['NAME: /[a-z][a-z0-9]*/', 'NUM: /[0-9]+/', '%ignore " "']
    return '\n'.join(lines) + '\n'


def g_many_seq(n=120):
    """more than 100 terminals but a small table: three long keyword sequences"""
    k = n // 3
    lines = ['start: (a | b | c)+',
             'a: ' + ' '.join('K%d' % i for i in range(0, k)),
             'b: ' + ' '.join('K%d' % i for i in range(k, 2 * k)) + ' NAME',
             'c: ' + ' '.join('K%d' % i for i in range(2 * k, n)) + ' NUM?']
    for i in range(n):
        lines.append('K%d: "k%d"' % (i, i))
    lines += ['NAME: /[a-z][a-z0-9]*/', 'NUM: /[0-9]+/', '%ignore " "']
    return '\n'.join(lines) + '\n'


def lark_lark():
    import lark
    return open(os.path.join(os.path.dirname(lark.__file__), 'grammars', 'lark.lark')).read()


# name -> (grammar text, option variants (dicts, beyond parser='lalr'), sample sentences, start symbols)
def corpus():
    c = []
    c.append(('json', G_JSON, [{}], ['{"a": [1, 2.5, -3e2, "x\\"y"], "b": {"c": null, "d": true}}', '[]', '[1,]', '{"a" 1}',
                                     '"abc', '  [ [ ] , false ]  ', '{"k": [1, {"z": "w"}]}\n'], ['start']))
    c.append(('template', G_TEMPLATE, [{}], ['a, b ; 1 + 2', '(a, (b, c)), d; 3', 'a ; ', 'a,, b; 1', '(a; 1', 'a;1+2+3'],
              ['start']))
    c.append(('prio', G_PRIO, [{}], ['if x; y; f(); g(a);', 'if ; x', 'f(a b);', 'x; if if;', 'iff;\nif z;'], ['start']))
    c.append(('rrprio', G_RRPRIO, [{}], ['x', 'xx', ''], ['start']))
    c.append(('flags', G_FLAGS, [{}, {'g_regex_flags': 2}], ['abc ABC xyz 12 . 5 #c\nq', 'aBc 1.\n#x', 'ABC ?', '12.5 . #'],
              ['start']))
    c.append(('f20', G_F20, [{}], ['ABC', 'abcABC', 'abc', 'xyz', 'aBcxyz!'], ['start']))
    c.append(('bytes', G_BYTES, [{'use_bytes': True}], [b'abc 12; x', b'abc \n\n 9 ?', b';;', b'ab\xe9'], ['start']))
    c.append(('placeholder', G_PLACEHOLDER, [{}], ['( a b ! c d ) e e a a', '( ! )', '()', '( b ! c ) e a', '( a ! d )', '(a!c)eaa e'],
              ['start', 'f']))
    c.append(('alias', G_ALIAS, [{}], ['1 + 2 * -3 ; (4 - <x>) * 5', '1 +', '<x', '((1))', '1 ; ; 2', '- - 1 * 2 - 3'],
              ['start', 'kept']))
    c.append(('multistart', G_MULTISTART, [{}], ['x y z ( x y )', 'x', 'x z ( x z', 'y , z', 'z ( x y ) , y', ','], ['a', 'd']))
    c.append(('lines', G_LINES, [{}], ['ab cd\n# c\nef\n', 'ab\r\ncd\n', 'ab\n\ncd', '# only', 'a\n b \n#\n?'], ['start']))
    c.append(('unless', G_UNLESS, [{}], ['while for whiles 12 x', 'for while', 'while!'], ['start']))
    c.append(('regexmod', G_REGEXMOD, [{'regex': True}], ['Ab Cde 12', 'Ab cd', 'Xy 7Zz', 'a'], ['start']))
    c.append(('indent', G_INDENT, [{'postlex': '@indenter'}], ['a\nb:\n  c\n  d:\n    e\nf\n', 'a:\n  b\n c\n', 'a\n', 'a:\nb\n', 'a b\n'],
              ['start']))
    c.append(('callbacks', G_UNLESS, [{'lexer_callbacks': '@upper'}], ['while for whiles 12 x', 'for while', 'while!'], ['start']))
    c.append(('many', g_many_terminals(), [{}], ['kw0x kw119x abc kw12x 77', 'kw5x kw5 kw55x', 'kw1x ?', 'kw118xkw3x'], ['start']))
    n = 120
    k = n // 3
    sa = ' '.join('k%d' % i for i in range(0, k))
    sb = ' '.join('k%d' % i for i in range(k, 2 * k)) + ' zed'
    sc = ' '.join('k%d' % i for i in range(2 * k, n))
    c.append(('manyseq', g_many_seq(n), [{}], [sa + ' ' + sb + ' ' + sc + ' 7 ' + sa, sb, sc + ' 12 ' + sc, sa + ' k1', 'k0 k2'], ['start']))
    c.append(('larklark', lark_lark(), [{}], ['start: "a" b\nb: /x/i | c -> d\n%import common.WS\n%ignore WS\n',
                                              'a: b+ [c]\n', 'A: "x"\n a:', '?x{t}: t ("," t)*\ny: x{A}\nA.2: "a"..\"z"\n'],
              ['start']))
    return c


RULE_NAMES = ['a', 'b', 'c', 'd']
TERMS = [('A', '"a"'), ('B', '"b"'), ('C', '/c+/'), ('D', '"d"i'), ('N', '/[0-9]+/'), ('W', '/[x-z]+/s')]


def random_grammar(rng):
    """small random grammar text; may be rejected by lark (conflicts) - the caller skips those"""
    nr = rng.randint(1, 3)
    names = ['start'] + RULE_NAMES[:nr]
    terms = rng.sample(TERMS, rng.randint(2, 5))
    lines = []
    for i, n in enumerate(names):
        alts = []
        for _ in range(rng.randint(1, 3)):
            items = []
            for _ in range(rng.randint(1, 3)):
                r = rng.random()
                if r < 0.55:
                    s = rng.choice(terms)[0]
                elif r < 0.8 and i + 1 < len(names):
                    s = rng.choice(names[i + 1:])
                else:
                    s = '"%s"' % rng.choice(['+', ',', '(', ')', '=', 'kw'])
                q = rng.random()
                if q < 0.12:
                    s = '[%s]' % s
                elif q < 0.2:
                    s += '?'
                elif q < 0.28:
                    s += '*'
                elif q < 0.34:
                    s += '+'
                elif q < 0.38:
                    s = '(%s %s)*' % (s, rng.choice(terms)[0])
                items.append(s)
            alt = ' '.join(items)
            if rng.random() < 0.2:
                alt += ' -> al%d' % rng.randint(0, 3)
            alts.append(alt)
        mod = rng.choice(['', '', '', '?', '!', '_']) if n != 'start' else ''
        if mod == '_':
            for k in range(len(lines)):
                lines[k] = re.sub(r'\b%s\b' % n, '_' + n, lines[k])
            nm = '_' + n
        else:
            nm = mod + n
        pr = '.%d' % rng.randint(1, 3) if rng.random() < 0.15 and n != 'start' else ''
        lines.append('%s%s: %s' % (nm, pr, ' | '.join(alts)))
    for t, pat in terms:
        pr = '.%d' % rng.randint(1, 2) if rng.random() < 0.15 else ''
        lines.append('%s%s: %s' % (t, pr, pat))
    if rng.random() < 0.7:
        lines.append('%ignore " "')
    frags = ['a', 'b', 'cc', 'c', 'd', 'D', '7', '42', 'xy', 'z', '+', ',', '(', ')', '=', 'kw', ' ']
    return '\n'.join(lines) + '\n', frags


def random_inputs(rng, frags, n):
    out = []
    for _ in range(n):
        out.append(''.join(rng.choice(frags) for _ in range(rng.randint(0, 7))))
    return out


def mutate(rng, s):
    if not s:
        return s + (b'x' if isinstance(s, bytes) else 'x')
    i = rng.randrange(len(s))
    k = rng.random()
    ins = rng.choice(['!', ' ', 'a', '(', '1', '\n'])
    if isinstance(s, bytes):
        ins = ins.encode()
    if k < 0.4:
        return s[:i] + s[i + 1:]
    if k < 0.7:
        return s[:i] + ins + s[i:]
    return s[:i] + ins + s[i + 1:]


def option_grid(rng, base, starts, n):
    """n option dicts for one grammar: the all-default one and random combinations"""
    out = []
    for k in range(n):
        o = dict(base)
        o['start'] = starts if len(starts) > 1 else starts[0]
        if k == 0:
            o['lexer'] = 'contextual'
        else:
            o['lexer'] = rng.choice(['basic', 'contextual'])
            o['keep_all_tokens'] = rng.random() < 0.4
            o['maybe_placeholders'] = rng.random() < 0.6
            o['propagate_positions'] = rng.random() < 0.6
        out.append(o)
    return out


def enc_text(t):
    return ['bytes', t.decode('latin-1')] if isinstance(t, bytes) else t


def make_probes(rng, samples, starts, extra, nmut):
    texts = list(samples)
    for s in samples:
        for _ in range(nmut):
            texts.append(mutate(rng, s))
    texts += extra
    seen, probes = set(), []
    for t in texts:
        for st in starts:
            for kind in ('parse', 'interactive', 'scan'):
                if kind != 'parse' and rng.random() < 0.5 and len(texts) > 6:
                    continue
                key = (kind, t, st)
                if key not in seen:
                    seen.add(key)
                    probes.append([kind, enc_text(t), st])
    return probes


# ----------------------------------------------------------------------------------------------- variants
def cb_upper(tok):
    """a lexer callback (module level, so that Lark.save can pickle the options)"""
    return tok.update(value=tok.value.upper())


def indenter_class():
    """a PostLex (module-level class so that it can be pickled); created lazily because lark is imported lazily"""
    if 'TreeIndenter' not in globals():
        from lark.indenter import Indenter
        cls = type('TreeIndenter', (Indenter,), dict(NL_type='_NL', OPEN_PAREN_types=[], CLOSE_PAREN_types=[],
                                                     INDENT_type='_INDENT', DEDENT_type='_DEDENT', tab_len=8,
                                                     __module__=__name__, __qualname__='TreeIndenter'))
        globals()['TreeIndenter'] = cls
    return globals()['TreeIndenter']


def resolve(opts):
    """option dicts stay JSON-able: objects are written as sentinels and created here"""
    o = dict(opts)
    if o.get('postlex') == '@indenter':
        o['postlex'] = indenter_class()()
    if o.get('lexer_callbacks') == '@upper':
        o['lexer_callbacks'] = {'NAME': cb_upper}
    return o


def has_objects(opts):
    return 'postlex' in opts or 'lexer_callbacks' in opts


def build(grammar, opts):
    from lark import Lark
    return Lark(grammar, parser='lalr', **resolve(opts))


def variant_load(p):
    from lark import Lark
    f = io.BytesIO()
    p.save(f)
    f.seek(0)
    return Lark.load(f)


def variant_cache(grammar, opts, path):
    from lark import Lark
    if os.path.exists(path):
        os.remove(path)
    first = Lark(grammar, parser='lalr', cache=path, **resolve(opts))
    if not os.path.exists(path):
        raise RuntimeError('no cache file written')
    second = Lark(grammar, parser='lalr', cache=path, **resolve(opts))
    loaded = not hasattr(second, 'grammar')       # a loaded instance never ran load_grammar
    return first, second, loaded


STANDALONE_FLAGS = ['keep_all_tokens', 'propagate_positions', 'maybe_placeholders', 'use_bytes']


def standalone_cmd(gpath, opath, opts, compress):
    cmd = [sys.executable, '-m', 'lark.tools.standalone', gpath, '-o', opath, '-l', opts.get('lexer', 'contextual')]
    st = opts.get('start', 'start')
    for s in ([st] if isinstance(st, str) else st):
        cmd += ['-s', s]
    for fl in STANDALONE_FLAGS:
        if opts.get(fl):
            cmd.append('--' + fl)
    if compress:
        cmd.append('--compress')
    return cmd


def standalone_equiv_opts(opts):
    """the options tools.build_lalr passes to Lark for the command line standalone_cmd builds"""
    o = {'start': opts.get('start', 'start'), 'lexer': opts.get('lexer', 'contextual'), 'debug': False, 'regex': False}
    if isinstance(o['start'], str):
        o['start'] = [o['start']]
    for fl in STANDALONE_FLAGS:
        o[fl] = bool(opts.get(fl))
    return o


def run_standalone(ctx, jobs):
    """jobs: list of dict(name, grammar, opts, compress, probes, kw). Returns list of results (dict ok/res/err)."""
    env = dict(os.environ)

    def gen(j):
        gp = os.path.join(ctx.scratch, j['name'] + '.lark')
        op = os.path.join(ctx.scratch, j['name'] + '.py')
        open(gp, 'w').write(j['grammar'])
        r = subprocess.run(standalone_cmd(gp, op, j['opts'], j['compress']), env=env, stdout=subprocess.PIPE,
                           stderr=subprocess.STDOUT, text=True, timeout=300)
        return op, r.returncode, r.stdout[-800:]
    with ThreadPoolExecutor(max_workers=min(8, max(1, len(jobs)))) as ex:
        gens = list(ex.map(gen, jobs))
    results = [None] * len(jobs)
    todo = []
    for k, (j, (op, rc, out)) in enumerate(zip(jobs, gens)):
        if rc != 0 or not os.path.exists(op) or os.path.getsize(op) == 0:
            results[k] = {'ok': False, 'err': 'generation failed rc=%s: %s' % (rc, out)}
        else:
            todo.append((k, {'name': 'sa_' + j['name'], 'path': op, 'kw': j.get('kw', {}), 'probes': j['probes'],
                             'wit': j.get('wit')}))
            j['module_path'] = op
    if todo:
        runner = os.path.join(ctx.scratch, 'sa_runner.py')
        open(runner, 'w').write(RUNNER_SRC)
        clean = {k: v for k, v in os.environ.items() if k not in ('PYTHONPATH',)}
        clean['PYTHONHASHSEED'] = os.environ.get('PYTHONHASHSEED', '0')
        # several runner processes, each handling a share of the modules
        nproc = min(6, len(todo))
        shares = [todo[i::nproc] for i in range(nproc)]

        def run(share):
            r = subprocess.run([sys.executable, '-I', '-S', runner], input=json.dumps([x[1] for x in share]), env=clean,
                               stdout=subprocess.PIPE, stderr=subprocess.PIPE, text=True, timeout=600, cwd=ctx.scratch)
            if r.returncode != 0:
                return [{'ok': False, 'err': 'runner rc=%d %s' % (r.returncode, r.stderr[-800:])}] * len(share)
            return json.loads(r.stdout)
        with ThreadPoolExecutor(max_workers=nproc) as ex:
            outs = list(ex.map(run, shares))
        for share, out in zip(shares, outs):
            for (k, _), o in zip(share, out):
                results[k] = o
    return results


# ----------------------------------------------------------------------------------------------- program tie
def check_standalone_program(ctx, sa_jobs):
    """the module the real tool wrote vs the program regenerated from the sources (Gen/Standalone.v): same top-level
    statements in the same order, same normalised-AST hash and references; and the closedness the Coq Example
    asserts, recomputed here so that a missing name is reported by name"""
    import builtins
    sys.path.insert(0, os.path.join(lib.VERIF, 'translator'))
    import gen_standalone as GS
    try:
        lib_entries, lib_provided = GS.library_program(lib.REPO)
    except Exception as e:
        ctx.violation('correspondence:standalone-program', {'no_longer_checks': 'sections can be extracted and parsed',
                                                            'error': str(e)[:400]}, False, 'library program: %s' % e)
        return
    txt = open(os.path.join(lib.COQ, 'Ser', 'StandaloneModel.v')).read()
    m = re.search(r'Definition declared_unprovided[^\[]*\[(.*?)\]\.', txt, re.S)
    declared = set(re.findall(r'"([^"]+)"', m.group(1)))
    known = set(lib_provided) | set(dir(builtins)) | set(GS.MODULE_DUNDERS)
    missing = {}
    for e in lib_entries:
        for r in e['refs']:
            if r not in known and r not in declared:
                missing.setdefault(r, []).append(e['label'])
    if missing:
        ctx.violation('correspondence:standalone-closed',
                      {'no_longer_checks': 'closed_program', 'missing_names': {k: v[:5] for k, v in missing.items()}}, False,
                      'extracted stand-alone code references %s which the generated module does not define'
                      % ', '.join('%s (in %s)' % (k, '/'.join(v[:3])) for k, v in sorted(missing.items())))
    plain = [j for j in sa_jobs if not j['compress'] and j.get('module_path')]
    for j in plain[:(len(plain) if ctx.thorough() else 1)]:
        try:
            gen_entries, _ = GS.analyse_module(open(j['module_path']).read())
        except Exception as e:
            ctx.violation('correspondence:standalone-ast', {'no_longer_checks': 'generated module parses', 'error': str(e)[:300]},
                          False, 'generated module: %s' % e)
            continue
        skip = {'DATA', 'MEMO', '__version__'}
        ge = [e for e in gen_entries if e['label'] not in skip]
        le = [e for e in lib_entries if e['label'] not in skip]
        drift = []
        sig = lambda e: (tuple(e['names']), e['kind'])
        if [sig(e) for e in ge] != [sig(e) for e in le]:
            drift.append('statement sequence differs: %s' % sorted(set(map(str, map(sig, ge))) ^ set(map(str, map(sig, le))))[:8])
        else:
            for e, x in zip(ge, le):
                if x['hash'] != e['hash'] or x['refs'] != e['refs']:
                    drift.append(e['label'])
        ctx.count('standalone-ast', key=j['name'], nontrivial=True, sa_definitions=len(ge))
        if drift:
            ctx.violation('correspondence:standalone-ast',
                          {'no_longer_checks': 'generated module definitions = regenerated library definitions', 'drift': drift[:12]},
                          False, 'definitions of the generated module differ from the sources: %s' % drift[:6])


# ----------------------------------------------------------------------------------------------- name-resolution tie
def unit_key_of(qualname):
    """code object of the generated module -> unit key of Gen/StandaloneUnits.v (nested functions, lambdas and
    comprehensions belong to the unit of the enclosing top-level function / method)"""
    parts = qualname.split('.<locals>')[0].split('.')
    parts = [x for x in parts if not x.startswith('<')]
    return '.'.join(parts[:2]) if parts else None


def check_called_units(ctx, sa_jobs, res):
    """every function / method the real generated modules called during Lark_StandAlone(...), parse, parse_interactive,
    scan and the transformer witnesses must be a unit the machine of Ser/NameRes.v can reach from the client
    (C11_standalone_client_runs_reached); Coq evaluates the membership (check_called over sa_reached)"""
    cases, tags = [], []
    for j, r in zip(sa_jobs, res):
        if not r or not r.get('ok') or r.get('called') is None:
            continue
        keys = sorted({k for k in (unit_key_of(q) for q, _ in r['called']) if k})
        cases.append(lib.coq_list([lib.coq_term_str(k) for k in keys]))
        tags.append((j['name'], keys))
        ctx.count('standalone-called-units', key=j['name'], nontrivial=len(keys) > 40, units=len(keys))
    if not cases:
        return
    bad, errs = ctx.coq_bad_indices('c11_called', 'From LV Require Import Ser.NameRes Ser.NameResInstance.', 'check_called',
                                    cases, chunk=50)
    for e in errs:
        ctx.violation('correspondence:coq-eval', {'no_longer_checks': 'called units in sa_reached', 'error': e[:300]}, False, e[:300])
    for i in bad:
        name, keys = tags[i]
        out = ctx.coq_eval('c11_called_which', 'From Coq Require Import List String Bool.\nFrom LV Require Import Ser.StandaloneModel '
                           'Ser.NameRes Ser.NameResInstance.', 'filter (fun k => negb (mem k sa_reached)) %s'
                           % lib.coq_list([lib.coq_term_str(k) for k in keys]))
        ctx.violation('correspondence:standalone-called-units',
                      {'no_longer_checks': 'the name-resolution model covers the functions the generated module really calls',
                       'module': name, 'not_in_model_closure': str(out)[:400]}, False,
                      'the generated module %s called functions the name-resolution model does not reach: %s' % (name, str(out)[:300]))


def cache_grammar_regression(ctx):
    """F53 (repaired): gen_standalone of an instance built with cache_grammar=True must parse like the original, plain
    and compressed (C11_standalone_cache_grammar_refuted is the model of the old generator)"""
    import lark
    from lark.tools import standalone
    g = G_JSON
    probes = [['parse', '{"a": [1, 2, {"b": null}], "c": "x"}', 'start'], ['parse', '[1, 2', 'start'],
              ['interactive', '[1, "a", true]', 'start']]
    cpath = os.path.join(ctx.scratch, 'cg_cache.bin')
    try:
        L = lark.Lark(g, parser='lalr', cache=cpath, cache_grammar=True)
    except Exception as e:
        ctx.note('cache_grammar regression skipped: %s' % e)
        return
    ref = jsonable(observe(L, probes))
    jobs = []
    for compress in (False, True):
        op = os.path.join(ctx.scratch, 'cg_%d.py' % compress)
        with open(op, 'w') as f:
            standalone.gen_standalone(L, out=f, compress=compress)
        jobs.append({'name': 'sa_cg_%d' % compress, 'path': op, 'kw': {}, 'probes': probes, 'wit': None})
    runner = os.path.join(ctx.scratch, 'sa_runner.py')
    open(runner, 'w').write(RUNNER_SRC)
    clean = {k: v for k, v in os.environ.items() if k not in ('PYTHONPATH',)}
    clean['PYTHONHASHSEED'] = os.environ.get('PYTHONHASHSEED', '0')
    r = subprocess.run([sys.executable, '-I', '-S', runner], input=json.dumps(jobs), env=clean, stdout=subprocess.PIPE,
                       stderr=subprocess.PIPE, text=True, timeout=300, cwd=ctx.scratch)
    outs = json.loads(r.stdout) if r.returncode == 0 else [{'ok': False, 'err': r.stderr[-600:]}] * 2
    for compress, o in zip((False, True), outs):
        ctx.count('standalone-cache-grammar', key=compress, nontrivial=True)
        if not o.get('ok') or o['res'] != ref:
            ctx.violation('differential:standalone-cache-grammar',
                          {'grammar_name': 'json', 'grammar': g, 'options': {'cache_grammar': True, 'cache': True},
                           'variant': 'standalone-cache-grammar', 'compress': compress,
                           'probe': probes[0], 'error': (o.get('err') or '')[-400:], 'expected': ref[0],
                           'observed': (o.get('res') or [None])[0]}, True,
                          'stand-alone module generated from a cache_grammar=True instance differs from the original '
                          '(NameError Grammar in Lark._load?)')


# ----------------------------------------------------------------------------------------------- comparison
def jsonable(x):
    return json.loads(json.dumps(x))


def first_diff(probes, ref, got):
    for pr, a, b in zip(probes, ref, got):
        if a != b:
            return pr, a, b
    if len(ref) != len(got):
        return ['<count>', '', None], len(ref), len(got)
    return None


def nontrivial_outcome(o):
    if isinstance(o, list) and o and o[0] == 'tree':
        return json.dumps(o).count('"tok"') >= 2
    if isinstance(o, list) and o and o[0] == 'error':
        return bool(o[2])
    if isinstance(o, list) and o and isinstance(o[0], list):
        return len(o) >= 2
    return False


def report_diff(ctx, stage, name, grammar, opts, variant, d, extra=None):
    pr, a, b = d
    w = {'grammar_name': name, 'grammar': grammar, 'options': {k: v for k, v in opts.items()}, 'variant': variant,
         'probe': pr, 'expected_original': a, 'observed': b}
    w.update(extra or {})
    ctx.violation(stage, w, True, '%s: %s %r (start=%s) differs between the original and the %s parser'
                  % (name, pr[0], pr[1], pr[2], variant))


# ----------------------------------------------------------------------------------------------- census / tracing
def parse_decl(name):
    txt = open(os.path.join(lib.COQ, 'Ser', 'Relevant.v')).read()
    m = re.search(r'Definition %s\b.*?:=\s*\[(.*?)\]\s*\.\s*\n' % name, txt, re.S)
    out = {}
    for cls, body in re.findall(r'\("(\w+)",\s*\[([^\]]*)\]\)', m.group(1)):
        out[cls] = re.findall(r'"([^"]+)"', body)
    return out


def traced_classes():
    from lark import Lark
    from lark.lexer import TerminalDef, PatternStr, PatternRE
    from lark.grammar import Rule, Terminal, NonTerminal, RuleOptions
    from lark.common import LexerConf, ParserConf
    from lark.parser_frontends import ParsingFrontend
    from lark.parsers.lalr_parser import LALR_Parser
    from lark.parsers.lalr_analysis import IntParseTable
    return {'Lark': Lark, 'ParsingFrontend': ParsingFrontend, 'LexerConf': LexerConf, 'ParserConf': ParserConf,
            'LALR_Parser': LALR_Parser, 'ParseTable': IntParseTable, 'TerminalDef': TerminalDef,
            'PatternStr': PatternStr, 'PatternRE': PatternRE, 'Rule': Rule, 'Terminal': Terminal,
            'NonTerminal': NonTerminal, 'RuleOptions': RuleOptions}


class ReadTracer:
    """records which instance attributes of the serialisable classes are read while active"""

    def __init__(self):
        self.reads = {}
        self.classes = traced_classes()

    def __enter__(self):
        reads = self.reads
        for nm, cls in self.classes.items():
            def ga(self_, name, _n=nm):
                v = object.__getattribute__(self_, name)
                if name[:2] != '__':
                    d = None
                    try:
                        d = object.__getattribute__(self_, '__dict__')
                    except AttributeError:
                        pass
                    if (d is not None and name in d) or (d is None and not callable(v) and name not in ('is_term',)):
                        reads.setdefault(_n, set()).add(name)
                return v
            cls.__getattribute__ = ga
        return self

    def __exit__(self, *a):
        for cls in self.classes.values():
            try:
                del cls.__getattribute__
            except AttributeError:
                pass


def instance_objects(p):
    """one representative object per class, reachable from a Lark instance"""
    fe = p.parser
    objs = {'Lark': [p], 'ParsingFrontend': [fe], 'LexerConf': [fe.lexer_conf], 'ParserConf': [fe.parser_conf],
            'LALR_Parser': [fe.parser], 'ParseTable': [fe.parser._parse_table], 'TerminalDef': list(p.terminals),
            'Rule': list(p.rules), 'RuleOptions': [r.options for r in p.rules]}
    objs['PatternStr'] = [t.pattern for t in p.terminals if type(t.pattern).__name__ == 'PatternStr']
    objs['PatternRE'] = [t.pattern for t in p.terminals if type(t.pattern).__name__ == 'PatternRE']
    syms = [s for r in p.rules for s in [r.origin] + list(r.expansion)]
    objs['Terminal'] = [s for s in syms if s.is_term]
    objs['NonTerminal'] = [s for s in syms if not s.is_term]
    return objs


def attrs_of(o):
    names = set(getattr(o, '__dict__', {}).keys())
    for c in type(o).__mro__:
        for s in getattr(c, '__slots__', ()):
            if hasattr(o, s):
                names.add(s)
    if type(o).__name__ == 'PatternRE' and o._width is not None:
        names.add('_width')
    return names


def census_check(ctx, name, p, q, relevant, notread):
    po, qo = instance_objects(p), instance_objects(q)
    for cls in relevant:
        for a, b in zip(po.get(cls, []), qo.get(cls, [])):
            missing = attrs_of(a) - attrs_of(b)
            if not missing <= set(notread.get(cls, [])):
                ctx.violation('correspondence:attribute-census', {'no_longer_checks': 'NotRead declaration', 'grammar_name': name,
                                                                  'class': cls, 'missing_after_load': sorted(missing)}, False,
                              'attributes %s of %s exist on the original but not on the loaded instance and are not declared NotRead'
                              % (sorted(missing - set(notread.get(cls, []))), cls))
                return
            lack = set(relevant[cls]) - attrs_of(b) - {'_width'}
            if lack:
                ctx.violation('correspondence:attribute-census', {'no_longer_checks': 'Relevant attributes restored', 'grammar_name': name,
                                                                  'class': cls, 'not_restored': sorted(lack)}, False,
                              'Relevant attributes %s of %s are not set on the loaded instance' % (sorted(lack), cls))
                return


def poison_notread(p, notread):
    for cls, objs in instance_objects(p).items():
        for o in objs[:1] if cls in ('Lark', 'LALR_Parser', 'LexerConf') else []:
            for a in notread.get(cls, []):
                if a in getattr(o, '__dict__', {}):
                    delattr(o, a)


# ----------------------------------------------------------------------------------------------- Coq cases
def coq_cases_for(p, grammar, opts, idx, kws, with_table):
    """Coq case terms (with their definitions) for one original instance: what the real save / _load /
    ParseTable.serialize did, to be reproduced by the model."""
    from lark import Lark
    from lark.lexer import TerminalDef
    from lark.grammar import Rule
    from lark.utils import SerializeMemoizer
    from lark.lark import _LOAD_ALLOWED_OPTIONS
    from lark.exceptions import ConfigurationError
    nm, opq = E.Namer('c%d' % idx), E.Opaque()
    cases, labels = [], []
    inst = nm.intern('inst', E.instance(p, nm, opq))
    allowed = sorted(_LOAD_ALLOWED_OPTIONS)
    d = saved_dict(p)
    dv, mv = nm.intern('data', E.value(d['data'], opq)), nm.intern('memo', E.value(d['memo'], opq))
    cases.append('CSave %s [] %s %s' % (inst, dv, mv))
    labels.append('save')
    # the cache path writes save(f, _LOAD_ALLOWED_OPTIONS): same dict, options filtered
    d2 = saved_dict(p, allowed)
    same = dict(d2['data'])
    same['options'] = d['data']['options']
    if same != d['data'] or d2['memo'] != d['memo'] or list(d2['data']) != list(d['data']):
        cases.append('CSave %s %s %s %s' % (inst, E.L([E.S(x) for x in allowed]), E.value(d2['data'], opq), E.value(d2['memo'], opq)))
    else:
        cases.append('CSaveOpts %s %s %s %s %s' % (inst, E.L([E.S(x) for x in allowed]), dv, mv, E.value(d2['data']['options'], opq)))
    labels.append('save-excl-allowed')
    for kw in kws:
        try:
            q = Lark._load_from_dict(d['data'], d['memo'], **kw)
            exp = '(Some %s)' % E.instance(q, nm, opq)
        except ConfigurationError:
            exp = 'None'
        cases.append('CLoad %s %s %s %s' % (dv, mv, E.options(kw, opq), exp))
        labels.append('load kw=%s' % sorted(kw))
    if with_table:
        m = SerializeMemoizer([TerminalDef, Rule])
        pt = p.parser.parser._parse_table
        tv = pt.serialize(m)
        cases.append('CTable %s %s %s' % (E.table(pt, nm), E.value(tv, opq), E.value(m.serialize(), opq)))
        labels.append('table')
    cases.append('CBuild %s %s %s' % (E.gpart(p, nm), nm.intern('opts', E.options(p.options.options, opq)), inst))
    labels.append('build')
    return nm.defs, cases, labels


def saved_dict(p, excl=()):
    """the object Lark.save hands to pickle.dump, captured before pickling (pickle copies pass-through objects,
    the export numbers them by identity)"""
    import lark.lark as LL
    box = []
    real = LL.pickle.dump
    LL.pickle.dump = lambda obj, f, protocol=None: box.append(obj)
    try:
        p.save(io.BytesIO(), excl)
    finally:
        LL.pickle.dump = real
    return box[0]


def run_coq_jobs(ctx, jobs):
    """jobs: list of (tag, defs, cases, labels). Returns list of (tag, label) that failed + errors."""
    def one(j):
        k, (tag, defs, cases, labels) = j
        txt = ('%s\nFrom Coq Require Import List String Ascii ZArith NArith Bool.\nImport ListNotations.\n'
               'Open Scope string_scope.\n%s\nDefinition lv_cases := [\n%s\n].\n'
               'Definition lv_result := Eval vm_compute in map check_case lv_cases.\nPrint lv_result.\n'
               % (IMPORTS, '\n'.join(defs), ';\n'.join(cases)))
        rc, out = ctx.coq_run('c11_%d' % k, txt, timeout=600)
        flat = ' '.join(out.split())
        m = re.search(r'lv_result = \[([^\]]*)\]', flat)
        if rc != 0 or not m:
            return tag, None, 'rc=%d %s' % (rc, out[-600:])
        vals = [x.strip() for x in m.group(1).split(';')]
        return tag, [lab for lab, v in zip(labels, vals) if v != 'true'], None
    with ThreadPoolExecutor(max_workers=min(lib.NCPU, max(1, len(jobs)))) as ex:
        res = list(ex.map(one, enumerate(jobs)))
    ctx.coq_cases_checked += sum(len(j[2]) for j in jobs)
    return res


# ----------------------------------------------------------------------------------------------- the streams
def exportable(grammar):
    return all(ord(ch) < 256 for ch in grammar)


def correspond(ctx):
    cache_shared_path_stream(ctx)
    from lark.exceptions import GrammarError, ConfigurationError, LarkError
    rng = ctx.rng
    relevant, notread = parse_decl('Relevant'), parse_decl('NotRead')
    widen = 2 if ctx.widen else 1
    n_opt = ctx.scale(2, 4) * widen
    n_rand = ctx.scale(14, 100) * widen
    n_mut = ctx.scale(2, 5)
    n_sa = ctx.scale(10, 40) * widen          # stand-alone modules (each plain + compress)
    n_coq = ctx.scale(22, 80) * widen

    combos = []        # (name, grammar, opts, probes)
    for name, g, bases, samples, starts in corpus():
        isbytes = any(isinstance(s, bytes) for s in samples)
        for base in bases:
            for opts in option_grid(rng, base, starts, n_opt if name != 'many' else max(1, n_opt - 1)):
                extra = [] if isbytes else random_inputs(rng, [s[:3] for s in samples if s] + [' ', '\n'], 3)
                combos.append((name, g, opts, make_probes(rng, samples, starts, extra, n_mut)))
    tried = 0
    while sum(1 for c in combos if c[0].startswith('rand')) < n_rand and tried < n_rand * 8:
        tried += 1
        g, frags = random_grammar(rng)
        opts = option_grid(rng, {}, ['start'], 2)[1]
        try:
            build(g, opts)
        except (GrammarError, LarkError, AssertionError):
            continue
        inputs = random_inputs(rng, frags, 10)
        combos.append(('rand%d' % tried, g, opts, make_probes(rng, inputs, ['start'], [], 0)))

    # which combinations are also evaluated by the Coq model / turned into stand-alone modules: spread over the corpus
    by_name = {}
    for i, c in enumerate(combos):
        by_name.setdefault(c[0], []).append(i)
    fixed = [n for n in by_name if not n.startswith('rand')]
    rands = [n for n in by_name if n.startswith('rand')]
    coq_sel, sa_sel = set(), set()
    for n in fixed:
        if n != 'many':
            coq_sel.update(by_name[n] if (ctx.thorough() or ctx.widen) else by_name[n][:1])
    for n in rands[:max(0, n_coq - len(coq_sel))][:ctx.scale(4, 40)]:
        coq_sel.update(by_name[n])
    sa_ok = [n for n in fixed if not has_objects(combos[by_name[n][0]][2]) and n != 'regexmod']
    must = [n for n in ('template', 'f20', 'bytes', 'multistart') if n in sa_ok]
    rest = [n for n in sa_ok if n not in must]
    chosen = sa_ok if (ctx.thorough() or ctx.widen) else must + rng.sample(rest, max(0, min(len(rest), n_sa - len(must) - 2)))
    for n in chosen:
        sa_sel.update(by_name[n] if ctx.thorough() else by_name[n][-1:])
    for n in rands[:ctx.scale(2, 12)]:
        sa_sel.update(by_name[n])
    coq_jobs, sa_jobs, sa_meta = [], [], []
    traced = 0
    for ci, (name, g, opts, probes) in enumerate(combos):
        try:
            p = build(g, opts)
        except Exception as e:
            ctx.note('construction of %s with %r failed: %s' % (name, opts, type(e).__name__))
            continue
        ref = jsonable(observe(p, probes))
        hist = dict(lexer=opts.get('lexer'), kat=bool(opts.get('keep_all_tokens')), pp=bool(opts.get('propagate_positions')))

        def compare(variant, q, kwnote=None):
            try:
                got = jsonable(observe(q, probes))
            except Exception:
                got = [['harness-error', traceback.format_exc()[-300:]]]
            for pr, o in zip(probes, ref):
                ctx.count('diff:' + variant, key=(name, json.dumps(opts, sort_keys=True, default=str), json.dumps(pr)),
                          nontrivial=nontrivial_outcome(o), **hist)
            d = first_diff(probes, ref, got)
            if d:
                report_diff(ctx, 'differential:' + variant, name, g, opts, variant, d, kwnote)
            return d

        # --- load(save)
        try:
            q = variant_load(p)
            compare('load', q)
            census_check(ctx, name, p, q, relevant, notread)
            if [str(x) for x in q.rules] != [str(x) for x in p.rules] or \
                    [(t.name, t.pattern.to_regexp(), t.priority) for t in q.terminals] != \
                    [(t.name, t.pattern.to_regexp(), t.priority) for t in p.terminals]:
                ctx.violation('differential:load', {'grammar_name': name, 'grammar': g, 'options': opts, 'variant': 'load',
                                                    'probe': ['accessors', '', None]}, True,
                              'Lark.rules / Lark.terminals differ after load')
        except Exception as e:
            ctx.violation('differential:load', {'grammar_name': name, 'grammar': g, 'options': opts, 'variant': 'load',
                                                'probe': ['<load>', '', None], 'exception': traceback.format_exc()[-800:]}, True,
                          'Lark.load(save) raised %s' % type(e).__name__)
            q = None
        # --- cache
        try:
            first, second, loaded = variant_cache(g, opts, os.path.join(ctx.scratch, 'cache_%d.bin' % ci))
            if not loaded:
                ctx.violation('correspondence:cache-not-used', {'no_longer_checks': 'second construction served from cache',
                                                                'grammar_name': name, 'options': opts}, False,
                              'the second construction with cache=path did not load the cache file')
            compare('cache', second)
            compare('cache-first', first)
        except Exception as e:
            ctx.violation('differential:cache', {'grammar_name': name, 'grammar': g, 'options': opts, 'variant': 'cache',
                                                 'probe': ['<cache>', '', None], 'exception': traceback.format_exc()[-800:]}, True,
                          'construction with cache= raised %s' % type(e).__name__)
        # --- load-time keyword arguments = direct construction with them
        if q is not None and rng.random() < ctx.scale(0.5, 0.9):
            f = io.BytesIO()
            p.save(f)
            f.seek(0)
            d = pickle.load(f)
            from lark import Lark
            isb = bool(opts.get('use_bytes'))
            kw_choices = [{'propagate_positions': not opts.get('propagate_positions', False)}, {'g_regex_flags': 2},
                          {'debug': True}, {'tree_class': None}, {'use_bytes': not isb}, {'regex': not opts.get('regex', False)}]
            for kw in ([rng.choice(kw_choices)] if not ctx.widen else kw_choices):
                o2 = dict(opts)
                o2.update(kw)
                try:
                    direct = build(g, o2)
                except Exception:
                    continue
                pr2 = probes
                if 'use_bytes' in kw:     # feed the kind of text the option asks for
                    pr2 = []
                    for k_, t_, s_ in probes:
                        try:
                            t2 = ['bytes', t_.encode('ascii').decode('latin-1')] if not isb else t_[1].encode('latin-1').decode('ascii')
                        except (UnicodeError, AttributeError):
                            continue
                        pr2.append([k_, t2, s_])
                ref2 = jsonable(observe(direct, pr2))
                try:
                    got2 = jsonable(observe(Lark._load_from_dict(d['data'], d['memo'], **kw), pr2))
                except Exception:
                    got2 = [['load-raised', traceback.format_exc()[-400:]]]
                for pr in pr2:
                    ctx.count('diff:load-kw', key=(name, json.dumps(o2, sort_keys=True, default=str), json.dumps(pr)), nontrivial=True)
                dd = first_diff(pr2, ref2, got2)
                if dd:
                    report_diff(ctx, 'differential:load-kw', name, g, opts, 'load-kw', dd, {'load_kw': {k: v for k, v in kw.items()}})
            # construction-time options must be refused at load time
            for bad in ({'keep_all_tokens': True}, {'maybe_placeholders': False}, {'start': 'b'}, {'lexer': 'basic'}):
                try:
                    Lark._load_from_dict(d['data'], d['memo'], **bad)
                    ctx.violation('differential:load-kw', {'grammar_name': name, 'grammar': g, 'options': opts, 'variant': 'load-rejects',
                                                           'load_kw': bad, 'probe': ['<load>', '', None]}, True,
                                  'construction-time option %s accepted at load time (its effect is frozen in the saved data)' % list(bad))
                except ConfigurationError:
                    pass
                ctx.count('diff:load-rejects', key=(name, str(bad)), nontrivial=True)
        # --- NotRead really unread; Relevant covers the reads
        if traced < ctx.scale(6, 30) and q is not None and name != 'many':
            traced += 1
            p2 = build(g, opts)
            poison_notread(p2, notread)
            got = jsonable(observe(p2, probes))
            dd = first_diff(probes, ref, got)
            if dd:
                ctx.violation('correspondence:notread', {'no_longer_checks': 'NotRead attributes are not read', 'grammar_name': name,
                                                         'probe': dd[0]}, False, 'deleting the NotRead attributes changed an outcome')
            fb = io.BytesIO()
            p.save(fb)
            fb.seek(0)
            from lark import Lark as _Lark
            with ReadTracer() as tr:
                q3 = _Lark.load(fb)
                observe(q3, probes[:12])
            for cls, names in tr.reads.items():
                extra = names - set(relevant.get(cls, [])) - {'_parse_tree_builder', 'source_path'}
                if extra:
                    ctx.violation('correspondence:relevant', {'no_longer_checks': 'Relevant covers the attributes read', 'class': cls,
                                                              'read_but_not_declared': sorted(extra), 'grammar_name': name}, False,
                                  'loaded parser reads %s.%s which Ser/Relevant.v does not declare' % (cls, sorted(extra)))
            ctx.count('relevant-trace', key=(name, str(opts)), nontrivial=True)
        # --- Coq: the model reproduces what the real serialiser did
        if ci in coq_sel and exportable(g):
            try:
                allkw = [{'propagate_positions': not p.options.propagate_positions}, {'g_regex_flags': 2, 'debug': True},
                         {'keep_all_tokens': True}, {'maybe_placeholders': False, 'use_bytes': False}, {'start': 'x'},
                         {'use_bytes': not p.options.use_bytes}]
                kws = [{}] + (allkw if ctx.widen or ctx.thorough() else rng.sample(allkw, 2))
                defs, cases, labels = coq_cases_for(p, g, opts, ci, kws, with_table=(len(coq_jobs) % 3 == 0 or name == 'manyseq'))
                coq_jobs.append(((name, ci), defs, cases, labels))
            except E.NotExportable as e:
                ctx.note('not exported to Coq: %s (%s)' % (name, e))
            except Exception as e:
                ctx.violation('correspondence:export', {'no_longer_checks': 'object graph has the attributes of the typed model',
                                                        'grammar_name': name, 'grammar': g, 'options': {k: str(v) for k, v in opts.items()},
                                                        'exception': traceback.format_exc()[-600:]}, False,
                              'exporting the original / loaded object graph raised %s: %s' % (type(e).__name__, e))
        # --- stand-alone
        if ci in sa_sel and not opts.get('g_regex_flags') and len(sa_jobs) < 2 * n_sa:
            eq = standalone_equiv_opts(opts)
            try:
                pe = build(g, eq)
            except Exception:
                pe = None
            if pe is not None:
                refe = jsonable(observe(pe, probes))
                wit, refw = None, None
                if isinstance(probes[0][1], str):
                    import lark as _lark
                    wit = [probes[0][1], probes[0][2]]
                    refw = jsonable(obs_witnesses(_lark, pe, wit[0], wit[1]))
                for compress in (False, True):
                    sa_jobs.append({'name': 'm%d_%d' % (ci, compress), 'grammar': g, 'opts': opts, 'compress': compress,
                                    'probes': probes, 'kw': {}, 'wit': wit})
                    sa_meta.append((name, g, eq, probes, refe, compress, refw))
    if combos:
        ctx.sample({'grammar': combos[0][0], 'options': {k: str(v) for k, v in combos[0][2].items()}, 'probe': combos[0][3][0]})

    # stand-alone modules, generated by the command line tool and executed in clean subprocesses
    if sa_jobs:
        res = run_standalone(ctx, sa_jobs)
        check_standalone_program(ctx, sa_jobs)
        for (name, g, eq, probes, refe, compress, refw), r in zip(sa_meta, res):
            variant = 'standalone-compress' if compress else 'standalone'
            if not r or not r.get('ok'):
                ctx.violation('differential:' + variant, {'grammar_name': name, 'grammar': g, 'options': eq, 'variant': variant,
                                                         'probe': ['<generate/import>', '', None], 'error': (r or {}).get('err')}, True,
                              'stand-alone module could not be generated / imported / instantiated')
                continue
            for pr, o in zip(probes, refe):
                ctx.count('diff:' + variant, key=(name, json.dumps(eq, sort_keys=True, default=str), json.dumps(pr)),
                          nontrivial=nontrivial_outcome(o))
            d = first_diff(probes, refe, r['res'])
            if d:
                report_diff(ctx, 'differential:' + variant, name, g, eq, variant, d)
            if refw is not None:
                ctx.count('diff:standalone-witness', key=(name, compress), nontrivial=True)
                if r.get('wit') != refw:
                    ctx.violation('differential:standalone-witness',
                                  {'grammar_name': name, 'grammar': g, 'options': eq, 'variant': variant,
                                   'probe': ['witness', probes[0][1], probes[0][2]], 'expected_library': refw,
                                   'observed': r.get('wit')}, True,
                                  'transformer chain / non-recursive transformer / Token(type_=) / lexer_state behave differently '
                                  'in the generated module (a name its header does not provide?)')

        check_called_units(ctx, sa_jobs, res)
        cache_grammar_regression(ctx)

    # Coq evaluation
    if coq_jobs:
        for tag, bad, err in run_coq_jobs(ctx, coq_jobs):
            if err:
                ctx.violation('correspondence:coq-eval', {'no_longer_checks': 'model evaluation', 'case': list(tag), 'error': err}, False, err[:300])
            elif bad:
                g = [c for c in combos if c[0] == tag[0]][0]
                ctx.violation('correspondence:Ser/Serialize vs lark save/_load/ParseTable.serialize',
                              {'no_longer_checks': 'model reproduces the real serialised form / loaded object graph',
                               'grammar_name': tag[0], 'grammar': g[1], 'options': {k: str(v) for k, v in g[2].items()},
                               'failed_cases': bad}, False,
                              'model and implementation disagree on %s for grammar %s' % (bad, tag[0]))
        ctx.count('coq-model', key='jobs', nontrivial=False, coq_jobs=len(coq_jobs))


# ----------------------------------------------------------------------------------------------- replay

def cache_shared_path_stream(ctx):
    """One cache path reused by constructions that differ in an option (including import_paths): every cache-served
    parser must still equal the directly built one (C11's cache leg; the cache protocol itself is C12's)."""
    from lark import Lark
    rng = ctx.rng
    base = os.path.join(ctx.scratch, 'shared')
    os.makedirs(base, exist_ok=True)
    dirs = []
    bodies = ['item: "a" "b"\n', 'item: "a" "c"+\n', 'item: "b" | "a" item\n']
    for k, body in enumerate(bodies):
        d = os.path.join(base, 'ip%d' % k)
        os.makedirs(d, exist_ok=True)
        open(os.path.join(d, 'lib.lark'), 'w').write(body)
        dirs.append(d)
    g = 'start: item ("," [item])*\n%import lib.item\n'
    probes = [['parse', t, 'start'] for t in ['ab', 'acc', 'b', 'aab', 'ab,ab', 'ab,', 'acc,ac,', 'x', '']]
    path = os.path.join(base, 'one.cache')
    variants = [dict(import_paths=[dirs[0]]), dict(import_paths=[dirs[1]]), dict(import_paths=[dirs[2], dirs[0]]),
                dict(import_paths=[dirs[0]], keep_all_tokens=True), dict(import_paths=[dirs[0]], maybe_placeholders=False),
                dict(import_paths=[dirs[1]], propagate_positions=True), dict(import_paths=[dirs[0], dirs[2]])]
    # imports through a user package loader: editing the package's grammar between constructions must invalidate the cache
    import sys as _sys
    from lark.load_grammar import FromPackageLoader
    pkgname = 'lv_c11pkg_%d' % rng.randint(0, 10 ** 9)
    pkgdir = os.path.join(base, pkgname)
    os.makedirs(os.path.join(pkgdir, 'grammars'), exist_ok=True)
    open(os.path.join(pkgdir, '__init__.py'), 'w').write('')
    libp = os.path.join(pkgdir, 'grammars', 'lib.lark')
    _sys.path.insert(0, base)
    try:
        ppath = os.path.join(base, 'pkg.cache')
        loader = FromPackageLoader(pkgname, ('grammars',))
        for step, body in enumerate([bodies[0], bodies[0], bodies[1], bodies[1], bodies[2], bodies[0]]):
            open(libp, 'w').write(body)
            try:
                direct = jsonable(observe(Lark(g, parser='lalr', import_paths=[loader]), probes))
                cached = jsonable(observe(Lark(g, parser='lalr', cache=ppath, import_paths=[loader]), probes))
            except Exception as e:  # noqa
                ctx.violation('differential:cache-shared-path', {'grammar': g, 'variant': 'cache-shared-path', 'package_import_step': step,
                                                                 'exception': traceback.format_exc()[-600:]}, True,
                              'construction with a package-loader import raised %s' % type(e).__name__)
                break
            ctx.count('cache-shared-path', key=('pkg', step), nontrivial=step > 0)
            if direct != cached:
                ctx.violation('differential:cache-shared-path',
                              {'grammar': g, 'variant': 'cache-shared-path', 'libs': bodies, 'package_import_step': step}, True,
                              'after editing a grammar imported through FromPackageLoader (step %d) the cache-served parser '
                              'differs from the direct build' % step)
                break
    finally:
        _sys.path.remove(base)
        _sys.modules.pop(pkgname, None)
    for rnd in range(ctx.scale(3, 12)):
        seq = [rng.choice(variants) for _ in range(rng.randint(3, 6))]
        if os.path.exists(path):
            os.remove(path)
        for step, o in enumerate(seq):
            try:
                direct = jsonable(observe(Lark(g, parser='lalr', **o), probes))
                cached = jsonable(observe(Lark(g, parser='lalr', cache=path, **o), probes))
            except Exception as e:  # noqa
                ctx.violation('differential:cache-shared-path', {'grammar': g, 'variant': 'cache-shared-path',
                                                                 'history': [_strip(x, base) for x in seq[:step + 1]],
                                                                 'exception': traceback.format_exc()[-600:]}, True,
                              'construction on a shared cache path raised %s' % type(e).__name__)
                break
            ctx.count('cache-shared-path', key=(rnd, step, repr(_strip(o, base))), nontrivial=step > 0)
            if direct != cached:
                ctx.violation('differential:cache-shared-path',
                              {'grammar': g, 'variant': 'cache-shared-path', 'libs': bodies,
                               'history': [_strip(x, base) for x in seq[:step + 1]]}, True,
                              'after %d constructions on one cache path the cache-served parser differs from the direct build '
                              'for options %s' % (step + 1, _strip(o, base)))
                break


def _strip(o, base):
    o = dict(o)
    if 'import_paths' in o:
        o['import_paths'] = [os.path.basename(x) for x in o['import_paths']]
    return o


def replay(ctx, case):
    w = case['witness']
    if w.get('variant') == 'cache-shared-path':
        c2 = type(ctx)(ctx.prop, ctx.tier, ctx.seed)
        try:
            cache_shared_path_stream(c2)
            return any(v['stage'] == 'differential:cache-shared-path' for v in c2.violations)
        finally:
            c2.cleanup()
    if w.get('variant') == 'standalone-cache-grammar':
        c2 = type(ctx)(ctx.prop, ctx.tier, ctx.seed)
        try:
            cache_grammar_regression(c2)
            return any(v['stage'] == 'differential:standalone-cache-grammar' for v in c2.violations)
        finally:
            c2.cleanup()
    if 'grammar' not in w or 'variant' not in w:
        return False
    g, opts, variant, pr = w['grammar'], dict(w.get('options', {})), w['variant'], w.get('probe')
    from lark import Lark
    from lark.exceptions import ConfigurationError
    try:
        if variant in ('standalone', 'standalone-compress'):
            p = build(g, opts)
            probes = [pr] if pr and pr[0] in ('parse', 'interactive', 'scan') else [['parse', '', None]]
            ref = jsonable(observe(p, probes))
            o = dict(opts)
            r = run_standalone(ctx, [{'name': 'replay', 'grammar': g, 'opts': o, 'compress': variant.endswith('compress'),
                                      'probes': probes, 'kw': {}}])[0]
            return (not r.get('ok')) or r['res'] != ref
        p = build(g, opts)
        if variant == 'load-rejects':
            f = io.BytesIO(); p.save(f); f.seek(0); d = pickle.load(f)
            try:
                Lark._load_from_dict(d['data'], d['memo'], **w['load_kw'])
                return True
            except ConfigurationError:
                return False
        if pr is None or pr[0] not in ('parse', 'interactive', 'scan'):
            try:
                q = variant_load(p) if variant == 'load' else variant_cache(g, opts, os.path.join(ctx.scratch, 'r.bin'))[1]
                return [str(x) for x in q.rules] != [str(x) for x in p.rules]
            except Exception:
                return True
        if variant == 'load-kw':
            kw = w['load_kw']
            o2 = dict(opts); o2.update(kw)
            ref = jsonable(observe(build(g, o2), [pr]))
            f = io.BytesIO(); p.save(f); f.seek(0); d = pickle.load(f)
            try:
                got = jsonable(observe(Lark._load_from_dict(d['data'], d['memo'], **kw), [pr]))
            except Exception:
                return True
            return ref != got
        ref = jsonable(observe(p, [pr]))
        if variant == 'load':
            q = variant_load(p)
        elif variant == 'cache':
            q = variant_cache(g, opts, os.path.join(ctx.scratch, 'r.bin'))[1]
        elif variant == 'cache-first':
            q = variant_cache(g, opts, os.path.join(ctx.scratch, 'r.bin'))[0]
        else:
            return False
        return jsonable(observe(q, [pr])) != ref
    except Exception:
        return True
