"""EBNF-level source grammars (text) with an independent expander.

Used by C01's `construct` stream: parser construction for a well-formed grammar must terminate and may fail only
with the documented GrammarError ("Rules defined twice ... colliding expansion of optionals"); when it succeeds the
parser must accept exactly the language of the source grammar.

Source AST (what the text says, nothing of lark's compilation):
    grammar : {rule name: alts}           alts = [seq, ...], seq = [item, ...]
    item    : ('t', NAME)                 named terminal  NAME: "c"   (kept in the tree)
              ('l', 'c')                  anonymous literal "c"        (filtered out of the tree)
              ('n', name)                 rule reference
              ('grp', alts)               ( ... | ... )
              ('opt', item)               item?
              ('star', item) ('plus', item) ('rep', item, mn, mx)      item* item+ item~mn..mx
              ('br', alts)                [ ... | ... ]  (optional with None placeholders, maybe_placeholders=True)

expand(grammar) distributes groups, expands the operators and returns flat rules.  A `[...]` contributes, besides
its alternatives, one alternative made of k placeholder marks, k = the number of tree-visible symbols of its longest
alternative (lark pads the tree with that many None).  Alternatives that are identical *including* marks are one
alternative.  The documented GrammarError is expected exactly when a rule then has two alternatives that differ only
in their marks and are non-empty once the marks are erased ("optional items expanding to identical alternatives").
Helper rules for * and + are shared between occurrences with the same operand text (as lark's rule cache does);
this only matters for that collision test.
"""
import itertools

MARK = ('mark',)


def _key(item):
    k = item[0]
    if k in ('t', 'l', 'n'):
        return item
    if k in ('grp', 'br'):
        return (k, tuple(tuple(_key(x) for x in seq) for seq in item[1]))
    if k == 'rep':
        return (k, _key(item[1]), item[2], item[3])
    return (k, _key(item[1]))


def _dedup(seqs):
    out = []
    for s in seqs:
        if s not in out:
            out.append(s)
    return out


def visible_size(item):
    """number of tree-visible symbols lark's FindRuleSize computes"""
    k = item[0]
    if k == 't' or k == 'n':
        return 0 if item[1].startswith('_') else 1
    if k == 'l':
        return 0
    if k in ('grp', 'br'):
        return max(sum(visible_size(x) for x in seq) for seq in item[1])
    if k == 'opt':
        return visible_size(item[1])
    if k in ('star', 'plus'):
        return 0                       # helper rule names start with an underscore
    if k == 'rep':
        return item[3] * visible_size(item[1])
    raise ValueError(item)


class Expander:
    def __init__(self, grammar):
        self.grammar = grammar
        self.helpers = {}              # operand key -> helper name
        self.flat = {}                 # rule name -> [marked sequence, ...]
        self.pending = []
        for name, alts in grammar.items():
            self.flat[name] = self.alts(alts)
        while self.pending:
            name, inner = self.pending.pop(0)
            body = self.item(inner)
            self.flat[name] = _dedup(body + [((('n', name),) + s) for s in body])

    def helper(self, inner):
        k = _key(inner)
        if k not in self.helpers:
            name = '__h%d' % len(self.helpers)
            self.helpers[k] = name
            self.pending.append((name, inner))
        return ('n', self.helpers[k])

    def seq(self, seq):
        parts = [self.item(x) for x in seq]
        return _dedup([tuple(itertools.chain.from_iterable(c)) for c in itertools.product(*parts)])

    def alts(self, alts):
        out = []
        for s in alts:
            out += self.seq(s)
        return _dedup(out)

    def item(self, it):
        k = it[0]
        if k in ('t', 'l'):
            return [(('c', term_char(it)),)]      # "c" and C: "c" are the same token (only their tree visibility differs)
        if k == 'n':
            return [(it,)]
        if k == 'grp':
            return self.alts(it[1])
        if k == 'opt':
            return _dedup(self.item(it[1]) + [()])
        if k == 'br':
            return _dedup(self.alts(it[1]) + [(MARK,) * visible_size(it)])
        if k == 'star':
            return [(self.helper(it[1]),), ()]
        if k == 'plus':
            return [(self.helper(it[1]),)]
        if k == 'rep':
            inner = self.item(it[1])
            out = []
            for n in range(it[2], it[3] + 1):
                out += [tuple(itertools.chain.from_iterable(c)) for c in itertools.product(*([inner] * n))]
            return _dedup(out)
        raise ValueError(it)

    # ---- results -------------------------------------------------------------------------------
    def collisions(self):
        """[(rule, sequence)]: alternatives that differ only in placeholder marks and are not empty"""
        out = []
        for name, seqs in self.flat.items():
            seen = {}
            for s in seqs:
                stripped = tuple(x for x in s if x != MARK)
                if stripped in seen and seen[stripped] != s and stripped:
                    out.append((name, stripped))
                seen.setdefault(stripped, s)
        return out

    def bnf(self):
        """flat rules for the span oracle: [(lhs, [('T', char) | ('N', name)])] (marks erased)"""
        rules = []
        for name, seqs in self.flat.items():
            done = set()
            for s in seqs:
                stripped = tuple(x for x in s if x != MARK)
                if stripped in done:
                    continue
                done.add(stripped)
                rules.append((name, [('N', x[1]) if x[0] == 'n' else ('T', term_char(x)) for x in stripped]))
        return rules


def term_char(sym):
    return sym[1].lower() if sym[0] == 't' else sym[1]           # ('l', c) and ('c', c) carry the character


# ---------------------------------------------------------------------------------------------
# text
def render_item(it):
    k = it[0]
    if k == 't' or k == 'n':
        return it[1]
    if k == 'l':
        return '"%s"' % it[1]
    if k == 'grp':
        return '(%s)' % render_alts(it[1])
    if k == 'br':
        return '[%s]' % render_alts(it[1])
    if k == 'opt':
        return render_item(it[1]) + '?'
    if k == 'star':
        return render_item(it[1]) + '*'
    if k == 'plus':
        return render_item(it[1]) + '+'
    if k == 'rep':
        return render_item(it[1]) + ('~%d' % it[2] if it[2] == it[3] else '~%d..%d' % (it[2], it[3]))
    raise ValueError(it)


def render_alts(alts):
    return ' | '.join(' '.join(render_item(x) for x in seq) for seq in alts)


def render(grammar):
    lines = ['%s: %s' % (n, render_alts(a)) for n, a in grammar.items()]
    names = sorted({x[1] for x in walk_items(grammar) if x[0] == 't'})
    for n in names:
        lines.append('%s: "%s"' % (n, n.lower()))
    return '\n'.join(lines) + '\n'


def walk_items(grammar):
    def w(it):
        yield it
        k = it[0]
        if k in ('grp', 'br'):
            for seq in it[1]:
                for x in seq:
                    yield from w(x)
        elif k in ('opt', 'star', 'plus', 'rep'):
            yield from w(it[1])
    for alts in grammar.values():
        for seq in alts:
            for x in seq:
                yield from w(x)


def alphabet(grammar):
    return sorted({term_char(x) for x in walk_items(grammar) if x[0] in ('t', 'l')})


# ---------------------------------------------------------------------------------------------
# fixed corpus (seed independent) and a random family
def T(c):
    return ('t', c.upper())


def Lt(c):
    return ('l', c)


def N(n):
    return ('n', n)


def G(*alts):
    return ('grp', [list(a) for a in alts])


CORPUS = [
    # groups of alternatives inside sequences whose distribution repeats a sibling alternative
    {'start': [[G([Lt('a')], [Lt('b')]), Lt('c')], [Lt('a'), Lt('c')]]},
    {'start': [[N('x')]], 'x': [[Lt('k'), G([Lt('a')], [Lt('b')])], [Lt('k'), Lt('a')]]},
    {'start': [[N('a')]], 'a': [[N('b'), T('y')], [G([N('b')], [N('c')]), T('y')]], 'b': [[T('x')]], 'c': [[T('z')]]},
    {'start': [[G([Lt('a')], [Lt('b')])], [Lt('a')]]},
    {'start': [[Lt('a'), G([Lt('b')], [G([Lt('b')], [Lt('c')])])], [Lt('a'), Lt('c')]]},
    {'start': [[G([T('a')], [T('b')]), G([T('a')], [T('b')])], [T('a'), T('b')], [T('b'), T('a')]]},
    {'start': [[G([N('start'), Lt('a')], [Lt('b')])], [Lt('b')], [N('start'), Lt('a')]]},
    # the same alternative written twice, also inside a group
    {'start': [[N('b')], [N('b')]], 'b': [[Lt('a')], [Lt('a')], [Lt('b'), N('b')]]},
    {'start': [[G([Lt('a')], [Lt('a')], [Lt('b')]), Lt('c')]]},
    {'start': [[Lt('a'), Lt('b')], [Lt('a'), G([Lt('b')])], [G([Lt('a')]), Lt('b')]]},
    # duplicates through ? and * (merged silently)
    {'start': [[('opt', Lt('a')), ('opt', Lt('a'))]]},
    {'start': [[('opt', T('a')), ('opt', T('a')), T('b')]]},
    {'start': [[('star', Lt('a')), ('star', Lt('a'))], [('plus', Lt('a'))]]},
    {'start': [[('opt', G([T('a')], [T('b')])), T('a')], [T('a')], [T('a'), T('a')]]},
    {'start': [[('br', [[Lt('a')]]), ('br', [[Lt('a')]])]]},                # ["a"] keeps no symbol: like "a"?
    {'start': [[G([('br', [[Lt('a')]]), Lt('b')]), Lt('c')], [Lt('b'), Lt('c')]]},
    # optional items with placeholders expanding to identical alternatives: the documented GrammarError
    {'start': [[('br', [[T('a')]]), ('br', [[T('a')]])]]},
    {'start': [[('br', [[T('a')]]), T('b')], [T('b')]]},
    {'start': [[N('x'), T('c')]], 'x': [[('br', [[N('y')]]), ('br', [[N('y')]]), T('a')]], 'y': [[T('b')]]},
    {'start': [[('br', [[T('a')], [T('b')]]), ('opt', T('a'))]]},
    # placeholders that do not collide
    {'start': [[('br', [[T('a')]]), T('b')], [T('c')]]},
    {'start': [[('br', [[T('a'), T('b')]]), ('br', [[T('c')]])]]},
    # nullable / recursive / cyclic variants
    {'start': [[G([N('start')], [Lt('a')]), G([N('start')], [])], [Lt('a')]]},
    {'start': [[N('a')]], 'a': [[G([N('b')], [Lt('x')])], [N('b')]], 'b': [[G([N('a')], [Lt('y')])], [Lt('y')]]},
    {'start': [[('star', G([Lt('a')], [Lt('b')])), Lt('a')], [('plus', G([Lt('a')], [Lt('b')]))]]},
    {'start': [[('rep', G([Lt('a')], [Lt('b')]), 1, 2)], [Lt('a'), Lt('b')], [Lt('a')]]},
    {'start': [[G([], [Lt('a')]), G([], [Lt('a')])], []]},
    {'start': [[N('e'), N('e')]], 'e': [[G([], [N('e')])], [('opt', Lt('a'))]]},
]


def gen_source_grammar(rng, max_flat=36):
    """a random source grammar whose expansion stays small (the language check enumerates strings)"""
    while True:
        g = _gen_source_grammar(rng)
        flat = Expander(g).flat
        if sum(len(v) for v in flat.values()) <= max_flat:
            return g


def _gen_source_grammar(rng):
    nts = ['start'] + rng.sample(['a', 'b'], rng.choice([0, 1, 1, 2]))
    chars = 'abc'[:rng.choice([2, 2, 3])]
    named = rng.random() < 0.5
    p_br = rng.choice([0.0, 0.1, 0.25])

    def sym():
        r = rng.random()
        if r < 0.25 and len(nts) > 1 or r < 0.1:
            return N(rng.choice(nts))
        c = rng.choice(chars)
        if named and rng.random() < 0.8:
            return T(c)
        return Lt(c)

    def alts(depth, n=None):
        n = n or rng.choice([1, 2, 2, 3])
        out = [seq(depth) for _ in range(n)]
        if depth and not any(out):
            out[0] = [sym()]                           # "()" and "[]" are not grammar syntax
        if rng.random() < 0.25 and out:
            out.append(list(rng.choice(out)))          # the same alternative twice
        return out

    def seq(depth):
        ln = rng.choice([0, 1, 1, 1, 2]) if depth else rng.choice([1, 2, 2, 3])
        return [item(depth) for _ in range(ln)]

    def item(depth):
        r = rng.random()
        nest = 0.3 if depth == 0 else 0.12
        if depth < 2 and r < nest:
            return ('grp', alts(depth + 1, 2))
        if depth < 2 and r < nest + p_br:
            return ('br', alts(depth + 1, rng.choice([1, 1, 2])))
        if r < 0.8:
            return sym()
        inner = sym() if rng.random() < 0.7 or depth >= 1 else ('grp', alts(depth + 1, 2))
        op = rng.choice(['opt', 'opt', 'star', 'plus', 'rep'])
        if op == 'rep':
            mn = rng.choice([0, 1, 2])
            return ('rep', inner, mn, mn + rng.choice([0, 1]))
        return (op, inner)

    g = {}
    for n in nts:
        a = alts(0)
        # provoke duplicates of siblings: repeat one distributed instance of an alternative that has a group
        for s in list(a):
            if any(x[0] == 'grp' for x in s) and rng.random() < 0.6:
                flat = []
                for x in s:
                    if x[0] == 'grp' and x[1]:
                        flat += list(rng.choice(x[1]))
                    else:
                        flat.append(x)
                a.insert(rng.randint(0, len(a)), flat)
        g[n] = a
    # every rule reachable and productive enough: start mentions the others
    for n in nts[1:]:
        if not any(x == N(n) for x in walk_items({'start': g['start']})):
            g['start'].append([N(n)] + ([sym()] if rng.random() < 0.5 else []))
    return g
