"""C17 - Imports, overrides, extensions, templates mean what textual inlining means."""
import os
import re

from lib import coq_term_str, coq_list as L, coq_Z as Z

THEOREMS = ['C17_derives_rename', 'C17_trees_rename', 'C17_trees_are_derivations',
            'C17_mangle_injective_or_error', 'C17_mangle_collision_only_by_alias', 'C17_mangle_prefix_disjoint',
            'C17_mangle_is_source',
            'C17_remove_unused_is_reachability', 'C17_do_import', 'C17_load_under_chain_is_renaming', 'C17_chain_ok',
            'C17_import_is_inlining', 'C17_import_plain_module', 'C17_no_capture',
            'C17_compile_rename', 'C17_contributed_language', 'C17_contributed_trees', 'C17_imported_language',
            'C17_numbering_exists', 'C17_keep_all_tokens_reaches_imports', 'C17_keep_all_tokens_local',
            'C17_unpack_import_names', 'C17_unpack_import_single',
            'C17_import_clash_is_error', 'C17_extend_is_alternative', 'C17_extend_keeps_alternatives',
            'C17_extend_term_in_place', 'C17_override_term_fresh_object', 'C17_extend_terminal_is_seen',
            'C17_override_terminal_refuted',
            'C17_override_replaces', 'C17_template_is_substitution', 'C17_subst_no_capture',
            'C17_instance_name_injective', 'C17_template_label_renamed', 'C17_example',
            'C17_template_label_example', 'C17_import_is_inlining_example', 'C17_semantic_example',
            # round 12: file search, statement front, conditions regenerated from the source, template options
            'C17_import_resolution_order', 'C17_import_not_found', 'C17_import_candidates', 'C17_import_path_shadows',
            'C17_stdlib_is_last', 'C17_search_is_dotted_lookup', 'C17_declare_is_bodyless_terminal',
            'C17_ignore_is_not_imported', 'C17_ignore_named_terminal', 'C17_make_rule_tuple',
            'C17_define_extend_are_source', 'C17_validate_is_source', 'C17_dispatch_is_source',
            'C17_search_order_is_source', 'C17_constants_are_source', 'C17_template_instance_keeps_options',
            'C17_search_example', 'C17_coherent_example', 'C17_override_term_seen_iff_unshared']
GEN_DEPS = ['Mangle', 'ModSrc']
RULE = ('random programs of 1-3 module files (plain / renamed / multi / nested %import, %override, %extend, templates with '
        'symbol, literal and nested-template arguments, same-named private rules and terminals in every module, '
        '%extend / %override of imported terminals that other imported terminals are built from (by name, as '
        'dependency, through a nested module), %declare, %ignore, and a controlled rate of erroneous programs) written under ctx.scratch; (a) the '
        'GrammarBuilder._definitions after load_grammar+validate against Mod/Modules.load_and_validate on the '
        'statement trees lark parsed from the same files, every ApplyTemplates.template_usage call against '
        'template_usage_step, _get_mangle against mangle; (b) parse of the modular grammar against the hand-inlined '
        'single grammar (written with fresh names) on derived sentences, mutated sentences and random strings under '
        'lalr and earley: same acceptance, equal trees after the label map; every program runs under a random choice of the '
        'global options keep_all_tokens x maybe_placeholders (given to both grammars; keep_all_tokens also to the builder '
        'in (a)), and a fixed corpus (imported rules with anonymous punctuation, _TERMINALS, [..] items at import depth 1 '
        'and 2) under the full 2x2 matrix; (c) _unpack_import against Mod/Unpack.unpack_import on every %import statement '
        'of the generated files and a fixed list; (d) the file search: programs laid out over import_paths directories '
        '(spelled absolute / with trailing or doubled slash / relative to the current directory / empty), the directory of '
        'the importing grammar (file name, "<string>", other names), the current directory, a package read through '
        'FromPackageLoader and lark\'s bundled grammars, with library and relative imports nested in the modules, shadowing '
        'copies of every module and of common.lark, missing modules and inconsistent base paths: GrammarBuilder\'s '
        'definitions, used_files (order) and exception class against Mod/Search.load_fs_and_validate on the raw statement '
        'trees, and every do_import search (dotted path, base path -> joined path) against Mod/Search.resolve; '
        '_unpack_definition/_make_rule_tuple against Mod/Front.unpack_def on every definition statement; os.path.join/split '
        'against the model; (e) histories: the same top-level grammar text loaded five times in one process while the '
        'imported modules change (other directory, file rewritten in place, back), each load against the model and against '
        'its own hand-inlined grammar; (f) a systematic family of templates with every modifier x priority x location '
        '(local, imported template, template used inside an imported rule) x order of a competing alternative under '
        'earley (dynamic and basic lexer) and lalr, and the options of every created instance against the model. non-trivial = distinct program with >= 1 '
        'import that contributes >= 2 definitions / distinct (program, input) with an accepted parse')
TRUSTED_BASE = ['hand model Mod/Modules.v of GrammarBuilder / resolve_term_references / ApplyTemplates (tied by comparing '
                'final definitions and per-call template instantiation); the string operations of _get_mangle are '
                'regenerated from the source (translator/gen_modules.py, control skeleton pinned by a template) and proved '
                'equal to the model mangle',
                'the .lark parser (_parse_grammar: LALR parse of the grammar text + PrepareGrammar) is not modelled: the model '
                'starts from the statement trees it returns; _make_rule_tuple, _unpack_definition, _unpack_import, the '
                'statement dispatch and the file search of do_import are modelled (Mod/Front.v, Mod/Search.v), their '
                'conditions and constants regenerated from the source (Gen/ModSrc.v) with every mirrored function pinned by '
                'a template, decorators and module-level state of load_grammar.py included',
                'the file system is an abstract table (canonical path -> parsed file; package data); os.path.join/split are '
                'modelled for POSIX paths without "." / ".." components; custom loaders other than FromPackageLoader, the '
                'used_files hash check and int() of priorities are outside the model',
                'python reference inliner in harness/props/C17.py (the "by hand" grammar of the differential)']
ASSUMPTIONS = ['the trees of terminal definitions are modelled as shared heap objects (resolve_term_references inserts the '
               'referenced object; %extend changes it in place; %override makes a new one); programs that %override a '
               'terminal other imported terminals are built from (finding F35) are compared at the definitions level but '
               'kept out of the parse differential',
               'names are non-empty; rule/terminal names do not contain "{", "}" or ","']
ALLOWED_AXIOMS = []

IMPORTS = 'From LV Require Import Mod.Modules Mod.ModulesCheck Mod.Unpack Mod.UnpackCheck.'
IMPORTS_SEARCH = IMPORTS + '\nFrom LV Require Import Mod.Front Mod.Search Mod.SearchCheck.'


# ----------------------------------------------------------------------------------------------
# lark objects -> Coq terms of Mod/Modules.v
# ----------------------------------------------------------------------------------------------
class Interner:
    """string literals are by far the most expensive thing for coqc to elaborate: every distinct string is defined
    once (extra_defs of the generated cases file) and referred to by name"""

    def __init__(self):
        self.tab = {}

    def S(self, s):
        s = str(s)
        if s not in self.tab:
            self.tab[s] = '(z %d%%N)' % len(self.tab)
        return self.tab[s]

    def defs(self):
        return ('Definition ztab : list string := [%s].\nDefinition z (n : N) : string := nth (N.to_nat n) ztab EmptyString.\n'
                % ';\n'.join(coq_term_str(k) for k in self.tab))


CUR = Interner()


def S(s):
    return CUR.S(s)


def new_interner():
    global CUR
    CUR = Interner()
    return CUR


def B(b):
    return 'true' if b else 'false'


def opt(x, f):
    return 'None' if x is None else '(Some %s)' % f(x)


def ct(t):
    """lark grammar tree -> Coq `tree`; the frequent shapes use the abbreviations of Mod/ModulesCheck.v
    (V, R, T, Lt, E, X unfold to the plain constructors) to keep the generated files small"""
    from lark.tree import Tree
    from lark.grammar import Symbol
    if isinstance(t, Tree):
        data = str(t.data)
        ch = t.children
        if data == 'value' and len(ch) == 1:
            c = ch[0]
            if isinstance(c, Symbol):
                return '(%s %s)' % ('T' if c.is_term else 'R', S(c.name))
            if isinstance(c, Tree) and str(c.data) == 'literal' and len(c.children) == 1 and isinstance(c.children[0], str):
                return '(Lt %s)' % S(str(c.children[0]))
            return '(V %s)' % ct(c)
        if data == 'expansion':
            return '(E %s)' % L([ct(c) for c in ch])
        if data == 'expansions':
            return '(X %s)' % L([ct(c) for c in ch])
        return '(Nd %s %s)' % (S(data), L([ct(c) for c in ch]))
    if isinstance(t, Symbol):
        return '(Sy %s %s)' % (B(t.is_term), S(t.name))
    if isinstance(t, str):
        return '(Tk %s)' % S(str(t))
    raise ValueError('unexpected node in a grammar tree: %r' % (t,))


def copts(o, is_term):
    if is_term:
        return '(OTerm %s)' % Z(int(o))
    return '(ORule %s %s %s %s)' % (B(o.keep_all_tokens), B(o.expand1), opt(o.priority, lambda p: Z(int(p))),
                                     opt(o.template_source, lambda s: S(str(s))))


def cdef(name, is_term, tree, params, o):
    if not is_term and not o.keep_all_tokens and not o.expand1 and o.priority is None and o.template_source is None \
            and tree is not None and not params:
        return '(Rd %s %s)' % (S(str(name)), ct(tree))
    if is_term and tree is not None and int(o) == 0:
        return '(Td %s %s)' % (S(str(name)), ct(tree))
    return '(mkDef %s %s %s %s %s)' % (S(str(name)), B(is_term), opt(tree, ct), L([S(str(p)) for p in params]),
                                       copts(o, is_term))


class FrontEnd(Exception):
    """the file is rejected by the part of the front end that is not modelled"""


def stmt_terms(text):
    """statement trees of one file (as load_grammar sees them) -> list of Coq `stmt` terms"""
    from lark.load_grammar import _parse_grammar, _make_rule_tuple, TOKEN_DEFAULT_PRIORITY
    from lark.tree import Tree
    from lark.grammar import Terminal
    tree = _parse_grammar(text, '<c17>')
    out = []

    def unpack(t):
        if t.data == 'rule':
            name, params, exp, o = _make_rule_tuple(*t.children)
            return cdef(name, False, exp, params, o)
        name = t.children[0].value
        prio = int(t.children[1]) if len(t.children) == 3 else TOKEN_DEFAULT_PRIORITY
        return cdef(name, True, t.children[-1], (), prio)

    for st in tree.children:
        if st.data in ('rule', 'term'):
            out.append('(SDef KDefine %s)' % unpack(st))
        elif st.data == 'override':
            out.append('(SDef KOverride %s)' % unpack(st.children[0]))
        elif st.data == 'extend':
            out.append('(SDef KExtend %s)' % unpack(st.children[0]))
        elif st.data == 'ignore':
            out.append('(SIgnore %s)' % ct(st.children[0]))
        elif st.data == 'declare':
            out.append('(SDeclare %s)' % L(['(%s, %s)' % (B(isinstance(s, Terminal)), S(s.name)) for s in st.children]))
        elif st.data == 'import':
            path_node = st.children[0]
            arg1 = st.children[1] if len(st.children) > 1 else None
            if isinstance(arg1, Tree):
                dotted = [str(c) for c in path_node.children]
                al = {}
                for n in arg1.children:
                    al[str(n)] = str(n)
            else:
                dotted = [str(c) for c in path_node.children[:-1]]
                if not dotted:
                    raise FrontEnd('nothing imported')
                name = str(path_node.children[-1])
                al = {name: str(arg1) if arg1 is not None else name}
            out.append('(SImport %s %s)' % (L([S(d) for d in dotted]),
                                            L(['(%s, %s)' % (S(k), S(v)) for k, v in al.items()])))
        else:
            raise FrontEnd('statement ' + str(st.data))
    return out


def observe_builder(main_text, scratch, gkeep=False):
    """run the real GrammarBuilder; returns None on GrammarError, else (coq defs list, coq ignore list, builder)"""
    from lark.load_grammar import GrammarBuilder
    from lark.exceptions import GrammarError
    gb = GrammarBuilder(gkeep, [scratch])
    try:
        gb.load_grammar(main_text, '<c17>')
        gb.validate()
    except GrammarError as e:
        return None, str(e)
    defs = [cdef(n, d.is_term, d.tree, d.params, d.options) for n, d in gb._definitions.items()]
    return (L(defs), L([S(str(x)) for x in gb._ignore_names]), gb), None


def load_case_term(files, main_text, scratch, gkeep=False):
    """files: {dotted path tuple: text}.  Returns (coq term, observed, error message)"""
    fs = L(['(%s, %s)' % (L([S(p) for p in path]), L(stmt_terms(text))) for path, text in files.items()])
    main = L(stmt_terms(main_text))
    obs, msg = observe_builder(main_text, scratch, gkeep)
    exp = 'None' if obs is None else '(Some (%s, %s))' % (obs[0], obs[1])
    return '((%s, %s, %s, %s) : load_case)' % (fs, B(gkeep), main, exp), obs, msg


# ----------------------------------------------------------------------------------------------
# program ASTs, printer
#   item : ('sym', name) | ('lit', text) | ('grp', alts) | ('opt', alts) | ('rep', item, op) | ('tmpl', name, [item])
#   alts : [(seq, alias-or-None)]
#   stmt : ('rule', mods, name, params, prio, alts) | ('term', name, prio, alts) | ('override', stmt) | ('extend', stmt)
#          | ('import1', path, name, alias-or-None) | ('importn', path, [names]) | ('ignore', name) | ('declare', [names])
# ----------------------------------------------------------------------------------------------
def p_item(it, rn):
    k = it[0]
    if k == 'sym':
        return rn(it[1])
    if k == 'lit':
        return '"%s"' % it[1]
    if k == 'grp':
        return '(' + p_alts(it[1], rn) + ')'
    if k == 'opt':
        return '[' + p_alts(it[1], rn) + ']'
    if k == 'rep':
        return p_item(it[1], rn) + it[2]
    if k == 'tmpl':
        return '%s{%s}' % (rn(it[1]), ', '.join(p_item(a, rn) for a in it[2]))
    raise ValueError(k)


def p_alts(alts, rn):
    return ' | '.join(' '.join(p_item(i, rn) for i in seq) + (' -> ' + rn(al) if al else '') for seq, al in alts)


def p_def(st, rn):
    if st[0] == 'rule':
        _, mods, name, params, prio, alts = st
        return '%s%s%s%s: %s' % (mods, rn(name), '{%s}' % ', '.join(rn(p) for p in params) if params else '',
                                '.%d' % prio if prio is not None else '', p_alts(alts, rn))
    _, name, prio, alts = st
    return '%s%s: %s' % (rn(name), '.%d' % prio if prio is not None else '', p_alts(alts, rn))


def p_stmt(st):
    ident = lambda s: s
    k = st[0]
    if k in ('rule', 'term'):
        return p_def(st, ident)
    if k in ('override', 'extend'):
        return '%%%s %s' % (k, p_def(st[1], ident))
    if k == 'import1':
        return '%%import %s.%s%s' % ('.'.join(st[1]), st[2], ' -> ' + st[3] if st[3] else '')
    if k == 'importn':
        return '%%import %s (%s)' % ('.'.join(st[1]), ', '.join(st[2]))
    if k == 'ignore':
        return '%%ignore %s' % st[1]
    if k == 'declare':
        return '%%declare %s' % ' '.join(st[1])
    raise ValueError(k)


def p_module(stmts):
    return '\n'.join(p_stmt(s) for s in stmts) + '\n'


def map_syms_item(it, f):
    k = it[0]
    if k == 'sym':
        return ('sym', f(it[1]))
    if k == 'lit':
        return it
    if k in ('grp', 'opt'):
        return (k, map_syms_alts(it[1], f))
    if k == 'rep':
        return ('rep', map_syms_item(it[1], f), it[2])
    return ('tmpl', f(it[1]), [map_syms_item(a, f) for a in it[2]])


def map_syms_alts(alts, f):
    return [([map_syms_item(i, f) for i in seq], f(al) if al else None) for seq, al in alts]


def syms_item(it, out, with_alias=True):
    k = it[0]
    if k == 'sym':
        out.append(it[1])
    elif k in ('grp', 'opt'):
        syms_alts(it[1], out, with_alias)
    elif k == 'rep':
        syms_item(it[1], out, with_alias)
    elif k == 'tmpl':
        out.append(it[1])
        for a in it[2]:
            syms_item(a, out, with_alias)


def syms_alts(alts, out, with_alias=False):
    for seq, al in alts:
        for i in seq:
            syms_item(i, out, with_alias)
    return out


# ----------------------------------------------------------------------------------------------
# the reference: what writing the imported definitions out by hand means
# ----------------------------------------------------------------------------------------------
class SpecError(Exception):
    pass


def mangle1_ref(prefix, aliases, s):
    """documented naming: imported names get their alias, everything else module__name, keeping a leading
    underscore in front"""
    if s in aliases:
        return aliases[s]
    return '_%s__%s' % (prefix, s[1:]) if s.startswith('_') else '%s__%s' % (prefix, s)


def ref_load(prog, modname, rho, top, depth=0):
    """final definitions {final name: dict} (insertion ordered) of module `modname` read under renaming rho"""
    if depth > 6:
        raise SpecError('import cycle')
    if modname not in prog:
        raise SpecError('no module')
    stmts = prog[modname]
    defs = {}
    imports = {}
    for st in stmts:
        if st[0] == 'import1':
            imports.setdefault(st[1], {})[st[2]] = st[3] or st[2]
        elif st[0] == 'importn':
            for n in st[2]:
                imports.setdefault(st[1], {})[n] = n
    for path, aliases in imports.items():
        prefix = '__'.join(path)
        rho2 = (lambda pf, al: lambda s: rho(mangle1_ref(pf, al, s)))(prefix, dict(aliases))
        sub = ref_load(prog, path, rho2, False, depth + 1)
        keep = set(rho2(k) for k in aliases)
        changed = True
        while changed:
            changed = False
            for n, d in sub.items():
                if n in keep and d['alts'] is not None:
                    for s in syms_alts(d['alts'], []):
                        if s not in keep and s not in d['params']:
                            keep.add(s)
                            changed = True
        for n, d in sub.items():
            if n in keep:
                if n in defs:
                    raise SpecError('clash')
                defs[n] = d
    for st in stmts:
        k = st[0]
        if k in ('rule', 'term', 'override', 'extend'):
            body = st if k in ('rule', 'term') else st[1]
            is_term = body[0] == 'term'
            name = rho(body[2] if not is_term else body[1])
            if is_term:
                d = dict(name=name, is_term=True, params=(), prio=body[2], mods='', alts=map_syms_alts(body[3], rho),
                         label=None, origin=body[1], module=modname)
            else:
                d = dict(name=name, is_term=False, params=tuple(rho(p) for p in body[3]), prio=body[4], mods=body[1],
                         alts=map_syms_alts(body[5], rho), label=name if body[3] else None, origin=body[2],
                         module=modname)
            if name.startswith('__'):
                raise SpecError('reserved')
            if k in ('rule', 'term'):
                if name in defs:
                    raise SpecError('dup')
                defs[name] = d
            elif k == 'override':
                if name not in defs:
                    raise SpecError('override undefined')
                defs[name] = d
            else:
                if name not in defs:
                    raise SpecError('extend undefined')
                old = defs[name]
                if old['is_term'] != is_term or old['params'] != d['params'] or old['alts'] is None:
                    raise SpecError('extend mismatch')
                defs[name] = dict(old, alts=d['alts'] + old['alts'])
        elif k == 'declare':
            for n in st[1]:
                if not n.isupper():
                    raise SpecError('declare rule')
                name = rho(n)
                if name in defs:
                    raise SpecError('dup')
                defs[name] = dict(name=name, is_term=True, params=(), prio=None, mods='', alts=None, label=None,
                                  origin=n, module=modname)
    return defs


def ref_validate(defs, ignore):
    for n, d in defs.items():
        for i, p in enumerate(d['params']):
            if p in defs or p in d['params'][:i]:
                raise SpecError('param')
        if d['alts'] is None:
            continue
        if d['is_term']:
            for s in syms_alts(d['alts'], []):
                if s not in defs or not defs[s]['is_term'] or defs[s]['alts'] is None:
                    raise SpecError('terminal reference')
            continue
        for s in syms_alts(d['alts'], [], False):
            if s not in defs and s not in d['params']:
                raise SpecError('undefined %s in %s' % (s, n))
        check_templates(d['alts'], defs, d['params'])
    for n in ignore:
        if n not in defs:
            raise SpecError('ignore undefined')
    # recursion in terminals
    state = {}

    def visit(n):
        if state.get(n) == 1:
            raise SpecError('terminal recursion')
        if state.get(n) == 2:
            return
        state[n] = 1
        for s in syms_alts(defs[n]['alts'] or [], []):
            visit(s)
        state[n] = 2
    for n, d in defs.items():
        if d['is_term']:
            visit(n)


def check_templates(alts, defs, params):
    def item(it):
        if it[0] == 'tmpl':
            if it[1] not in params:
                if it[1] not in defs:
                    raise SpecError('template undefined')
                if len(it[2]) != len(defs[it[1]]['params']):
                    raise SpecError('template arity')
            for a in it[2]:
                item(a)
        elif it[0] in ('grp', 'opt'):
            for seq, _ in it[1]:
                for i in seq:
                    item(i)
        elif it[0] == 'rep':
            item(it[1])
    for seq, _ in alts:
        for i in seq:
            item(i)


def expand_templates_by_hand(defs):
    """every template use is replaced by a fresh ordinary rule whose body is the template's body with the arguments
    written in place of the parameters (what one does by hand); templates themselves disappear"""
    out = {}
    inst = {}
    pending = []

    def item(it, env):
        k = it[0]
        if k == 'sym':
            return env.get(it[1], it)
        if k == 'lit':
            return it
        if k in ('grp', 'opt'):
            return (k, alts_(it[1], env))
        if k == 'rep':
            return ('rep', item(it[1], env), it[2])
        head = it[1]
        if head in env and env[head][0] == 'sym':
            head = env[head][1]
        args = [item(a, env) for a in it[2]]
        key = (head, repr(args))
        if key not in inst:
            d = defs[head]
            name = '%sxi%d_%s' % ('_' if head.startswith('_') else '', len(inst), head.strip('_').replace('__', '_'))
            inst[key] = name
            body = alts_(d['alts'], dict(zip(d['params'], args)))
            pending.append(dict(d, name=name, params=(), alts=body))
        return ('sym', inst[key])

    def alts_(alts, env):
        return [([item(i, env) for i in seq], al) for seq, al in alts]

    for n, d in defs.items():
        if d['params']:
            continue
        out[n] = d if (d['is_term'] or d['alts'] is None) else dict(d, alts=alts_(d['alts'], {}))
    for d in pending:
        out[d['name']] = d
    return out


def inline_program(prog, by_hand_templates=False):
    """-> (final defs, ignore names, inlined grammar text, label map inlined->expected modular label)"""
    defs = ref_load(prog, ('main',), lambda s: s, True)
    ignore = [st[1] for st in prog[('main',)] if st[0] == 'ignore']
    ref_validate(defs, ignore)
    sem_defs = defs
    if by_hand_templates:
        defs = expand_templates_by_hand(defs)
    # sigma: final name -> name used in the hand-written grammar (terminals must be upper case there)
    sigma = {}
    used = set()

    def fresh(n, is_term):
        c = n.upper() if is_term else n.replace('__', '_0_')
        while c in used:
            c += '_X' if is_term else '_x'
        used.add(c)
        return c
    for n, d in defs.items():
        sigma[n] = fresh(n, d['is_term'])
    extra = {}

    def sg(s):
        if s in sigma:
            return sigma[s]
        if s not in extra:          # parameters and alias labels
            extra[s] = fresh(s, False)
        return extra[s]
    lines = []
    labels = {}
    for n, d in defs.items():
        if d['alts'] is None:
            lines.append('%%declare %s' % sg(n))
        elif d['is_term']:
            lines.append(p_def(('term', n, d['prio'], d['alts']), sg))
        else:
            lines.append(p_def(('rule', d['mods'], n, d['params'], d['prio'], d['alts']), sg))
        labels[sg(n)] = d['label'] if d['label'] is not None else n
    for s, c in extra.items():
        labels[c] = s
    for n in ignore:
        lines.append('%%ignore %s' % sg(n))
    return sem_defs, ignore, '\n'.join(lines) + '\n', labels


# ----------------------------------------------------------------------------------------------
# generator of programs (dict: dotted path -> statements; ('main',) is the top-level grammar)
# ----------------------------------------------------------------------------------------------
RULE_NAMES = ['a', 'b', 'c', 'd', '_h', 'e']
TERM_NAMES = ['TA', 'TB', '_TC', 'TD']
ANON = ['1', '2', '3', '4', '+', '-', ';', '=']


class Letters:
    def __init__(self, rng):
        self.pool = list('abcdefghijklmnopqrstuvwxyz')
        rng.shuffle(self.pool)

    def take(self):
        return self.pool.pop() if self.pool else 'zz'


def gen_term_body(rng, letters, earlier):
    r = rng.random()
    if earlier and r < 0.4:
        return [([('lit', letters.take()), ('sym', rng.choice(earlier))], None)]
    if r < 0.5:
        return [([('lit', letters.take())], None), ([('lit', letters.take())], None)]
    if r < 0.6:
        return [([('lit', letters.take()), ('rep', ('lit', letters.take()), rng.choice('?*+'))], None)]
    return [([('lit', letters.take())], None)]


def gen_atom(rng, rules, terms, templates, params, depth=0):
    """one item; rules/terms/templates: names usable here; templates: {name: arity}"""
    r = rng.random()
    if params and r < 0.45:
        return ('sym', rng.choice(params))
    if templates and r < 0.25 and depth < 2:
        t = rng.choice(sorted(templates))
        args = []
        for _ in range(templates[t]):
            q = rng.random()
            if q < 0.3 and terms:
                args.append(('sym', rng.choice(terms)))
            elif q < 0.5 and rules:
                args.append(('sym', rng.choice(rules)))
            elif q < 0.65 and params:
                args.append(('sym', rng.choice(params)))
            elif q < 0.8:
                args.append(('lit', rng.choice(ANON)))
            elif depth < 1:
                a = gen_atom(rng, rules, terms, templates, params, depth + 2)
                args.append(a if a[0] in ('sym', 'lit', 'tmpl') else ('lit', rng.choice(ANON)))
            else:
                args.append(('lit', rng.choice(ANON)))
        return ('tmpl', t, args)
    if terms and r < 0.55:
        return ('sym', rng.choice(terms))
    if rules and r < 0.85:
        return ('sym', rng.choice(rules))
    return ('lit', rng.choice(ANON))


def gen_seq(rng, rules, terms, templates, params, base):
    n = rng.choice([1, 1, 2, 2, 3])
    seq = []
    for _ in range(n):
        a = gen_atom(rng, [] if base else rules, terms, {} if base else templates, params)
        q = rng.random()
        if not base and q < 0.12:
            a = ('rep', a, rng.choice('?*+'))
        elif not base and q < 0.2:
            a = ('opt', [([a], None)])
        elif not base and q < 0.27:
            a = ('grp', [([a], None), ([gen_atom(rng, [], terms, {}, params) if (terms or params) else ('lit', rng.choice(ANON))], None)])
        seq.append(a)
    return seq


def lit_template_arg(alts):
    def item(it):
        if it[0] == 'tmpl':
            return any(a[0] == 'lit' or item(a) for a in it[2])
        if it[0] in ('grp', 'opt'):
            return lit_template_arg(it[1])
        if it[0] == 'rep':
            return item(it[1])
        return False
    return any(item(i) for seq, _ in alts for i in seq)


def gen_module(rng, letters, imported_rules, imported_terms, imported_templates, is_main):
    """local definitions of one module; imported_*: names visible through this module's imports"""
    stmts = []
    terms = []
    for tn in rng.sample(TERM_NAMES, rng.randint(1, 3)):
        if tn in imported_terms:
            continue
        stmts.append(('term', tn, None if rng.random() < 0.9 else 2, gen_term_body(rng, letters, terms + list(imported_terms))))
        terms.append(tn)
    allterms = terms + list(imported_terms)
    templates = dict(imported_templates)
    tdefs = []
    for (tn, ps) in rng.sample([('f', ['t']), ('g', ['t', 'u'])], rng.choice([0, 1, 1, 2])):
        if tn in templates:
            continue
        alts = [(gen_seq(rng, [], allterms, {}, ps, True) + [('sym', ps[0])], None)]
        if rng.random() < 0.4:
            alts.append((gen_seq(rng, [], allterms, templates, ps, False), None))
        tm = rng.choice(['', '', '?', '!']) if not tn.startswith('_') else ''
        if '!' in tm and lit_template_arg(alts):
            tm = ''
        # templates carry every modifier an ordinary rule can have, the priority included (seeded change C17-g)
        tprio = None if rng.random() < 0.6 else rng.choice([1, 2, 3, -1])
        tdefs.append(('rule', tm, tn, ps, tprio, alts))
        templates[tn] = len(ps)
    rules = list(imported_rules)
    rdefs = []
    names = [n for n in rng.sample(RULE_NAMES, rng.randint(2, 4)) if n not in imported_rules]
    for i, rn in enumerate(names):
        alts = [(gen_seq(rng, rules, allterms, templates, [], i == 0 and not rules), None)]
        for _ in range(rng.choice([0, 0, 1, 1, 2])):
            rec = ([rn] if rng.random() < 0.3 else []) + (names[i + 1:] if rng.random() < 0.15 else [])
            # a recursive alternative always consumes a literal (no unit / empty cycles: LALR would not terminate)
            alts.append((([('lit', rng.choice(ANON))] if rec else []) + gen_seq(rng, rules + rec, allterms, templates, [], False),
                         ('al%d' % rng.randint(1, 2)) if (rng.random() < 0.25 and not rn.startswith('_')) else None))
        mods = rng.choice(['', '', '', '?', '!']) if not rn.startswith('_') else rng.choice(['', '', '!'])
        if '!' in mods and lit_template_arg(alts):
            mods = mods.replace('!', '')     # see EXOTIC C17-T3
        rdefs.append(('rule', mods, rn, [], None if rng.random() < 0.92 else rng.randint(1, 3), alts))
        rules.append(rn)
    if rng.random() < 0.5:
        rdefs.append(('rule', '', 'unused', [], None, [([('lit', '9')] + ([('sym', terms[0])] if terms else []), None)]))
    body = tdefs + rdefs
    rng.shuffle(body)
    return stmts + body, names, terms, [t[2] for t in tdefs]


def gen_program(rng, wild=False):
    letters = Letters(rng)
    prog = {}
    shape = rng.choice(['flat1', 'flat1', 'flat2', 'nested', 'nested', 'none'])
    info = {'shape': shape, 'features': set()}
    exports = {}
    order = {'none': [], 'flat1': ['m'], 'flat2': ['m', 'n'], 'nested': ['m', 'n']}[shape]
    for mn in order:
        imp_stmts, irules, iterms, itempl = [], [], [], {}
        if shape == 'nested' and mn == 'n':
            imp_stmts, irules, iterms, itempl = gen_imports(rng, 'm', exports['m'], info, {}, 'n')
        body, rn, tn, tpl = gen_module(rng, letters, irules, iterms, itempl, False)
        prog[(mn,)] = imp_stmts + body
        if iterms and rng.random() < 0.4:
            # the nested module extends / overrides a terminal it imported
            add_term_modifier(rng, prog[(mn,)], iterms, mn, letters, info, prog)
        exports[mn] = dict(rules=rn + [r for r in irules if rng.random() < 0.5], terms=tn, templates={t: (1 if t == 'f' else 2) for t in tpl},
                           stmts=prog[(mn,)], term_deps=term_deps(prog[(mn,)]))
    imp_stmts, irules, iterms, itempl = [], [], [], {}
    taken = {}
    for mn in (order if shape != 'nested' else (['n', 'm'] if rng.random() < 0.5 else ['n'])):
        s, r, t, tp = gen_imports(rng, mn, exports[mn], info, taken, 'main')
        imp_stmts += s
        irules += r
        iterms += t
        itempl.update(tp)
    body, rn, tn, tpl = gen_module(rng, letters, irules, iterms, itempl, True)
    allrules = irules + rn
    start_alts = [([('sym', x) for x in rng.sample(allrules, min(len(allrules), rng.randint(1, 3)))], None)]
    if rng.random() < 0.4 and itempl:
        t = rng.choice(sorted(itempl))
        start_alts.append(([('tmpl', t, [('sym', rng.choice(iterms + tn)) if (iterms + tn) else ('lit', '1') for _ in range(itempl[t])])], None))
        info['features'].add('imported-template-used-at-top')
    if iterms and rng.random() < 0.35:
        # imported terminals also occur directly in the start rule
        start_alts.append(([('sym', x) for x in rng.sample(iterms, min(len(iterms), rng.randint(1, 2)))], None))
    main = imp_stmts + [('rule', '', 'start', [], None, start_alts)] + body
    # %override / %extend of imported rules and terminals (by their final names)
    cands = [r for r in irules if not any(r == t for t in itempl)]
    if cands and rng.random() < 0.35:
        r = rng.choice(cands)
        main.append(('extend', ('rule', '', r, [], None, [([('lit', '=')] + gen_seq(rng, [], iterms + tn, {}, [], True), None)])))
        info['features'].add('extend-rule')
    if cands and rng.random() < 0.25:
        r = rng.choice(cands)
        main.append(('override', ('rule', '', r, [], None, [(gen_seq(rng, [x for x in rn], iterms + tn, {}, [], False) + [('lit', ';')], None)])))
        info['features'].add('override-rule')
    based = [t for t in iterms if is_base(info, prog, 'main', t)]
    if iterms and rng.random() < (0.65 if based else 0.2):
        add_term_modifier(rng, main, iterms, 'main', letters, info, prog)
    if itempl and rng.random() < 0.15:
        t = rng.choice(sorted(itempl))
        ps = ['t'] if itempl[t] == 1 else ['t', 'u']
        main.append(('extend', ('rule', '', t, ps, None, [([('lit', '-'), ('sym', ps[-1])], None)])))
        info['features'].add('extend-template')
    if rng.random() < 0.3:
        main.append(('term', 'WS', None, [([('lit', ' ')], None)]))
        main.append(('ignore', 'WS'))
        info['features'].add('ignore')
    if rng.random() < 0.08:
        main.append(('declare', ['DD']))
    prog[('main',)] = main
    if wild:
        make_wild(rng, prog, info)
    return prog, info


def term_deps(stmts):
    """{terminal defined in this file: [terminals of this file that are built from it]}"""
    deps = {}
    for st in stmts:
        if st[0] == 'term':
            for s in syms_alts(st[3], []):
                deps.setdefault(s, []).append(st[1])
    return deps


def is_base(info, prog, importer, local):
    """the terminal known as `local` in module `importer` is imported, and in its home module another terminal is
    built from it"""
    o = info.get('origin', {}).get((importer, local))
    return bool(o) and bool(term_deps(prog[(o[0],)]).get(o[1]))


def add_term_modifier(rng, stmts, iterms, importer, letters, info, prog):
    """%extend (mostly) or %override of an imported terminal, preferably one that other imported terminals are built
    from.  %extend changes the shared tree object in place and agrees with writing the definitions out by hand;
    %override of such a terminal does not (finding F35): those programs stay in the definitions stream (the model
    has the sharing) but are kept out of the parse differential"""
    based = [t for t in iterms if is_base(info, prog, importer, t)]
    t = rng.choice(based) if based and rng.random() < 0.8 else rng.choice(iterms)
    kind = 'extend' if rng.random() < 0.8 else 'override'
    stmts.append((kind, ('term', t, None, [([('lit', letters.take())], None)])))
    info['features'].add(kind + '-term' + ('-shared' if t in based else ''))
    if kind == 'override' and t in based:
        info['skip_b'] = 'F35'


def gen_imports(rng, mn, exp, info, taken, importer):
    """import statements for module mn; returns (stmts, rule names, term names, templates) as visible locally"""
    stmts, rules, terms, templates = [], [], [], {}
    pool = [('r', r) for r in exp['rules']] + [('t', t) for t in exp['terms']] + [('f', f) for f in exp['templates']]
    rng.shuffle(pool)
    pick = pool[:rng.randint(1, max(1, min(4, len(pool))))]
    for kind, name in list(pick):
        # a terminal that others are built from: often import one of those as well
        deps = [('t', x) for x in exp.get('term_deps', {}).get(name, []) if x in exp['terms'] and ('t', x) not in pick]
        if kind == 't' and deps and rng.random() < 0.6:
            pick.append(rng.choice(deps))
    multi = []
    for kind, name in pick:
        local = name
        form = rng.random()
        if local in taken or form < 0.3:
            suffix = 'x' if kind != 't' else 'X'
            local = name + suffix + (mn if kind != 't' else mn.upper())
            if local in taken:
                continue
            stmts.append(('import1', (mn,), name, local))
            info['features'].add('renamed-import')
        elif form < 0.65:
            multi.append(name)
        else:
            stmts.append(('import1', (mn,), name, None))
            info['features'].add('plain-import')
        taken[local] = mn
        if kind == 'r':
            rules.append(local)
        elif kind == 't':
            terms.append(local)
            info.setdefault('origin', {})[(importer, local)] = (mn, name)
        else:
            templates[local] = exp['templates'][name]
    if multi:
        stmts.insert(rng.randint(0, len(stmts)), ('importn', (mn,), multi))
        info['features'].add('multi-import')
    return stmts, rules, terms, templates


def make_wild(rng, prog, info):
    main = prog[('main',)]
    k = rng.choice(['dup-local', 'bad-override', 'bad-extend', 'missing-import', 'clash-mangled', 'arity',
                    'undefined-sym', 'extend-params', 'same-alias', 'param-conflict'])
    info['wild'] = k
    imps = [s for s in main if s[0] in ('import1', 'importn')]
    if k == 'dup-local' and imps:
        s = imps[0]
        n = (s[3] or s[2]) if s[0] == 'import1' else s[2][0]
        main.append(('term', n, None, [([('lit', 'q')], None)]) if n.isupper() else ('rule', '', n, [], None, [([('lit', '1')], None)]))
    elif k == 'bad-override':
        main.append(('override', ('rule', '', 'nosuch', [], None, [([('lit', '1')], None)])))
    elif k == 'bad-extend':
        main.append(('extend', ('rule', '', 'nosuch', [], None, [([('lit', '1')], None)])))
    elif k == 'missing-import' and imps:
        main.insert(0, ('import1', imps[0][1], 'nosuch', None))
        main.append(('rule', '', 'usesit', [], None, [([('sym', 'nosuch')], None)]))
    elif k == 'clash-mangled' and imps:
        mn = imps[0][1][0]
        priv = [st[2] for st in prog[(mn,)] if st[0] == 'rule' and not st[3]]
        if priv:
            n = rng.choice(priv)
            main.insert(0, ('rule', '', ('_%s__%s' % (mn, n[1:])) if n.startswith('_') else '%s__%s' % (mn, n), [], None,
                            [([('lit', '1')], None)]))
    elif k == 'arity':
        for mod in prog.values():
            for i, st in enumerate(mod):
                if st[0] == 'rule' and st[3] and len(st[3]) == 1:
                    mod.append(('rule', '', 'badarity', [], None, [([('tmpl', st[2], [('lit', '1'), ('lit', '2')])], None)]))
                    return
    elif k == 'undefined-sym':
        main.append(('rule', '', 'usesit', [], None, [([('sym', 'nosuch')], None)]))
    elif k == 'extend-params' and imps:
        main.append(('rule', '', 'tt', ['t'], None, [([('sym', 't')], None)]))
        main.append(('extend', ('rule', '', 'tt', ['u'], None, [([('sym', 'u')], None)])))
    elif k == 'same-alias' and len(prog) >= 2:
        mods = [p for p in prog if p != ('main',)]
        mn = mods[0][0]
        rs = [st[2] for st in prog[(mn,)] if st[0] == 'rule' and not st[3]]
        if len(rs) >= 2:
            main.insert(0, ('import1', (mn,), rs[0], 'samename'))
            main.insert(1, ('import1', (mn,), rs[1], 'samename'))
    elif k == 'param-conflict':
        main.append(('rule', '', 'pc', ['start'], None, [([('sym', 'start')], None)]))


# ----------------------------------------------------------------------------------------------
# sentences of the reference grammar
# ----------------------------------------------------------------------------------------------
class TooDeep(Exception):
    pass


def subst_item(it, env):
    k = it[0]
    if k == 'sym':
        return env.get(it[1], it)
    if k == 'lit':
        return it
    if k in ('grp', 'opt'):
        return (k, [([subst_item(i, env) for i in seq], al) for seq, al in it[1]])
    if k == 'rep':
        return ('rep', subst_item(it[1], env), it[2])
    head = env.get(it[1])
    return ('tmpl', head[1] if head and head[0] == 'sym' else it[1], [subst_item(a, env) for a in it[2]])


def sample_item(defs, rng, it, depth, out):
    if depth > 14 or len(out) > 60:
        raise TooDeep()
    k = it[0]
    if k == 'lit':
        out.append(it[1])
    elif k == 'sym':
        d = defs[it[1]]
        if d['alts'] is None:
            raise TooDeep()
        if d['is_term']:
            out.append(sample_term(defs, rng, it[1], 0))
        else:
            sample_alts(defs, rng, d['alts'], depth + 1, out)
    elif k == 'grp':
        sample_alts(defs, rng, it[1], depth + 1, out)
    elif k == 'opt':
        if rng.random() < 0.6:
            sample_alts(defs, rng, it[1], depth + 1, out)
    elif k == 'rep':
        lo = 1 if it[2] == '+' else 0
        hi = 1 if it[2] == '?' else 2
        for _ in range(rng.randint(lo, hi)):
            sample_item(defs, rng, it[1], depth + 1, out)
    else:
        d = defs[it[1]]
        env = dict(zip(d['params'], it[2]))
        body = [([subst_item(i, env) for i in seq], al) for seq, al in d['alts']]
        sample_alts(defs, rng, body, depth + 1, out)


def sample_alts(defs, rng, alts, depth, out):
    seq, _ = alts[0] if depth > 9 else rng.choice(alts)
    for it in seq:
        sample_item(defs, rng, it, depth, out)


def sample_term(defs, rng, name, depth):
    if depth > 8:
        raise TooDeep()
    out = []

    def item(it):
        if it[0] == 'lit':
            out.append(it[1])
        elif it[0] == 'sym':
            out.append(sample_term(defs, rng, it[1], depth + 1))
        elif it[0] == 'rep':
            for _ in range(rng.randint(1 if it[2] == '+' else 0, 1 if it[2] == '?' else 2)):
                item(it[1])
        elif it[0] in ('grp', 'opt'):
            for i in rng.choice(it[1])[0]:
                item(i)
    d = defs[name]
    if d['alts'] is None:
        raise TooDeep()
    for it in rng.choice(d['alts'])[0]:
        item(it)
    return ''.join(out)


def gen_inputs(defs, ignore, rng, n_pos, n_mut, n_rand):
    texts = []
    sep = ' ' if ignore else ''
    alphabet = set()
    for _ in range(n_pos * 4):
        if len(texts) >= n_pos:
            break
        out = []
        try:
            sample_item(defs, rng, ('sym', 'start'), 0, out)
        except (TooDeep, KeyError, RecursionError):
            continue
        t = ''.join(x + (sep if rng.random() < 0.3 else '') for x in out)
        alphabet |= set(t)
        if t not in texts:
            texts.append(t)
    pos = list(texts)
    alphabet = sorted(alphabet | set('ab1'))
    for _ in range(n_mut):
        if not pos:
            break
        t = rng.choice(pos)
        k = rng.randrange(len(t) + 1)
        r = rng.random()
        if r < 0.4 and t:
            t = t[:k] + t[k + 1:]
        elif r < 0.8:
            t = t[:k] + rng.choice(alphabet) + t[k:]
        else:
            t = t[:k] + t[k:][::-1]
        texts.append(t)
    for _ in range(n_rand):
        texts.append(''.join(rng.choice(alphabet) for _ in range(rng.randint(0, 6))))
    return texts


# ----------------------------------------------------------------------------------------------
# the differential: modular grammar vs the grammar written out by hand
# ----------------------------------------------------------------------------------------------
def canon_tree(t, labels=None):
    from lark.tree import Tree
    from lark.lexer import Token
    m0 = (lambda s: labels.get(s, s)) if labels is not None else (lambda s: s)
    # anonymous regexp tokens are numbered in order of creation, which is not part of the property
    m = lambda s: '__ANON' if s.startswith('__ANON_') else m0(s)
    if isinstance(t, Tree):
        return [m(str(t.data)), [canon_tree(c, labels) for c in t.children]]
    if isinstance(t, Token):
        return [m(str(t.type)), str(t)]
    return repr(t)


def write_program(files, d):
    os.makedirs(d, exist_ok=True)
    for path, text in files.items():
        fp = os.path.join(d, *path) + '.lark'
        os.makedirs(os.path.dirname(fp), exist_ok=True)
        with open(fp, 'w') as f:
            f.write(text)


def build(text, parser, import_dir=None, **kw):
    """-> (Lark or None, error class name)"""
    from lark import Lark
    from lark.exceptions import GrammarError
    try:
        return Lark(text, parser=parser, import_paths=[import_dir] if import_dir else [], **kw), None
    except GrammarError as e:
        return None, 'GrammarError: ' + str(e)[:200]


class ParseTimeout(Exception):
    pass


class time_limit:
    """lark's LALR driver does not terminate on some cyclic grammars; a parse that takes too long is recorded as
    'TIMEOUT' on both sides instead of hanging the check"""

    def __init__(self, seconds):
        self.seconds = seconds

    def __enter__(self):
        import signal
        import threading
        self.active = threading.current_thread() is threading.main_thread()
        if self.active:
            def handler(signum, frame):
                raise ParseTimeout()
            self.old = signal.signal(signal.SIGALRM, handler)
            signal.setitimer(signal.ITIMER_REAL, self.seconds)
        return self

    def __exit__(self, *a):
        import signal
        if self.active:
            signal.setitimer(signal.ITIMER_REAL, 0)
            signal.signal(signal.SIGALRM, self.old)
        return False


def run_parse(p, text, labels=None):
    from lark.exceptions import UnexpectedInput
    try:
        with time_limit(4):
            return canon_tree(p.parse(text), labels)
    except UnexpectedInput:
        return None
    except ParseTimeout:
        return 'TIMEOUT'


def differential(files, main_text, inl_text, labels, texts, parser, d, opts=None):
    """-> list of (kind, text, modular result, inlined result); kind in construct / parse.
    opts: Lark options given to BOTH grammars (keep_all_tokens reaches GrammarBuilder as global_keep_all_tokens)"""
    opts = opts or {}
    pm, em = build(main_text, parser, d, **opts)
    pi, ei = build(inl_text, parser, **opts) if inl_text is not None else (None, 'SpecError')
    if (pm is None) != (pi is None):
        return [('construct', None, em or 'built', ei or 'built')], 0
    if pm is None:
        return [], 0
    bad = []
    acc = 0
    for t in texts:
        a = run_parse(pm, t)
        b = run_parse(pi, t, labels)
        acc += a is not None
        if a != b:
            bad.append(('parse', t, a, b))
    return bad, acc


def record_templates(main_text, d):
    """all ApplyTemplates.template_usage calls made while compiling the modular grammar -> coq tmpl_case terms"""
    from lark import Lark
    from lark import load_grammar as lg
    from lark.exceptions import GrammarError
    cases = []
    orig = lg.ApplyTemplates.template_usage

    def wrapped(self, c):
        name = c[0].name
        args = list(c[1:])
        created = sorted(self.created_templates)
        rds = [(str(n), [str(x) for x in ps], ct(t), copts(o, False)) for (n, ps, t, o) in self.rule_defs if n == name]
        n0 = len(self.rule_defs)
        try:
            argterms = [ct(a) for a in args]
        except ValueError:
            argterms = None
        res = orig(self, c)
        app = self.rule_defs[n0:]
        if argterms is not None and len(app) <= 1:
            ok_shape = (not app) or (list(app[0][1]) == [] and app[0][3] is not None)
            appended = 'None' if not (app and ok_shape) else '(Some (%s, %s, %s))' % (
                S(str(app[0][0])), ct(app[0][2]), copts(app[0][3], False))
            cases.append('((%s, %s, %s, %s, (%s, %s, %s)) : tmpl_case)' % (
                L([S(x) for x in created]),
                L(['(mkR %s %s %s %s)' % (S(n), L([S(x) for x in ps]), t, o) for n, ps, t, o in rds]),
                S(name), L(argterms), B(not app), appended if ok_shape else 'None', S(res.name)))
        return res
    lg.ApplyTemplates.template_usage = wrapped
    try:
        Lark(main_text, parser='earley', import_paths=[d])
    except GrammarError:
        pass
    finally:
        lg.ApplyTemplates.template_usage = orig
    return cases


def mangle_cases(rng, n):
    from lark.load_grammar import _get_mangle
    out = []
    names = ['a', '_a', 'b', '__b', 'x_y', '_x__y', 'TA', '_TA', 'A__B', 'm__a', '_m__a', 'start', '_']
    for _ in range(n):
        layers = []
        f = None
        chain = []
        for _ in range(rng.randint(1, 3)):
            prefix = rng.choice(['m', 'n', 'm__n', '_p', 'lib__sub'])
            al = {}
            for _ in range(rng.randint(0, 3)):
                al[rng.choice(names)] = rng.choice(names + ['q', 'm__a', 'Z'])
            chain.append((prefix, al))
        # chain[0] is the outermost import; each deeper mangle gets the outer one as base_mangle
        for prefix, al in chain:
            f = _get_mangle(prefix, al, f)
        s = rng.choice(names)
        layers = list(reversed(chain))          # innermost first, as in the model
        out.append(('(%s, %s, %s)' % (L(['(%s, %s)' % (S(p), L(['(%s, %s)' % (S(k), S(v)) for k, v in al.items()]))
                                         for p, al in layers]), S(s), S(f(s))),
                    {'imports_outermost_first': [[p, al] for p, al in chain], 'name': s, 'mangled': f(s)}))
    return out


# ----------------------------------------------------------------------------------------------
# exotic (fixed) corpus: known deviations from textual inlining, each with a stable key
# ----------------------------------------------------------------------------------------------
EXOTIC = [
    # regression (lark fix bb8205d): instances of an imported template are labelled with the template's final
    # name (m__f, or the alias), not with the unmangled name that clashes with the local rule f
    dict(key=None,
         files={('m',): 'a: f{Y}\nf{t}: t t\nY: "y"\n'},
         main='start: a f\nf: "q"\n%import m.a\n',
         inlined='start: a f\nf: "q"\na: m__f{M__Y}\nm__f{m__t}: m__t m__t\nM__Y: "y"\n',
         labels={'M__Y': 'm__Y'}, text='yyq', parser='lalr'),
    dict(key=None,
         files={('m',): 'f{t}: t t\nY: "y"\n'},
         main='start: g{Y} f\nf: "q"\n%import m.f -> g\n%import m.Y\n',
         inlined='start: g{Y} f\nf: "q"\ng{t}: t t\nY: "y"\n',
         labels={}, text='yyq', parser='lalr'),
    # regression: %extend of an imported terminal is seen by the imported terminals built from it (imported by
    # name, or pulled in as a dependency of an imported rule; also through a nested import)
    dict(key=None,
         files={('units',): 'UNIT: "cm" | "mm"\nLENGTH: /\\d+/ UNIT\nlength: LENGTH\n'},
         main='start: (LENGTH | UNIT)+\n%import units (LENGTH, UNIT)\n%extend UNIT: "km"\n%ignore " "\n',
         inlined='start: (LENGTH | UNIT)+\nUNIT: "km" | "cm" | "mm"\nLENGTH: /\\d+/ UNIT\n%ignore " "\n',
         labels={}, text='7mm 12km km', parser='lalr'),
    dict(key=None,
         files={('units',): 'UNIT: "cm" | "mm"\nLENGTH: /\\d+/ UNIT\nlength: LENGTH\n'},
         main='start: (length | UNIT)+\n%import units (length, UNIT)\n%extend UNIT: "km"\n%ignore " "\n',
         inlined='start: (length | UNIT)+\nUNIT: "km" | "cm" | "mm"\nUNITS__LENGTH: /\\d+/ UNIT\nlength: UNITS__LENGTH\n%ignore " "\n',
         labels={'UNITS__LENGTH': 'units__LENGTH'}, text='12km km 3cm', parser='earley'),
    dict(key=None,
         files={('units',): 'UNIT: "cm" | "mm"\nLENGTH: /\\d+/ UNIT\n',
                ('mid',): '%import units (LENGTH, UNIT)\n%extend UNIT: "km"\nsize: LENGTH "!"\n'},
         main='start: size+\n%import mid.size\n',
         inlined='start: size+\nMID__UNIT: "km" | "cm" | "mm"\nMID__LENGTH: /\\d+/ MID__UNIT\nsize: MID__LENGTH "!"\n',
         labels={'MID__LENGTH': 'mid__LENGTH'}, text='12km!3cm!', parser='lalr'),
    # %override of an imported terminal does not reach the imported terminals that refer to it
    # (%extend does, and %override of a rule does)
    dict(key='C17-T2:override-of-imported-terminal-not-seen-by-dependent-terminal',
         files={('m',): 'y: Y "!"\nY: X "b"\nX: "a"\n'},
         main='start: y\n%import m (y, X)\n%override X: "c"\n',
         inlined='start: y\ny: M__Y "!"\nM__Y: X "b"\nX: "c"\n',
         labels={'M__Y': 'm__Y'}, text='cb!', parser='lalr'),
    # a literal written as a template argument inside a !rule is kept in the instance's tree although the
    # template itself does not keep tokens (by hand: g's instance is an ordinary rule, its "4" is filtered)
    dict(key='C17-T3:literal-template-argument-of-keep-all-rule-kept-in-instance',
         files={},
         main='start: d\ng{t, u}: "1" u t\nTA: "e"\n!d: g{TA, "4"} "3"\n',
         inlined='start: d\nTA: "e"\n!d: xi_g "3"\nxi_g: "1" "4" TA\n',
         labels={'xi_g': 'g'}, text='14e3', parser='lalr'),
]


def run_exotic(ctx, e):
    d = os.path.join(ctx.scratch, 'exo_%d' % EXOTIC.index(e))
    write_program({p: t for p, t in e['files'].items()}, d)
    bad, _ = differential(e['files'], e['main'], e['inlined'], e['labels'], [e['text']], e['parser'], d)
    return bad


def witness(files, main_text, inl_text, labels, parser, text, opts=None):
    return {'files': {'.'.join(p): t for p, t in files.items()}, 'main': main_text, 'inlined': inl_text,
            'labels': labels, 'parser': parser, 'text': text, 'options': opts or {}}




# ----------------------------------------------------------------------------------------------
# _unpack_import against Mod/Unpack.unpack_import
# ----------------------------------------------------------------------------------------------
UNPACK_FIXED = ['%import m\n', '%import m.a\n', '%import a.b.c\n', '%import a.b.X -> Y\n', '%import a.b (x, y, x)\n',
                '%import m (A)\n', '%import .rel.x\n', '%import .x\n', '%import m.a -> a\n', '%import a.b.c.d (p)\n']


def unpack_cases(texts):
    """every %import statement of the given grammar texts -> (coq unpack_case, readable form)"""
    from lark.load_grammar import _parse_grammar, GrammarBuilder
    from lark.exceptions import GrammarError
    from lark.tree import Tree
    out = []
    for text in texts:
        try:
            tree = _parse_grammar(text + 'start: "x"\n', 'c17.lark')
        except GrammarError:
            continue
        for st in tree.children:
            if st.data != 'import':
                continue
            path_node = st.children[0]
            arg1 = st.children[1] if len(st.children) > 1 else None
            children = [str(c) for c in path_node.children]
            if isinstance(arg1, Tree):
                arg = '(ANames %s)' % L([S(str(n)) for n in arg1.children])
            elif arg1 is not None:
                arg = '(AAlias %s)' % S(str(arg1))
            else:
                arg = 'ANone'
            try:
                dotted, _base, aliases = GrammarBuilder()._unpack_import(st, 'c17.lark')
                obs = '(Some (%s, %s))' % (L([S(str(x)) for x in dotted]),
                                           L(['(%s, %s)' % (S(str(k)), S(str(v))) for k, v in aliases.items()]))
                shown = (list(map(str, dotted)), {str(k): str(v) for k, v in aliases.items()})
            except GrammarError:
                obs, shown = 'None', 'GrammarError'
            out.append(('((%s, %s, %s) : unpack_case)' % (L([S(c) for c in children]), arg, obs),
                        {'statement': text.strip() if text in UNPACK_FIXED else '%import ' + '.'.join(children), 'observed': shown}))
    return out

# ----------------------------------------------------------------------------------------------
# fixed corpus run under the matrix of global options (seed independent): imported rules with filtered tokens
# (anonymous punctuation, _TERMINALS) and [..] items, at import depth 1 and 2
# ----------------------------------------------------------------------------------------------
GEO = 'point: "(" coord ["," coord] ")"\ncoord: _SIGN? NUM\n_SIGN: "-"\nNUM: "7" | "8"\n'
SHAPES = '%import geo.point\nseg: "<" point ".." point [tag] ">"\ntag: "#" _T\n_T: "t"\n'
OPTION_CORPUS = [
    dict(name='depth1', files={('geo',): GEO},
         main='start: point+\n%import geo.point\n',
         inlined=('start: point+\npoint: "(" geo__coord ["," geo__coord] ")"\ngeo__coord: _GEO__SIGN? GEO__NUM\n'
                  '_GEO__SIGN: "-"\nGEO__NUM: "7" | "8"\n'),
         labels={'GEO__NUM': 'geo__NUM', '_GEO__SIGN': '_geo__SIGN'},
         texts=['(7,-8)(8)', '(-7)', '(7,8']),
    dict(name='depth2', files={('geo',): GEO, ('shapes',): SHAPES},
         main='start: seg\n%import shapes.seg\n',
         inlined=('start: seg\nseg: "<" shapes__point ".." shapes__point [shapes__tag] ">"\n'
                  'shapes__point: "(" shapes__geo__coord ["," shapes__geo__coord] ")"\n'
                  'shapes__geo__coord: _SHAPES__GEO__SIGN? SHAPES__GEO__NUM\n_SHAPES__GEO__SIGN: "-"\n'
                  'SHAPES__GEO__NUM: "7" | "8"\nshapes__tag: "#" _SHAPES__T\n_SHAPES__T: "t"\n'),
         labels={'SHAPES__GEO__NUM': 'shapes__geo__NUM', '_SHAPES__GEO__SIGN': '_shapes__geo__SIGN',
                 '_SHAPES__T': '_shapes__T'},
         texts=['<(7,-8)..(8)#t>', '<(7)..(-8,8)>', '<(7)..>']),
]
OPTION_MATRIX = [{'keep_all_tokens': k, 'maybe_placeholders': m} for k in (False, True) for m in (False, True)]


def run_option_corpus(ctx, load_cases, load_meta):
    for e in OPTION_CORPUS:
        d = os.path.join(ctx.scratch, 'opt_' + e['name'])
        write_program(e['files'], d)
        for keep in (False, True):
            term, obs, msg = load_case_term(e['files'], e['main'], d, keep)
            load_cases.append(term)
            load_meta.append((e['files'], e['main'], e['inlined'], e['labels'],
                              {'shape': 'options-corpus:' + e['name'], 'opts': {'keep_all_tokens': keep}}))
            ctx.count('load', key=(e['name'], keep), nontrivial=True, shape='options-corpus', outcome='ok' if obs else 'error')
        for opts in OPTION_MATRIX:
            for parser in ('lalr', 'earley'):
                bad, acc = differential(e['files'], e['main'], e['inlined'], e['labels'], e['texts'], parser, d, opts)
                for t in e['texts']:
                    ctx.count('options-corpus', key=(e['name'], t, parser, repr(sorted(opts.items()))), nontrivial=True)
                for kind, t, a, b in bad[:2]:
                    ctx.violation('inlining-differential:' + kind,
                                  witness(e['files'], e['main'], e['inlined'], e['labels'], parser, t or '', opts), True,
                                  'modular grammar gives %s, the hand-inlined grammar gives %s (parser=%s, options=%s, text=%r)'
                                  % (str(a)[:200], str(b)[:200], parser, opts, t))

# ----------------------------------------------------------------------------------------------
# the raw statement front (Mod/Front.v) and the file search (Mod/Search.v)
# ----------------------------------------------------------------------------------------------
def craw_def(t):
    """Tree('rule'|'term', ...) as _parse_grammar returns it -> Coq raw_def"""
    if t.data == 'rule':
        mods_t, name, params_t, prio_t, exp = t.children
        mods = opt(str(mods_t.children[0]) if mods_t.children else None, S)
        prio = opt(int(prio_t.children[0]) if prio_t.children else None, Z)
        return '(RawRule %s %s %s %s %s)' % (mods, S(str(name)), L([S(str(x)) for x in params_t.children]), prio, ct(exp))
    prio = int(t.children[1]) if len(t.children) == 3 else None
    return '(RawTerm %s %s %s)' % (S(str(t.children[0])), opt(prio, Z), ct(t.children[-1]))


def raw_terms(text, name='<c17>'):
    """statement trees of one file exactly as load_grammar sees them -> list of Coq raw_stmt terms"""
    from lark.load_grammar import _parse_grammar
    from lark.tree import Tree
    from lark.grammar import Terminal
    out = []
    for st in _parse_grammar(text, name).children:
        k = str(st.data)
        if k in ('rule', 'term'):
            out.append('(RDefine %s)' % craw_def(st))
        elif k == 'override':
            out.append('(ROverride %s)' % craw_def(st.children[0]))
        elif k == 'extend':
            out.append('(RExtend %s)' % craw_def(st.children[0]))
        elif k == 'ignore':
            out.append('(RIgnore %s)' % ct(st.children[0]))
        elif k == 'declare':
            out.append('(RDeclare %s)' % L(['(%s, %s)' % (B(isinstance(x, Terminal)), S(x.name)) for x in st.children]))
        elif k == 'import':
            path_node = st.children[0]
            arg1 = st.children[1] if len(st.children) > 1 else None
            if isinstance(arg1, Tree):
                arg = '(ANames %s)' % L([S(str(n)) for n in arg1.children])
            elif arg1 is not None:
                arg = '(AAlias %s)' % S(str(arg1))
            else:
                arg = 'ANone'
            out.append('(RImport %s %s %s)' % (B(str(path_node.data) == 'import_rel'),
                                               L([S(str(c)) for c in path_node.children]), arg))
        else:
            raise FrontEnd('statement ' + k)
    return out


UNPACK_DEF_FIXED = ['a: "x"\n', '?a: b\n', '!a: "x" b\n', '!?a: b\n', '?!a: b\n', '_a: b\n', '?_a: b\n', '!_a: "x"\n',
                    '?!_a: b\n', 'a.3: b\n', 'a.-2: b\n', 'a{x}: x\n', '?a{x, y}.2: x y\n', '!_a{x}: x "k"\n',
                    'A: "a"\n', 'A.5: "a" B\n', '_A.-1: /a/\n', '%override ?a: b\n', '%extend !a: "k"\n', '%extend A.2: "b"\n']


def unpack_def_cases(texts):
    """every definition statement -> (coq (raw_def, observed defn or None), readable)"""
    from lark.load_grammar import _parse_grammar, GrammarBuilder
    from lark.exceptions import GrammarError
    out = []
    for text in texts:
        try:
            tree = _parse_grammar(text, 'c17.lark')
        except GrammarError:
            continue
        for st in tree.children:
            k = str(st.data)
            if k in ('override', 'extend'):
                st = st.children[0]
            elif k not in ('rule', 'term'):
                continue
            raw = craw_def(st)        # before _unpack_definition (which does not change the statement tree)
            try:
                name, is_term, exp, params, o = GrammarBuilder()._unpack_definition(st, None)
                obs = '(Some %s)' % cdef(name, is_term, exp, params, o)
                shown = [str(name), bool(is_term), list(map(str, params)), str(o)]
            except GrammarError as e:
                obs, shown = 'None', 'GrammarError: ' + str(e)[:80]
            out.append(('(%s, %s)' % (raw, obs), {'statement': text.strip()[:120] if text in UNPACK_DEF_FIXED else str(st)[:120],
                                               'observed': shown}))
    return out


class PathMap:
    """real paths of one laid-out program -> the short, case-independent paths the model sees (the strings are
    shared between the cases: string literals dominate the cost of the generated Coq files)"""

    def __init__(self, case_dir, idx):
        self.real = case_dir.rstrip('/')
        self.pk = 'case%d/' % idx

    def m(self, p):
        return p.replace(self.real, '/r').replace(self.pk, 'k/')


def cgname(n, pm):
    from lark.load_grammar import PackageResource
    if isinstance(n, PackageResource):
        return '(GRes %s %s)' % (S(n.pkg_name), S(pm.m(n.path)))
    return '(GName %s)' % S(pm.m(str(n)))


def cbase(b, pm):
    from lark.load_grammar import PackageResource
    if b is None:
        return 'BNone'
    if isinstance(b, PackageResource):
        return '(BRes %s %s)' % (S(b.pkg_name), S(pm.m(b.path)))
    return '(BDir %s)' % S(pm.m(str(b)))


def exc_class(e):
    from lark.exceptions import GrammarError
    if isinstance(e, GrammarError):
        return 0
    if isinstance(e, OSError):
        return 1
    if isinstance(e, AssertionError):
        return 2
    if isinstance(e, TypeError):
        return 3
    return 9


SEARCH_PKG = 'c17pkg'
_STD_CACHE = {}


def stdlib_data_terms():
    """the grammars bundled with lark (what stdlib_loader reads), parsed by lark's front end"""
    import lark
    out = []
    gdir = os.path.join(os.path.dirname(lark.__file__), 'grammars')
    for fn in sorted(os.listdir(gdir)):
        if fn in ('common.lark', 'unicode.lark'):
            text = open(os.path.join(gdir, fn), encoding='utf8').read()
            out.append(('lark', 'grammars/' + fn, text))
    return out


def gen_search_case(rng, root, idx, pkgroot):
    """-> dict describing one program laid out over several directories"""
    case = os.path.join(root, 's%d' % idx)
    locs = ['p0', 'p1', 'home', 'home/sub', 'cwd', 'cwd/lp']
    pkg_dirs = ['case%d/la' % idx, 'case%d/lb' % idx]
    mods_order = ['m', 'n', 'util']
    files = {}        # real path -> text
    data = {}         # (pkg, path) -> text

    def module_text(mod, tag):
        lines = ['X: "%s@%s"' % (mod, tag)]
        later = mods_order[mods_order.index(mod) + 1:] if mod in mods_order else []
        if later and rng.random() < 0.6:
            t = rng.choice(later)
            rel = rng.random() < 0.5
            sub = 'sub.' if rng.random() < 0.15 else ''
            lines.append('%%import %s%s%s.X -> %sX' % ('.' if rel else '', sub, t, t.upper()))
            lines.append('Y: %sX "y"' % t.upper())
            lines.append('y: Y')
        if mod == 'common':
            lines = ['WS: "ws@%s"' % tag, 'INT: "int@%s"' % tag]
        if rng.random() < 0.15:
            lines.append('%ignore X')
        return '\n'.join(lines) + '\n'

    for mod in mods_order + ['common']:
        for loc in locs:
            # copies of one module in several searched places are the norm: the ORDER of the search decides
            if rng.random() < (0.6 if mod != 'common' else 0.25):
                files[os.path.join(case, loc, mod + '.lark')] = module_text(mod, loc)
        for pd in pkg_dirs:
            if rng.random() < 0.5 and mod != 'common':
                data[(SEARCH_PKG, pd + '/' + mod + '.lark')] = module_text(mod, pd.split('/')[-1])
    # import_paths
    cand = [('dir', 'p0'), ('dir', 'p1'), ('dir', 'home'), ('dir', 'home/sub'), ('dir', 'cwd/lp'), ('dir', 'cwd'),
            ('pkg', pkg_dirs if rng.random() < 0.7 else pkg_dirs[::-1]), ('pkg', pkg_dirs[:1])]
    paths = []
    for kind, v in rng.sample(cand, rng.choice([0, 1, 2, 2, 3, 3])):
        if kind == 'pkg':
            paths.append(('pkg', SEARCH_PKG, list(v)))
        else:
            real = os.path.join(case, v)
            sp = rng.random()
            if v.startswith('cwd') and sp < 0.4:
                spelled = v[4:]                       # relative to the current directory ('' is the directory itself)
                if spelled and rng.random() < 0.5:
                    spelled += '/'
            elif sp < 0.6:
                spelled = real
            elif sp < 0.8:
                spelled = real + '/'
            else:
                spelled = os.path.join(case, '') + '/' + v          # a doubled slash
            paths.append(('dir', spelled))
    # top-level grammar
    imports = []
    used = []
    for _ in range(rng.choice([1, 1, 2, 2, 3])):
        mod = rng.choice(['m', 'm', 'n', 'util', 'common', 'common', 'nosuch'] if rng.random() < 0.9 else ['sub.m', 'm'])
        rel = rng.random() < 0.45
        nm = 'X' if 'common' not in mod else rng.choice(['WS', 'INT'])
        alias = '%s%s_%d' % ('R' if rel else 'L', nm, len(imports))
        form = rng.random()
        if form < 0.7:
            imports.append('%%import %s%s.%s -> %s' % ('.' if rel else '', mod, nm, alias))
            used.append(alias)
        elif form < 0.92:
            imports.append('%%import %s%s (%s)' % ('.' if rel else '', mod, nm))
            used.append(nm)
        else:
            imports.append('%%import %s%s' % ('.' if rel else '', mod))          # nothing imported / a module as a name
    used = [u for i, u in enumerate(used) if u not in used[:i]]
    main = '\n'.join(imports) + '\nstart: %s\n' % (' '.join(used) if used else '"k"')
    r = rng.random()
    if r < 0.55:
        gname = os.path.join(case, 'home', 'main.lark')
    elif r < 0.7:
        gname = os.path.join(case, 'home', 'sub', 'main.lark')
    elif r < 0.85:
        gname = '<string>'
    else:
        gname = rng.choice(['<c17>', 'main.lark', 'lp/main.lark'])
    return dict(case=case, files=files, data=data, paths=paths, main=main, gname=gname, cwd=os.path.join(case, 'cwd'),
                keep=rng.random() < 0.2)


def write_search_case(c, pkgroot):
    for fp, text in c['files'].items():
        os.makedirs(os.path.dirname(fp), exist_ok=True)
        with open(fp, 'w') as f:
            f.write(text)
    for (pkg, rel), text in c['data'].items():
        fp = os.path.join(pkgroot, pkg, rel)
        os.makedirs(os.path.dirname(fp), exist_ok=True)
        with open(fp, 'w') as f:
            f.write(text)
    for sub in ('cwd/lp', 'home/sub', 'p0', 'p1'):
        os.makedirs(os.path.join(c['case'], sub), exist_ok=True)


def run_search_case(c):
    """the real GrammarBuilder on one laid-out program; logs every do_import search"""
    import sys
    from lark import load_grammar as lg
    from lark.load_grammar import GrammarBuilder, FromPackageLoader
    paths = [FromPackageLoader(p[1], tuple(p[2])) if p[0] == 'pkg' else p[1] for p in c['paths']]
    log, stack = [], []
    o_imp, o_load = GrammarBuilder.do_import, GrammarBuilder.load_grammar

    def w_imp(self, dotted_path, base_path, aliases, base_mangle=None):
        rec = {'path': tuple(map(str, dotted_path)), 'base': base_path, 'found': None, 'exc': None}
        log.append(rec)
        stack.append(rec)
        try:
            return o_imp(self, dotted_path, base_path, aliases, base_mangle)
        except BaseException as e:
            if rec['found'] is None and rec['exc'] is None:
                rec['exc'] = e
            raise
        finally:
            stack.pop()

    def w_load(self, grammar_text, grammar_name='<?>', mangle=None):
        if stack and stack[-1]['found'] is None:
            stack[-1]['found'] = grammar_name
        saved, stack[:] = list(stack), []
        try:
            return o_load(self, grammar_text, grammar_name, mangle)
        finally:
            stack[:] = saved

    old_cwd = os.getcwd()
    GrammarBuilder.do_import, GrammarBuilder.load_grammar = w_imp, w_load
    gb = GrammarBuilder(c['keep'], paths)
    try:
        os.chdir(c['cwd'])
        try:
            gb.load_grammar(c['main'], c['gname'])
            gb.validate()
            res = ('ok', gb)
        except Exception as e:
            res = ('exc', e)
    finally:
        os.chdir(old_cwd)
        GrammarBuilder.do_import, GrammarBuilder.load_grammar = o_imp, o_load
    return res, log


def search_env_term(c, pm, std):
    import sys
    files = L(['(%s, %s)' % (S(pm.m(fp)), L(raw_terms(text))) for fp, text in sorted(c['files'].items())])
    data = L(['((%s, %s), %s)' % (S(pkg), S(pm.m(rel)), L(raw_terms(text))) for (pkg, rel), text in sorted(c['data'].items())]
             + ['((%s, %s), %s)' % (S(pkg), S(rel), name) for (pkg, rel, name) in std])
    mf = getattr(sys.modules.get('__main__'), '__file__', None)
    main = opt(os.path.abspath(mf) if mf else None, lambda x: S(pm.m(x)))
    paths = L(['(SrcPkg %s %s)' % (S(p[1]), L([S(pm.m(x + '/')[:-1]) for x in p[2]])) if p[0] == 'pkg' else '(SrcDir %s)' % S(pm.m(p[1]))
               for p in c['paths']])
    return '(mkEnv %s %s %s %s %s STDLIB)' % (files, data, S(pm.m(c['cwd'])), main, paths)


def run_search_stream(ctx):
    """the file search: programs laid out over import_paths directories, the directory of the importing grammar,
    the current directory, a package read through FromPackageLoader and lark's bundled grammars"""
    global CUR
    import sys
    import importlib
    rng = ctx.rng
    root = os.path.join(ctx.scratch, 'search')
    pkgroot = os.path.join(ctx.scratch, 'searchpkg')
    os.makedirs(os.path.join(pkgroot, SEARCH_PKG), exist_ok=True)
    open(os.path.join(pkgroot, SEARCH_PKG, '__init__.py'), 'w').close()
    sys.modules.pop(SEARCH_PKG, None)
    sys.path.insert(0, pkgroot)
    importlib.invalidate_caches()
    saved_interner, CUR = CUR, Interner()
    std_defs, std = [], []
    env_defs, fs_cases, fs_meta, res_cases, res_meta = [], [], [], [], []
    try:
        for k, (pkg, rel, text) in enumerate(stdlib_data_terms()):
            try:
                std_defs.append('Definition std_data_%d : list raw_stmt := %s.' % (k, L(raw_terms(text))))
                std.append((pkg, rel, 'std_data_%d' % k))
            except ValueError:
                pass
        nprog = ctx.scale(40, 500) * (3 if ctx.widen else 1)
        i = -1
        while len(fs_cases) < nprog and i < 20 * nprog:
            i += 1
            c = gen_search_case(rng, root, i, pkgroot)
            write_search_case(c, pkgroot)
            pm = PathMap(c['case'], i)
            (kind, val), log = run_search_case(c)
            # most random layouts fail at the first missing module: keep a quarter of the failing ones
            if kind != 'ok' and rng.random() < 0.75:
                continue
            try:
                env_defs.append('Definition senv_%d : env := %s.' % (i, search_env_term(c, pm, std)))
                main_raw = L(raw_terms(c['main']))
            except Exception as ex:
                env_defs.append('Definition senv_%d : env := mkEnv [] [] EmptyString None [] STDLIB.' % i)
                ctx.note('search stream: front end rejected a generated file: %r' % (ex,))
                continue
            shown = {'main': c['main'], 'grammar_name': pm.m(c['gname']), 'cwd': pm.m(c['cwd']), 'keep_all_tokens': c['keep'],
                     'import_paths': [[p[1], [pm.m(x + '/')[:-1] for x in p[2]]] if p[0] == 'pkg' else pm.m(p[1]) for p in c['paths']],
                     'files': {pm.m(k): v for k, v in c['files'].items()},
                     'package_data': {'%s:%s' % (k[0], pm.m(k[1])): v for k, v in c['data'].items()}}
            if kind == 'ok':
                gb = val
                defs = [cdef(n, d.is_term, d.tree, d.params, d.options) for n, d in gb._definitions.items()]
                obs = '(inl (%s, %s, %s))' % (L(defs), L([S(str(x)) for x in gb._ignore_names]),
                                              L([cgname(n, pm) for n in gb.used_files]))
                shown['observed'] = {'definitions': list(map(str, gb._definitions)),
                                     'used_files': [pm.m(str(n)) for n in gb.used_files]}
            else:
                obs = '(inr %d)' % exc_class(val)
                shown['observed'] = '%s: %s' % (type(val).__name__, pm.m(str(val))[:120])
            gn = '(GName %s)' % S(pm.m(c['gname']))
            fs_cases.append('((senv_%d, %s, %s, %s, %s) : fs_case)' % (i, B(c['keep']), gn, main_raw, obs))
            fs_meta.append(shown)
            nfound = sum(1 for r in log if r['found'] is not None)
            ctx.count('search-load', key=repr(sorted(shown.items(), key=lambda kv: kv[0])), nontrivial=nfound >= 1,
                      search_outcome='ok' if kind == 'ok' else type(val).__name__, files_found=min(nfound, 4))
            if len(fs_cases) <= 2:
                ctx.sample({'search-load': shown})
            for r in log:
                if r['found'] is not None:
                    o = '(inl %s)' % cgname(r['found'], pm)
                    how = pm.m(str(r['found']))
                elif r['exc'] is not None:
                    o = '(inr %d)' % exc_class(r['exc'])
                    how = type(r['exc']).__name__
                else:
                    continue
                res_cases.append('((senv_%d, %s, %s, %s) : resolve_case)' % (i, cbase(r['base'], pm), L([S(x) for x in r['path']]), o))
                res_meta.append(dict(shown, dotted_path='.'.join(r['path']), base_path=pm.m(str(r['base'])), resolved=how))
                where = 'not-found:' + how
                if r['found'] is not None:
                    where = 'package' if not isinstance(r['found'], str) else pm.m(os.path.dirname(r['found'])) or 'cwd'
                ctx.count('search-resolve', key=(i, r['path'], str(r['base']), how), nontrivial=True,
                          base='none' if r['base'] is None else type(r['base']).__name__, found_in=where)
        extra = CUR.defs() + '\n'.join(std_defs) + '\n' + '\n'.join(env_defs) + '\n'
    finally:
        CUR = saved_interner
        sys.path.remove(pkgroot)
        sys.modules.pop(SEARCH_PKG, None)
    cases = [('(SResolve %s)' % c, m, 'Mod/Search.resolve vs GrammarBuilder.do_import (which file a dotted path denotes)')
             for c, m in zip(res_cases, res_meta)] + \
            [('(SLoad %s)' % c, m, 'Mod/Search.load_fs_and_validate vs GrammarBuilder.load_grammar over a directory layout '
                                   '(definitions, used_files, exception class)') for c, m in zip(fs_cases, fs_meta)]
    bad, errs = ctx.coq_bad_indices('c17search', IMPORTS_SEARCH, 'check_search', [c for c, _, _ in cases],
                                    chunk=max(60, len(cases) // 2 + 1), extra_defs=extra)
    for e in errs:
        ctx.violation('correspondence:coq-eval', {'error': e}, False, e[:300])
    seen_what = {}
    for i in bad:
        _, m, what = cases[i]
        seen_what[what] = seen_what.get(what, 0) + 1
        if seen_what[what] <= 3:
            ctx.violation('correspondence:' + what, dict(m, no_longer_checks=what), False,
                          'model and implementation differ: %s' % (str(m.get('resolved', m.get('observed')))[:200],))


def path_cases(rng, n):
    import posixpath
    parts = ['', '/', '//', 'a', 'a/', 'a//', '/a', '/a/b', 'a/b/', 'a//b', '/r/s0/home', '<c17>', '<string>', 'x.lark', 'lp/main.lark',
             '/r/s1/home/sub/main.lark', '///', 'a/b//', '/a//']
    out = []
    for _ in range(n):
        a = rng.choice(parts) if rng.random() < 0.7 else ''.join(rng.choice('a/b') for _ in range(rng.randint(0, 6)))
        if rng.random() < 0.5:
            b = rng.choice(['m.lark', 'sub/m.lark', 'a/b/c.lark'])
            out.append(('(0, %s, %s, %s)' % (S(a), S(b), S(posixpath.join(a, b))), {'join': [a, b], 'result': posixpath.join(a, b)}))
        else:
            out.append(('(1, %s, %s, %s)' % (S(a), S(''), S(posixpath.split(a)[0])), {'split': a, 'head': posixpath.split(a)[0]}))
    return out


# ----------------------------------------------------------------------------------------------
# histories: ONE process, the same top-level grammar text loaded again and again while the modules it imports
# change (another import_paths directory / the module file rewritten in place / changed back).  Every load must
# mean what ITS hand-inlined grammar means - nothing of an earlier load (parsed trees, resolved terminal
# references, builder state) may survive.  The top-level grammar has a terminal built from an imported terminal
# (its tree is the only one load_grammar does not copy before resolve_term_references rewrites it in place).
# ----------------------------------------------------------------------------------------------
def vary_modules(prog, tag):
    """the same program with other literals in the terminals of every imported module (main untouched)"""
    def v_item(it):
        if it[0] == 'lit':
            return ('lit', it[1].upper() + tag if it[1].isalpha() else it[1])
        if it[0] in ('grp', 'opt'):
            return (it[0], [([v_item(i) for i in seq], al) for seq, al in it[1]])
        if it[0] == 'rep':
            return ('rep', v_item(it[1]), it[2])
        return it

    def v_stmt(st):
        if st[0] == 'term':
            return ('term', st[1], st[2], [([v_item(i) for i in seq], al) for seq, al in st[3]])
        if st[0] in ('override', 'extend'):
            return (st[0], v_stmt(st[1]))
        return st
    return {p: (st if p == ('main',) else [v_stmt(x) for x in st]) for p, st in prog.items()}


def gen_history_program(rng):
    for _ in range(200):
        prog, info = gen_program(rng, False)
        if info.get('skip_b') or len(prog) < 2:
            continue
        main = prog[('main',)]
        iterms = [loc for (imp, loc) in info.get('origin', {}) if imp == 'main']
        if not iterms:
            continue
        t = rng.choice(sorted(iterms))
        # a top-level terminal built from the imported one, reachable from start
        main.append(('term', 'HX', None, [([('sym', t), ('lit', '!')], None)]))
        for i, st in enumerate(main):
            if st[0] == 'rule' and st[2] == 'start':
                main[i] = st[:5] + (st[5] + [([('sym', 'HX')], None)],)
        try:
            inline_program(prog)
        except SpecError:
            continue
        return prog, info
    return None, None


def run_histories(ctx, load_cases, load_meta):
    rng = ctx.rng
    for h in range(ctx.scale(8, 60)):
        prog, info = gen_history_program(rng)
        if prog is None:
            continue
        main_text = p_module(prog[('main',)])
        variants = [prog, vary_modules(prog, 'q'), vary_modules(prog, 'r')]
        d0 = os.path.join(ctx.scratch, 'hist%d_a' % h)
        d1 = os.path.join(ctx.scratch, 'hist%d_b' % h)
        # (directory, variant): another directory, back, the file rewritten in place, and rewritten back
        steps = [(d0, 0), (d1, 1), (d0, 0), (d0, 2), (d0, 0)]
        opts = {'keep_all_tokens': rng.random() < 0.3, 'maybe_placeholders': rng.random() < 0.5}
        for k, (d, vi) in enumerate(steps):
            vp = variants[vi]
            files = {p: p_module(st) for p, st in vp.items() if p != ('main',)}
            write_program(files, d)
            try:
                defs, ignore, inl_text, labels = inline_program(vp, by_hand_templates=(k % 2 == 1))
            except SpecError:
                break
            srcs = [(dd['module'], dd['origin']) for dd in defs.values() if dd['is_term']]
            diamond = len(srcs) != len(set(srcs))
            # (a) the builder's definitions of THIS load against the model
            try:
                term, obs, msg = load_case_term(files, main_text, d, opts['keep_all_tokens'])
                load_cases.append(term)
                load_meta.append((files, main_text, inl_text, labels, {'shape': 'history step %d' % k, 'opts': opts}))
                ctx.count('history-load', key=(main_text, k, vi), nontrivial=True, step=k)
            except Exception as ex:
                ctx.note('history: load_case_term failed: %r' % (ex,))
            # (b) the differential of THIS load against its own hand-inlined grammar
            if diamond:
                continue
            texts = gen_inputs(defs, ignore, rng, 3, 1, 0)
            for parser in ('lalr', 'earley'):
                try:
                    bad, acc = differential(files, main_text, inl_text, labels, texts, parser, d, opts)
                except Exception as ex:
                    ctx.violation('differential-raised', dict(witness(files, main_text, inl_text, labels, parser, '', opts),
                                                             history=history_witness(variants, steps[:k + 1], main_text)),
                                  True, 'unexpected exception %r at step %d of a history' % (ex, k))
                    continue
                for t in texts:
                    ctx.count('history-parse', key=(main_text, k, t, parser), nontrivial=True, step=k, parser=parser)
                for kind, t, a, b in bad[:1]:
                    ctx.violation('inlining-differential:history-' + kind,
                                  dict(witness(files, main_text, inl_text, labels, parser, t or '', opts),
                                       history=history_witness(variants, steps[:k + 1], main_text)), True,
                                  'load number %d of the same top-level grammar text in one process (modules changed in '
                                  'between): modular grammar gives %s, the hand-inlined grammar gives %s (parser=%s, text=%r)'
                                  % (k + 1, str(a)[:160], str(b)[:160], parser, t))


def history_witness(variants, steps, main_text):
    """the loads to replay in order: [(directory tag, {module: text})]"""
    return [{'dir': os.path.basename(d), 'files': {'.'.join(p): p_module(st) for p, st in variants[vi].items() if p != ('main',)}}
            for d, vi in steps]


# ----------------------------------------------------------------------------------------------
# systematic family: the instance of a template has the template's options (modifiers, priority, label)
# - every modifier x priority x where the template lives x order of the competing alternative; the priority
# decides which of two derivations Earley returns and whether LALR can be built at all
# ----------------------------------------------------------------------------------------------
def template_option_family():
    out = []
    LET = 'LETTERS: /[a-z0-9]+/\n'
    for mods in ('', '!', '?', '?!'):
        for prio in (None, 2, -1):
            ps = '' if prio is None else '.%d' % prio
            for first in (False, True):
                for loc in ('local', 'imported-template', 'imported-rule'):
                    name = 'tmplopt:%s:%s:%s:%s' % (mods or '-', prio, 'tmpl-first' if first else 'tmpl-second', loc)
                    if loc == 'imported-rule':
                        alts = 'w | num' if first else 'num | w'
                        files = {('m',): 'w: word{LETTERS}\n%sword{t}%s: t "!"\n%s' % (mods, ps, LET)}
                        main = '%%import m (w, LETTERS)\nstart: %s\nnum: LETTERS "!"\n' % alts
                        inl = 'start: %s\nnum: LETTERS "!"\nw: m__word\n%sm__word%s: LETTERS "!"\n%s' % (alts, mods, ps, LET)
                    else:
                        alts = 'word{LETTERS} | num' if first else 'num | word{LETTERS}'
                        ialts = 'word | num' if first else 'num | word'
                        tdef = '%sword{t}%s: t "!"\n' % (mods, ps)
                        if loc == 'local':
                            files = {}
                            main = 'start: %s\n%snum: LETTERS "!"\n%s' % (alts, tdef, LET)
                        else:
                            files = {('m',): tdef}
                            main = '%%import m.word\nstart: %s\nnum: LETTERS "!"\n%s' % (alts, LET)
                        inl = 'start: %s\n%sword%s: LETTERS "!"\nnum: LETTERS "!"\n%s' % (ialts, mods, ps, LET)
                    out.append(dict(name=name, files=files, main=main, inlined=inl, labels={}, texts=['abc!', 'x1', '!']))
    for p1, p2 in ((3, 3), (None, 2), (-1, None), (2, -2)):
        f = lambda p: '' if p is None else '.%d' % p
        out.append(dict(name='tmplopt:nested:%s:%s' % (p1, p2), files={},
                        main=('start: pair{A, B} | other\npair{x, y}%s: wrap{x} wrap{y}\nwrap{z}%s: z\nother: a b\n'
                              'a: A\nb: B\nA: "a"\nB: "b"\n' % (f(p1), f(p2))),
                        inlined=('start: pair | other\npair%s: wrap_a wrap_b\nwrap_a%s: A\nwrap_b%s: B\nother: a b\n'
                                 'a: A\nb: B\nA: "a"\nB: "b"\n' % (f(p1), f(p2), f(p2))),
                        labels={'wrap_a': 'wrap', 'wrap_b': 'wrap'}, texts=['ab', 'a']))
    return out


def run_template_option_family(ctx, tmpl_cases, tmpl_meta):
    for idx, e in enumerate(template_option_family()):
        d = os.path.join(ctx.scratch, 'topt_%d' % idx)
        write_program(e['files'], d)
        for parser, opts in (('earley', {}), ('earley', {'lexer': 'basic'}), ('lalr', {})):
            bad, acc = differential(e['files'], e['main'], e['inlined'], e['labels'], e['texts'], parser, d, opts)
            for t in e['texts']:
                ctx.count('template-options', key=(e['name'], t, parser, repr(opts)), nontrivial=True)
            for kind, t, a, b in bad[:1]:
                ctx.violation('inlining-differential:' + kind,
                              witness(e['files'], e['main'], e['inlined'], e['labels'], parser, t or '', opts), True,
                              'template instance vs hand-written instance (%s): modular grammar gives %s, the hand-inlined '
                              'grammar gives %s (parser=%s %s, text=%r)' % (e['name'], str(a)[:160], str(b)[:160], parser, opts, t))
        # the instantiation steps themselves, against the model (options of the instance included)
        try:
            for c in record_templates(e['main'], d):
                tmpl_cases.append(c)
                tmpl_meta.append((e['files'], e['main'], e['inlined'], e['labels']))
                ctx.count('template-step', key=c, nontrivial=True)
        except Exception as ex:
            ctx.note('template recording failed on %s: %r' % (e['name'], ex))


# ----------------------------------------------------------------------------------------------
def correspond(ctx):
    rng = ctx.rng
    wide = 3 if ctx.widen else 1
    nprog = ctx.scale(170, 1500) * wide

    new_interner()
    # (0) the small streams (mangle as a function, _unpack_import, _unpack_definition, os.path) are evaluated in one
    # generated Coq file at the end: every file pays the same start-up cost
    small = []        # (coq small_case term, readable meta, what the model function is compared with)
    for c, m in mangle_cases(rng, ctx.scale(300, 3000)):
        ctx.count('mangle', key=c, nontrivial=True)
        small.append(('(CMangle %s)' % c, dict(m, no_longer_checks='_get_mangle agreement'),
                      'Mod/Modules.mangle vs load_grammar._get_mangle'))

    # (1) programs --------------------------------------------------------------------------------
    load_cases, load_meta = [], []
    import_texts = list(UNPACK_FIXED)
    tmpl_cases, tmpl_meta = [], []
    found_by_diff = 0
    for i in range(nprog):
        wild = rng.random() < 0.18
        prog, info = gen_program(rng, wild)
        files = {p: p_module(st) for p, st in prog.items() if p != ('main',)}
        main_text = p_module(prog[('main',)])
        d = os.path.join(ctx.scratch, 'p%d' % i)
        write_program(files, d)
        if i < 60:
            import_texts += [main_text] + list(files.values())
        # global options: keep_all_tokens is handed to GrammarBuilder (and must reach every imported module),
        # maybe_placeholders decides what [..] items of (imported) rules leave in the tree
        opts = {'keep_all_tokens': rng.random() < 0.4, 'maybe_placeholders': rng.random() < 0.5}
        info['opts'] = opts
        try:
            defs, ignore, inl_text, labels = inline_program(prog, by_hand_templates=rng.random() < 0.6)
            spec_err = None
        except SpecError as e:
            defs, ignore, inl_text, labels, spec_err = None, None, None, None, str(e)
        # (a) builder's definitions against the model
        try:
            term, obs, msg = load_case_term(files, main_text, d, opts['keep_all_tokens'])
        except FrontEnd:
            term = None
        except Exception as ex:      # lark's own front end rejected a generated file: generator problem, skip
            term = None
            ctx.note('front end rejected a generated program: %r' % (ex,))
        if term is not None:
            load_cases.append(term)
            load_meta.append((files, main_text, inl_text, labels, info))
            nd = len(obs[2]._definitions) if obs is not None else 0
            nimp = 0
            if obs is not None:
                nimp = sum(1 for n in obs[2]._definitions if '__' in n or any(n == (s[3] or s[2]) for s in prog[('main',)] if s[0] == 'import1'))
            ctx.count('load', key=main_text + repr(sorted(files.items())), nontrivial=nimp >= 2, shape=info['shape'],
                      outcome='error' if obs is None else 'ok', wild=info.get('wild', '-'))
            if obs is not None and i < 3:
                ctx.sample({'load': {'main': main_text, 'files': {'.'.join(p): t for p, t in files.items()},
                                     'definitions': list(map(str, obs[2]._definitions))}})
            # the spec and the builder must agree on error / no error
            if (obs is None) != (spec_err is not None):
                ctx.violation('import-error-agreement', witness(files, main_text, inl_text, labels, 'earley', '', opts), True,
                              'builder %s but writing the definitions out by hand %s' % (
                                  'raised GrammarError (%s)' % msg if obs is None else 'succeeded',
                                  'is an error (%s)' % spec_err if spec_err else 'is a valid grammar'))
                found_by_diff += 1
        # (a') template instantiation steps
        if spec_err is None:
            try:
                tc = record_templates(main_text, d)
            except Exception as ex:
                tc = []
                ctx.note('template recording failed: %r' % (ex,))
            for c in tc[:ctx.scale(5, 12)]:
                tmpl_cases.append(c)
                tmpl_meta.append((files, main_text, inl_text, labels))
                ctx.count('template-step', key=c, nontrivial=True)
        # (b) the differential
        diamond = False
        if spec_err is None:
            # the same terminal imported along two paths gives two terminals with one pattern; which of them the
            # lexer prefers is decided by their names (C07), which the hand-written grammar cannot keep: skip (b)
            srcs = [(dd['module'], dd['origin']) for dd in defs.values() if dd['is_term']]
            diamond = len(srcs) != len(set(srcs))
            if diamond:
                ctx.histo.setdefault('feature', {})
                ctx.histo['feature']['diamond-terminal(skipped in b)'] = ctx.histo['feature'].get('diamond-terminal(skipped in b)', 0) + 1
        if spec_err is None and info.get('skip_b'):
            ctx.histo.setdefault('feature', {})
            k = 'override-of-shared-terminal %s (skipped in b)' % info['skip_b']
            ctx.histo['feature'][k] = ctx.histo['feature'].get(k, 0) + 1
        if spec_err is None and not diamond and not info.get('skip_b'):
            texts = gen_inputs(defs, ignore, rng, 3, 2, 1)
            for parser in ('lalr', 'earley'):
                try:
                    bad, acc = differential(files, main_text, inl_text, labels, texts, parser, d, opts)
                except Exception as ex:
                    ctx.violation('differential-raised', witness(files, main_text, inl_text, labels, parser, '', opts), True,
                                  'unexpected exception %r' % (ex,))
                    found_by_diff += 1
                    continue
                for t in texts:
                    ctx.count('parse', key=(main_text, t, parser, repr(sorted(opts.items()))), nontrivial=True, parser=parser,
                              keep_all_tokens=opts['keep_all_tokens'], maybe_placeholders=opts['maybe_placeholders'])
                ctx.histo.setdefault('accepted', {})
                ctx.histo['accepted'][parser] = ctx.histo['accepted'].get(parser, 0) + acc
                for kind, t, a, b in bad[:2]:
                    found_by_diff += 1
                    ctx.violation('inlining-differential:' + kind, witness(files, main_text, inl_text, labels, parser, t or '', opts), True,
                                  'modular grammar gives %s, the hand-inlined grammar gives %s (parser=%s, options=%s, text=%r)'
                                  % (str(a)[:160], str(b)[:160], parser, opts, t))
        for f in info['features']:
            ctx.histo.setdefault('feature', {})
            ctx.histo['feature'][f] = ctx.histo['feature'].get(f, 0) + 1

    run_option_corpus(ctx, load_cases, load_meta)
    run_template_option_family(ctx, tmpl_cases, tmpl_meta)
    run_histories(ctx, load_cases, load_meta)
    for c, m in unpack_cases(import_texts):
        ctx.count('unpack-import', key=c, nontrivial=True)
        small.append(('(CUnpackImport %s)' % c, dict(m, no_longer_checks='_unpack_import agreement'),
                      'Mod/Unpack.unpack_import vs GrammarBuilder._unpack_import'))
    # raw statement front: _make_rule_tuple / _unpack_definition on every definition statement
    for c, m in unpack_def_cases(UNPACK_DEF_FIXED + import_texts[len(UNPACK_FIXED):]):
        ctx.count('unpack-definition', key=c, nontrivial=True)
        small.append(('(CUnpackDef %s)' % c, dict(m, no_longer_checks='_unpack_definition agreement'),
                      'Mod/Front.unpack_def vs _make_rule_tuple/_unpack_definition'))
    # posixpath join / split as used by do_import and _unpack_import
    for c, m in path_cases(rng, ctx.scale(200, 2000)):
        ctx.count('path-functions', key=c, nontrivial=True)
        small.append(('(CPath %s)' % c, dict(m, no_longer_checks='path functions'), 'Mod/Search.path_join/dirname vs os.path'))
    bad, errs = ctx.coq_bad_indices('c17small', IMPORTS_SEARCH, 'check_small', [c for c, _, _ in small], chunk=4000,
                                    extra_defs=CUR.defs())
    for e in errs:
        ctx.violation('correspondence:coq-eval', {'error': e}, False, e[:300])
    seen_what = {}
    for i in bad:
        _, m, what = small[i]
        seen_what[what] = seen_what.get(what, 0) + 1
        if seen_what[what] <= 3:
            ctx.violation('correspondence:' + what, m, False, 'model and implementation differ: %s' % (m,))
    # the file search and load_grammar over directory layouts
    run_search_stream(ctx)
    bad, errs = ctx.coq_bad_indices('c17load', IMPORTS, 'check_load', load_cases, chunk=max(8, len(load_cases) // 6 + 1),
                                    extra_defs=CUR.defs())
    for e in errs:
        ctx.violation('correspondence:coq-eval', {'error': e}, False, e[:300])
    for i in bad[:6]:
        files, main_text, inl_text, labels, info = load_meta[i]
        ctx.violation('correspondence:Mod/Modules.load_and_validate vs GrammarBuilder',
                      dict(witness(files, main_text, inl_text, labels, 'earley', '', info.get('opts')),
                           no_longer_checks='final definitions of GrammarBuilder agree with the model'),
                      False, 'GrammarBuilder._definitions differ from the model on a program of shape %s (options %s)'
                      % (info['shape'], info.get('opts')))
    bad, errs = ctx.coq_bad_indices('c17tmpl', IMPORTS, 'check_template', tmpl_cases,
                                    chunk=max(20, len(tmpl_cases) // 4 + 1), extra_defs=CUR.defs())
    for e in errs:
        ctx.violation('correspondence:coq-eval', {'error': e}, False, e[:300])
    for i in bad[:6]:
        files, main_text, inl_text, labels = tmpl_meta[i]
        ctx.violation('correspondence:Mod/Modules.template_usage_step vs ApplyTemplates.template_usage',
                      dict(witness(files, main_text, inl_text, labels, 'earley', ''),
                           no_longer_checks='template instantiation agrees with the model', case=tmpl_cases[i][:1500]),
                      False, 'ApplyTemplates.template_usage differs from the model')

    # (2) exotic corpus ---------------------------------------------------------------------------------
    for e in EXOTIC:
        bad = run_exotic(ctx, e)
        ctx.count('exotic', key=e['key'] or e['main'], nontrivial=True)
        for kind, t, a, b in bad[:1]:
            ctx.violation('inlining-differential:' + kind,
                          witness(e['files'], e['main'], e['inlined'], e['labels'], e['parser'], e['text']), True,
                          'modular grammar gives %s, the hand-inlined grammar gives %s' % (str(a)[:160], str(b)[:160]),
                          key=e['key'])

    # check.py counts the keyed known findings above as "a failing input was found" and would then only note a
    # broken proof obligation / regeneration tie: report those here when no NEW failing input was found
    broken = list(getattr(ctx, 'proof_broken', [])) + list(getattr(ctx, 'tie_broken', []))
    if broken and any(v['found'] and v.get('key') for v in ctx.violations) \
            and not any(v['found'] and not v.get('key') for v in ctx.violations):
        for what, det in broken:
            ctx.violation(what, {'no_longer_checks': what, 'detail': det}, False, det)


def replay(ctx, case):
    w = case['witness']
    if 'main' not in w:
        return False
    files = {tuple(k.split('.')): v for k, v in w['files'].items()}
    d = os.path.join(ctx.scratch, 'replay')
    write_program(files, d)
    if w.get('history'):
        # replay every load of the history in order, in this process; the last one is the failing load
        for step in w['history'][:-1]:
            hd = os.path.join(ctx.scratch, 'replay_' + step['dir'])
            write_program({tuple(k.split('.')): v for k, v in step['files'].items()}, hd)
            for parser in ('lalr', 'earley'):
                build(w['main'], parser, hd, **(w.get('options') or {}))
        d = os.path.join(ctx.scratch, 'replay_' + w['history'][-1]['dir'])
        write_program(files, d)
    if case.get('stage') == 'import-error-agreement':
        obs, msg = observe_builder(w['main'], d, bool((w.get('options') or {}).get('keep_all_tokens')))
        return (obs is None) != (w['inlined'] is None)
    try:
        bad, _ = differential(files, w['main'], w['inlined'], w['labels'], [w['text']], w['parser'], d, w.get('options'))
    except Exception:
        return True
    return bool(bad)
