"""C17 - Imports, overrides, extensions, templates mean what textual inlining means."""
import os
import re

from lib import coq_term_str as S, coq_list as L, coq_Z as Z

THEOREMS = ['C17_derives_rename', 'C17_trees_rename', 'C17_mangle_injective_or_error', 'C17_mangle_prefix_disjoint',
            'C17_import_is_inlining', 'C17_remove_unused_is_reachability', 'C17_no_capture',
            'C17_extend_is_alternative', 'C17_override_replaces', 'C17_template_is_substitution',
            'C17_instance_name_injective', 'C17_template_label_refuted', 'C17_example']
GEN_DEPS = []
RULE = ('random programs of 1-3 module files (plain / renamed / multi / nested %import, %override, %extend, templates with '
        'symbol, literal and nested-template arguments, same-named private rules and terminals in every module, '
        '%declare, %ignore, and a controlled rate of erroneous programs) written under ctx.scratch; (a) the '
        'GrammarBuilder._definitions after load_grammar+validate against Mod/Modules.load_and_validate on the '
        'statement trees lark parsed from the same files, every ApplyTemplates.template_usage call against '
        'template_usage_step, _get_mangle against mangle; (b) parse of the modular grammar against the hand-inlined '
        'single grammar (written with fresh names) on derived sentences, mutated sentences and random strings under '
        'lalr and earley: same acceptance, equal trees after the label map. non-trivial = distinct program with >= 1 '
        'import that contributes >= 2 definitions / distinct (program, input) with an accepted parse')
TRUSTED_BASE = ['hand model Mod/Modules.v of GrammarBuilder / _get_mangle / resolve_term_references / ApplyTemplates '
                '(tied by comparing final definitions, per-call template instantiation and mangled names)',
                'the .lark front end (_parse_grammar, _unpack_import, _make_rule_tuple) is not modelled: the model '
                'starts from the statement trees lark itself produced',
                'file search (import_paths, base_path, stdlib loader) is not modelled: modules are found by dotted path',
                'python reference inliner in harness/props/C17.py (the "by hand" grammar of the differential)']
ASSUMPTIONS = ['term trees are compared with copying semantics: a terminal that another imported terminal references is '
               'not overridden/extended from another module in the main streams (exotic stream covers it)',
               'names are non-empty; rule/terminal names do not contain "{", "}" or ","']
ALLOWED_AXIOMS = []

IMPORTS = 'From LV Require Import Mod.Modules Mod.ModulesCheck.'


# ----------------------------------------------------------------------------------------------
# lark objects -> Coq terms of Mod/Modules.v
# ----------------------------------------------------------------------------------------------
def B(b):
    return 'true' if b else 'false'


def opt(x, f):
    return 'None' if x is None else '(Some %s)' % f(x)


def ct(t):
    from lark.tree import Tree
    from lark.grammar import Symbol
    if isinstance(t, Tree):
        return '(Nd %s %s)' % (S(str(t.data)), L([ct(c) for c in t.children]))
    if isinstance(t, Symbol):
        return '(Sy %s %s)' % (B(t.is_term), S(t.name))
    if isinstance(t, str):
        return '(Tk %s)' % S(str(t))
    raise ValueError('unexpected node in a grammar tree: %r' % (t,))


def copts(o, is_term):
    if is_term:
        return '(OTerm %s)' % Z(int(o))
    return '(ORule %s %s %s %s)' % (B(o.keep_all_tokens), B(o.expand1), opt(o.priority, lambda p: Z(int(p))),
                                     opt(o.template_source, lambda s: S(str(s))))


def cdef(name, is_term, tree, params, o):
    return '(mkDef %s %s %s %s %s)' % (S(str(name)), B(is_term), opt(tree, ct), L([S(str(p)) for p in params]),
                                       copts(o, is_term))


class FrontEnd(Exception):
    """the file is rejected by the part of the front end that is not modelled"""


def stmt_terms(text):
    """statement trees of one file (as load_grammar sees them) -> list of Coq `stmt` terms"""
    from lark.load_grammar import _parse_grammar, _make_rule_tuple, TOKEN_DEFAULT_PRIORITY
    from lark.tree import Tree
    from lark.grammar import Terminal
    tree = _parse_grammar(text, '<c17>')
    out = []

    def unpack(t):
        if t.data == 'rule':
            name, params, exp, o = _make_rule_tuple(*t.children)
            return cdef(name, False, exp, params, o)
        name = t.children[0].value
        prio = int(t.children[1]) if len(t.children) == 3 else TOKEN_DEFAULT_PRIORITY
        return cdef(name, True, t.children[-1], (), prio)

    for st in tree.children:
        if st.data in ('rule', 'term'):
            out.append('(SDef KDefine %s)' % unpack(st))
        elif st.data == 'override':
            out.append('(SDef KOverride %s)' % unpack(st.children[0]))
        elif st.data == 'extend':
            out.append('(SDef KExtend %s)' % unpack(st.children[0]))
        elif st.data == 'ignore':
            out.append('(SIgnore %s)' % ct(st.children[0]))
        elif st.data == 'declare':
            out.append('(SDeclare %s)' % L(['(%s, %s)' % (B(isinstance(s, Terminal)), S(s.name)) for s in st.children]))
        elif st.data == 'import':
            path_node = st.children[0]
            arg1 = st.children[1] if len(st.children) > 1 else None
            if isinstance(arg1, Tree):
                dotted = [str(c) for c in path_node.children]
                al = {}
                for n in arg1.children:
                    al[str(n)] = str(n)
            else:
                dotted = [str(c) for c in path_node.children[:-1]]
                if not dotted:
                    raise FrontEnd('nothing imported')
                name = str(path_node.children[-1])
                al = {name: str(arg1) if arg1 is not None else name}
            out.append('(SImport %s %s)' % (L([S(d) for d in dotted]),
                                            L(['(%s, %s)' % (S(k), S(v)) for k, v in al.items()])))
        else:
            raise FrontEnd('statement ' + str(st.data))
    return out


def observe_builder(main_text, scratch, gkeep=False):
    """run the real GrammarBuilder; returns None on GrammarError, else (coq defs list, coq ignore list, builder)"""
    from lark.load_grammar import GrammarBuilder
    from lark.exceptions import GrammarError
    gb = GrammarBuilder(gkeep, [scratch])
    try:
        gb.load_grammar(main_text, '<c17>')
        gb.validate()
    except GrammarError as e:
        return None, str(e)
    defs = [cdef(n, d.is_term, d.tree, d.params, d.options) for n, d in gb._definitions.items()]
    return (L(defs), L([S(str(x)) for x in gb._ignore_names]), gb), None


def load_case_term(files, main_text, scratch, gkeep=False):
    """files: {dotted path tuple: text}.  Returns (coq term, observed, error message)"""
    fs = L(['(%s, %s)' % (L([S(p) for p in path]), L(stmt_terms(text))) for path, text in files.items()])
    main = L(stmt_terms(main_text))
    obs, msg = observe_builder(main_text, scratch, gkeep)
    exp = 'None' if obs is None else '(Some (%s, %s))' % (obs[0], obs[1])
    return '(%s, %s, %s, %s)' % (fs, B(gkeep), main, exp), obs, msg
